#!/usr/bin/env python3
"""Evaluate independently written seeded defects (written by fresh sub-agents that saw only the property text):
for <src>/<CNN>/<k>/{patch.diff, demo.c, README.md}
  1. apply the patch to a scratch worktree of /repo HEAD, build with cmake, run the pinned suite (must stay 38 OK),
  2. build demo.c against the unchanged and against the changed library; it must pass / fail respectively
     (plain build; if the README says a sanitizer is needed the demo verdict is recorded as 'needs-tool'),
  3. run the property's quick check (and optionally other checks) with VERIF_REPO=<worktree>; exit 1 = detected.
Kept under /verif/seeded/<CNN>-<k>/ : patch.diff, demo.c, README.md, meta.json.

usage: seed_eval.py <src-dir> [--only C05-1 ...] [--also C07] [--tier quick|thorough]
"""
import argparse, json, os, shutil, subprocess, sys, time

V = os.path.dirname(os.path.dirname(os.path.abspath(__file__)))
REPO = "/repo"


def sh(cmd, **kw):
    return subprocess.run(cmd, shell=isinstance(cmd, str), capture_output=True, text=True, **kw)


def build_suite(wt, run=True):
    b = sh("cmake -G Ninja -S %s -B %s/_build -DCMAKE_BUILD_TYPE=RelWithDebInfo >/dev/null && cmake --build %s/_build 2>&1 | tail -3" % (wt, wt, wt))
    if not os.path.exists("%s/_build/test/testbee2" % wt):
        return None, b.stdout[-500:]
    if not run:
        return {"built": True}, ""
    t = sh("%s/_build/test/testbee2" % wt, timeout=900)
    return {"ok": t.stdout.count("Test: OK"), "err": t.stdout.count("Test: Err"), "rc": t.returncode}, ""


def run_demo(wt, demo, tag):
    exe = "/tmp/seed-demo-%s-%d" % (tag, os.getpid())
    c = sh("gcc -O1 -I%s/include -I%s/src %s %s/_build/src/libbee2_static.a -ldl -lpthread -o %s" % (wt, wt, demo, wt, exe))
    if c.returncode != 0:
        return {"build": "failed", "msg": c.stderr[-300:]}
    try:
        r = sh(exe, timeout=300)
        rc = r.returncode
    except subprocess.TimeoutExpired:
        rc = "timeout"
    finally:
        try:
            os.unlink(exe)
        except OSError:
            pass
    return {"build": "ok", "rc": rc}


def main():
    ap = argparse.ArgumentParser()
    ap.add_argument("src")
    ap.add_argument("--only", nargs="*")
    ap.add_argument("--also", nargs="*", default=[])
    ap.add_argument("--tier", default="quick")
    ap.add_argument("--recheck", action="store_true",
                    help="re-run only the checks (suite and demo verdicts are kept from the existing meta.json); <src> may be /verif/seeded")
    args = ap.parse_args()
    results = []
    if args.recheck:
        return recheck(args)
    for prop in sorted(os.listdir(args.src)):
        pd = os.path.join(args.src, prop)
        if not (os.path.isdir(pd) and prop.startswith("C")):
            continue
        for k in sorted(os.listdir(pd)):
            d = os.path.join(pd, k)
            patch = os.path.join(d, "patch.diff")
            if not os.path.isfile(patch):
                continue
            sid = "%s-%s" % (prop, k)
            if args.only and sid not in args.only:
                continue
            out = os.path.join(V, "seeded", sid)
            os.makedirs(out, exist_ok=True)
            for f in os.listdir(d):
                if os.path.isfile(os.path.join(d, f)) and os.path.getsize(os.path.join(d, f)) < 400000:
                    shutil.copy(os.path.join(d, f), os.path.join(out, f))
            needs = {}
            try:
                needs = json.load(open(os.path.join(V, "scripts", "seed_needs.json")))
            except Exception:
                pass
            meta = {"id": sid, "property": prop, "source": "independent sub-agent given only the property text",
                    "needs_to_manifest": needs.get(sid, "see README.md"), "ran": []}
            wt = "/tmp/seedeval-%s" % sid
            sh(["git", "-C", REPO, "worktree", "remove", "--force", wt])
            shutil.rmtree(wt, ignore_errors=True)
            sh(["git", "-C", REPO, "worktree", "add", "-f", "--detach", wt, "HEAD"])
            try:
                demo = os.path.join(out, "demo.c")
                # unchanged library
                suite0, msg = build_suite(wt, run=False)  # the unchanged suite is the pinned baseline
                if os.path.exists(demo) and suite0:
                    meta["demo_unchanged"] = run_demo(wt, demo, sid + "a")
                a = sh(["git", "-C", wt, "apply", patch])
                if a.returncode != 0:
                    a = sh(["git", "-C", wt, "apply", "--3way", patch])
                if a.returncode != 0:
                    meta["status"] = "patch-does-not-apply"
                    meta["detail"] = a.stderr[-300:]
                    continue
                suite, msg = build_suite(wt)
                meta["suite_with_change"] = suite or {"build": "failed", "msg": msg}
                meta["compiles_and_suite_passes"] = bool(suite and suite["ok"] == 38 and suite["err"] == 0)
                if os.path.exists(demo) and suite:
                    meta["demo_changed"] = run_demo(wt, demo, sid + "b")
                shutil.rmtree(os.path.join(wt, "_build"), ignore_errors=True)
                env = dict(os.environ, VERIF_REPO=wt)
                det = {}
                for p in [prop] + [x for x in args.also if x != prop]:
                    t0 = time.time()
                    c = sh([os.path.join(V, "check"), p, "--tier", args.tier], env=env, cwd=V)
                    keys = [l.strip()[:300] for l in c.stdout.splitlines() if l.strip().startswith("key=")]
                    det[p] = {"exit": c.returncode, "detected": c.returncode == 1, "keys": keys[:8], "wall_s": round(time.time() - t0, 1)}
                    meta["ran"].append("VERIF_REPO=%s ./check %s --tier %s" % (wt, p, args.tier))
                meta["checks"] = det
                meta["detected_by"] = [p for p, x in det.items() if x["detected"]]
                meta["status"] = "detected" if meta["detected_by"] else "MISSED"
            finally:
                sh(["git", "-C", REPO, "worktree", "remove", "--force", wt])
                shutil.rmtree(wt, ignore_errors=True)
                json.dump(meta, open(os.path.join(out, "meta.json"), "w"), indent=1)
                results.append(meta)
                print("%s %-9s suite=%s demo=%s/%s by=%s" % (sid, meta.get("status"), meta.get("compiles_and_suite_passes"),
                      (meta.get("demo_unchanged") or {}).get("rc"), (meta.get("demo_changed") or {}).get("rc"),
                      ",".join(meta.get("detected_by", []))), flush=True)
    return 0


def recheck(args):
    sd = os.path.join(V, "seeded")
    for sid in sorted(os.listdir(sd)):
        d = os.path.join(sd, sid)
        if sid.startswith("revert-") or not os.path.isfile(os.path.join(d, "patch.diff")) or not os.path.isfile(os.path.join(d, "meta.json")):
            continue
        if args.only and sid not in args.only:
            continue
        meta = json.load(open(os.path.join(d, "meta.json")))
        prop = meta.get("property") or sid.split("-")[0]
        wt = "/tmp/seedre-%s-%d" % (sid, os.getpid())
        sh(["git", "-C", REPO, "worktree", "add", "-f", "--detach", wt, "HEAD"])
        try:
            a = sh(["git", "-C", wt, "apply", os.path.join(d, "patch.diff")])
            if a.returncode != 0:
                a = sh(["git", "-C", wt, "apply", "--3way", os.path.join(d, "patch.diff")])
            if a.returncode != 0:
                print("%s patch-does-not-apply" % sid, flush=True)
                continue
            env = dict(os.environ, VERIF_REPO=wt)
            det = {}
            prev = [p for p in meta.get("detected_by", []) if p != prop]
            for p in [prop] + [x for x in (args.also or prev) if x != prop]:
                t0 = time.time()
                c = sh([os.path.join(V, "check"), p, "--tier", args.tier], env=env, cwd=V)
                keys = [l.strip()[:300] for l in c.stdout.splitlines() if l.strip().startswith("key=")]
                det[p] = {"exit": c.returncode, "detected": c.returncode == 1, "keys": keys[:8], "wall_s": round(time.time() - t0, 1)}
            meta["checks"] = det
            meta["ran"] = ["VERIF_REPO=<worktree with patch.diff> ./check %s --tier %s" % (p, args.tier) for p in det]
            meta["detected_by"] = [p for p, x in det.items() if x["detected"]]
            meta["status"] = "detected" if meta["detected_by"] else "MISSED"
            meta["rechecked_at_repo_head"] = sh(["git", "-C", REPO, "log", "-1", "--format=%h"]).stdout.strip()
            json.dump(meta, open(os.path.join(d, "meta.json"), "w"), indent=1)
            print("%s %-9s by=%s" % (sid, meta["status"], ",".join(meta["detected_by"])), flush=True)
        finally:
            sh(["git", "-C", REPO, "worktree", "remove", "--force", wt])
            shutil.rmtree(wt, ignore_errors=True)
    return 0


main()
