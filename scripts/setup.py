#!/usr/bin/env python3
"""Offline setup: nothing to fetch. Pre-builds the two most used library configurations from /repo
(checks rebuild from the current tree anyway, keyed by a hash of the sources)."""
import os, sys
sys.path.insert(0, os.path.dirname(os.path.dirname(os.path.abspath(__file__))))
from vlib import build
for cfg in ("asan64", "rel64"):
    print(build.build(cfg, quiet=False))
print("setup ok")
