#!/usr/bin/env python3
"""Regenerates MANIFEST.json from the table below (kept in one place so that the manifest stays valid)."""
import json, os, subprocess
V = os.path.dirname(os.path.dirname(os.path.abspath(__file__)))
CHECKS = {}
exec(open(os.path.join(V, "scripts", "manifest_table.py")).read())
props = [json.loads(l)["id"] for l in open(os.path.join(V, "properties.jsonl"))]
checks, na = [], []
for pid in props:
    c = CHECKS.get(pid)
    if c is None or c.get("na"):
        na.append({"property_id": pid, "reason": (c or {}).get("na", "check not built yet (see DESIGN.md); claimed in a later commit")})
        continue
    checks.append({
        "property_id": pid,
        "quick_cmd": "./check %s --tier quick" % pid,
        "thorough_cmd": "./check %s --tier thorough" % pid,
        "evidence_file": "/verif/evidence/%s.json" % pid,
        "replay_cmd_template": "./check %s --replay {path}" % pid,
        "engine": "bee2-runtime-monitor",
        "level_claimed": {"category": c["level"], "text": c["text"], "design_ref": "DESIGN.md section 3, " + pid},
        "level_note": c["note"],
        "technique": c["technique"],
    })
try:
    commits = subprocess.run(["git", "-C", "/repo", "log", "--format=%h %s"], capture_output=True, text=True).stdout.splitlines()
    hook_commits = [l.split()[0] for l in commits if l.split(" ", 1)[1].startswith("verif hook")]
except Exception:
    hook_commits = []
m = {
    "version": 1,
    "setup_cmd": "python3 scripts/setup.py",
    "hooks": {
        "guard": "BEE2_VERIF",
        "enable": "vlib/build.py compiles /repo/src directly with -DBEE2_VERIF plus one sub-flag per hook "
                  "(-DBEE2_VERIF_EXACT_BLOB, -DBEE2_VERIF_W32, -DBEE2_VERIF_YIELD, -DBEE2_VERIF_BLOB_COUNT) for the configurations that need it; "
                  "Release configurations used for C14/C19 carry no define",
        "baseline_off_cmd": "scripts/baseline.sh",
        "source_commits": hook_commits,
        "add_only": True,
    },
    "engines": [{"name": "bee2-runtime-monitor", "path": "/verif/check",
                 "serves_properties": [c["property_id"] for c in checks],
                 "kind_free_text": "runtime monitoring: the real library built from /repo's working tree in several "
                                   "sanitizer/word-size configurations, driven through ctypes with exact-size heap buffers "
                                   "by hostile workloads; reference-model, metamorphic and sanitizer oracles; C harnesses for "
                                   "TSan, memcheck taint, allocation interposition and mass domains"}],
    "checks": checks,
    "not_applicable": na,
    "notes": "Exit codes: 0 held on everything explored, 1 violation (VIOLATION lines), 2 inconclusive/harness failure. "
             "known_findings.json lists repaired (fixed) and recorded (known) defects.",
}
json.dump(m, open(os.path.join(V, "MANIFEST.json"), "w"), indent=1)
print("checks:", len(checks), "not_applicable:", len(na))
