#!/bin/sh
# run every check of the given tier once (optionally with a seed list); prints one line per run
TIER=${1:-quick}; shift
SEEDS=${*:-1}
mkdir -p out
for s in $SEEDS; do
  for id in C01 C02 C03 C04 C05 C06 C07 C08 C09 C10 C11 C12 C13 C14 C15 C16 C17 C18 C19 C20; do
    t0=$(date +%s)
    VERIF_SEED=$s ./check $id --tier $TIER > out/runall_$id.log 2>&1; rc=$?
    t1=$(date +%s)
    echo "seed=$s $id tier=$TIER rc=$rc wall=$((t1-t0))s $(grep -c '^VIOLATION' out/runall_$id.log) violations; $(tail -1 out/runall_$id.log | cut -c1-160)"
  done
done
