#!/usr/bin/env python3
"""Writes /verif/seeded/SUMMARY.md (and the block between the DETECTION markers of DESIGN.md) from seeded/*/meta.json"""
import json, os, glob, re
V = os.path.dirname(os.path.dirname(os.path.abspath(__file__)))
rows_seed, rows_rev = [], []
NEEDS = json.load(open(os.path.join(V, "scripts", "seed_needs.json")))
for d in sorted(glob.glob(os.path.join(V, "seeded", "*"))):
    mp = os.path.join(d, "meta.json")
    if not os.path.exists(mp):
        continue
    m = json.load(open(mp))
    name = os.path.basename(d)
    if name.startswith("revert-"):
        rows_rev.append((name, m))
    else:
        rows_seed.append((name, m))
out = []
out.append("### Independently seeded defects (fresh sub-agents given only the property text)\n")
out.append("| id | needs to manifest | suite passes | detected by (quick) | first keys |\n|---|---|---|---|---|")
for name, m in rows_seed:
    keys = []
    for p in m.get("detected_by", []):
        for k in m["checks"][p]["keys"][:1]:
            keys.append(re.sub(r"^key=", "", k).split(" count=")[0][:90])
    out.append("| %s | %s | %s | %s | %s |" % (name, str(NEEDS.get(name) or m.get("needs_to_manifest", ""))[:170], "yes" if m.get("compiles_and_suite_passes") else "NO",
               ", ".join(m.get("detected_by", [])) or ("**MISSED**" if m.get("status") in (None, "MISSED") else m.get("status")),
               ("; ".join(keys)[:200] or str(m.get("explanation", ""))[:200]).replace("|", "/")))
nd = sum(1 for _, m in rows_seed if m.get("detected_by"))
no = sum(1 for _, m in rows_seed if not m.get("detected_by") and m.get("status") not in (None, "MISSED"))
out.append("\n%d of %d seeded defects are detected by the quick tier of at least one check; %d are judged to leave the property intact "
           "(see their meta.json).\n" % (nd, len(rows_seed), no))
out.append("### Re-introduced repaired defects (reverse patch of each `fix:` commit on a scratch worktree)\n")
out.append("| commit | defect | suite passes with defect | status | detected by |\n|---|---|---|---|---|")
for name, m in rows_rev:
    out.append("| %s | %s | %s | %s | %s |" % (m["commit"], m["subject"][5:140].replace("|", "/"),
               "yes" if m.get("compiles_and_suite_passes") else ("?" if "suite" not in m else "NO"),
               m.get("status"), ", ".join(m.get("detected_by", []))))
from collections import Counter
c = Counter(m.get("status") for _, m in rows_rev)
out.append("\nReverts: %s.\n" % ", ".join("%s %d" % kv for kv in sorted(c.items(), key=lambda x: str(x[0]))))
txt = "\n".join(out) + "\n"
open(os.path.join(V, "seeded", "SUMMARY.md"), "w").write(txt)
dp = os.path.join(V, "DESIGN.md")
s = open(dp).read()
b, e = "<!-- DETECTION:BEGIN -->", "<!-- DETECTION:END -->"
if b in s:
    s = s[:s.index(b) + len(b)] + "\n" + txt + s[s.index(e):]
    open(dp, "w").write(s)
print(txt[-400:])
