#!/usr/bin/env python3
"""Sensitivity sweep over the repaired defects: for every `fix:` commit of /repo re-introduce the defect
(reverse patch on a scratch worktree of HEAD), confirm that the pinned suite still passes (the defect is invisible
to the tests) and that the quick check of the property recorded for that commit in known_findings.json reports a
violation.  Results: /verif/seeded/revert-<commit>/{patch.diff, meta.json}.

usage: revert_sweep.py [--only <commit-prefix>...] [--skip-suite] [--jobs N]
"""
import argparse, json, os, shutil, subprocess, sys, time
from concurrent.futures import ThreadPoolExecutor

V = os.path.dirname(os.path.dirname(os.path.abspath(__file__)))
REPO = "/repo"


def sh(cmd, **kw):
    return subprocess.run(cmd, shell=isinstance(cmd, str), capture_output=True, text=True, **kw)


def fix_commits():
    out = sh(["git", "-C", REPO, "log", "--reverse", "--format=%h %s"]).stdout.splitlines()
    return [(l.split()[0], l.split(" ", 1)[1]) for l in out if l.split(" ", 1)[1].startswith("fix:")]


def props_for(commit, kf):
    ps = []
    for e in kf:
        if e.get("commit", "").startswith(commit[:7]) or commit.startswith(e.get("commit", "zzzzzzz")[:7]):
            if e["property"] not in ps:
                ps.append(e["property"])
    return ps


def one(commit, subject, kf, args):
    wt = "/tmp/revert-%s" % commit
    res = {"commit": commit, "subject": subject, "kind": "revert-of-fix"}
    outdir = os.path.join(V, "seeded", "revert-%s" % commit)
    os.makedirs(outdir, exist_ok=True)
    if args.skip_suite and os.path.exists(os.path.join(outdir, "meta.json")):
        old = json.load(open(os.path.join(outdir, "meta.json")))        # suite verdict of the earlier full run is kept
        for k in ("suite", "compiles_and_suite_passes"):
            if k in old:
                res[k] = old[k]
    patch = sh(["git", "-C", REPO, "show", "-R", "--format=", commit]).stdout
    open(os.path.join(outdir, "patch.diff"), "w").write(patch)
    sh(["git", "-C", REPO, "worktree", "remove", "--force", wt])
    shutil.rmtree(wt, ignore_errors=True)
    r = sh(["git", "-C", REPO, "worktree", "add", "-f", "--detach", wt, "HEAD"])
    try:
        a = sh(["git", "-C", wt, "apply", "--3way", os.path.join(outdir, "patch.diff")])
        if a.returncode != 0:
            a = sh(["git", "-C", wt, "apply", os.path.join(outdir, "patch.diff")])
        if a.returncode != 0:
            res["status"] = "patch-does-not-apply-to-HEAD (later fixes touch the same lines)"
            res["detail"] = a.stderr[-400:]
            return res
        # pinned suite on the mutated tree
        if not args.skip_suite:
            b = sh("cmake -G Ninja -S %s -B %s/_build -DCMAKE_BUILD_TYPE=RelWithDebInfo >/dev/null && cmake --build %s/_build >/dev/null 2>&1 && %s/_build/test/testbee2" % (wt, wt, wt, wt))
            ok = b.stdout.count("Test: OK")
            res["suite"] = {"ok": ok, "err": b.stdout.count("Test: Err"), "rc": b.returncode}
            res["compiles_and_suite_passes"] = (b.returncode == 0 and ok == 38)
            shutil.rmtree(os.path.join(wt, "_build"), ignore_errors=True)
        props = props_for(commit, kf) or []
        res["properties"] = props
        detected = {}
        env = dict(os.environ, VERIF_REPO=wt)
        for p in props + ([] if "C07" in props else ["C07"]):
            if p == "C07" and any(d.get("detected") for d in detected.values()):
                continue
            t0 = time.time()
            c = sh([os.path.join(V, "check"), p, "--tier", "quick"], env=env, cwd=V)
            keys = [l.strip() for l in c.stdout.splitlines() if l.strip().startswith("key=")]
            detected[p] = {"exit": c.returncode, "keys": keys[:6], "wall_s": round(time.time() - t0, 1)}
            detected[p]["detected"] = c.returncode == 1
        res["checks"] = detected
        res["detected_by"] = [p for p, d in detected.items() if d["detected"]]
        res["status"] = "detected" if res["detected_by"] else "MISSED"
        return res
    finally:
        sh(["git", "-C", REPO, "worktree", "remove", "--force", wt])
        shutil.rmtree(wt, ignore_errors=True)
        json.dump(res, open(os.path.join(outdir, "meta.json"), "w"), indent=1)


def main():
    ap = argparse.ArgumentParser()
    ap.add_argument("--only", nargs="*")
    ap.add_argument("--skip-suite", action="store_true")
    ap.add_argument("--jobs", type=int, default=2)
    args = ap.parse_args()
    kf = json.load(open(os.path.join(V, "known_findings.json")))
    commits = fix_commits()
    if args.only:
        commits = [c for c in commits if any(c[0].startswith(o) for o in args.only)]
    results = []
    with ThreadPoolExecutor(args.jobs) as ex:
        for r in ex.map(lambda c: one(c[0], c[1], kf, args), commits):
            results.append(r)
            print("%s %-10s %s | %s" % (r["commit"], r.get("status"), ",".join(r.get("detected_by", [])), r["subject"][:90]), flush=True)
    allp = os.path.join(V, "seeded", "revert_sweep.json")
    if args.only and os.path.exists(allp):          # partial run: merge into the full table
        old = [r for r in json.load(open(allp)) if r["commit"] not in {x["commit"] for x in results}]
        json.dump(old + results, open(allp, "w"), indent=1)
    else:
        json.dump(results, open(allp, "w"), indent=1)
    missed = [r for r in results if r.get("status") == "MISSED"]
    print("total %d, detected %d, missed %d, not applicable %d" % (
        len(results), sum(r.get("status") == "detected" for r in results), len(missed),
        sum(str(r.get("status")).startswith("patch") for r in results)))


main()
