CHECKS = {
 "C20": dict(level="model_checking",
   technique="online trace monitor over the exhaustive product of real transitions and monitor state",
   text="Every (state, event) pair and every edge of the finite product (implementation state x monitor state) reachable "
        "from the 16 persistent states is executed as a real btokPwdTransition call under ASan; the monitor checks the six "
        "rules of the statement on each edge (incl. the converse of the PUK rule: a correct PUK before the tenth wrong one makes the "
        "PIN usable again), so every finite history's verdict is observed. Random long histories cross-check.",
   note="Trusts the monitor's reading of the rules (DESIGN.md C20) and that the function is a pure function of (state, event)."),
 "C18": dict(level="exploration",
   technique="ThreadSanitizer on a multi-threaded stress harness + value monitors (exactly-once, permutation, shadow refcount, duplicate-block scan) over many fresh processes with seeded yields",
   text="Hundreds (quick) to thousands (thorough) of fresh processes race 2..16 threads on the first rngCreate, on rngStepR/StepR2/Rekey/IsValid/Close "
        "programs, on once-triggers and on one atomic counter, with seeded yields at hook points between critical sections and CPU-affinity "
        "masks; TSan reports with a bee2 frame and the harness's value monitors are the oracle; a hang is decided by progress (no operation "
        "completed for 120 s, twice), never by wall clock; evidence counts distinct interleaving signatures.",
   note="Schedules are sampled, not enumerated; TSan generalises only over accesses that occurred; TSan build uses -DNDEBUG; x86 only."),
 "C11": dict(level="exploration",
   technique="differential execution: disjoint exact-size buffers vs one exact-size arena with outputs laid over inputs at every offset",
   text="For every function whose header grants overlap (one table row per header statement) the same call is executed on pairwise disjoint "
        "exact-size heap blocks and on one arena where dest sits at every offset in [-(len+32), len+32] against src and each auxiliary input "
        "(key, IV, header, MAC, AD, level) is placed outside, at the start of, inside, or at the end of the output region; outputs and return codes must agree.",
   note="Only documented permissions are driven; inputs are pairwise disjoint (except memJoin); Release build for values, ASan build in thorough; "
        "lengths 16..100."),
 "C10": dict(level="exploration",
   technique="script-vs-one-shot differential on Start/Step/Get bundles with state relocation under ASan",
   text="For 22 bundles (belt ECB/CBC/CFB/CTR/BDE/SDE/MAC/Hash/HMAC/DWP/CHE/KRP, bash hash and the four bash-prg step commands, brng CTR/HMAC, "
        "botp HOTP/TOTP/OCRA) random and exhaustive (<= 2 cuts at every block-boundary position) fragmentations incl. empty fragments, "
        "Get/Verify insertions where the header allows get-then-continue, and relocation of copyable states (copy to a fresh exact-size block, "
        "old block overwritten with 0xDD and freed) are compared with the one-shot high-level function; intermediate Gets are compared with "
        "the one-shot value of the prefix.",
   note="Trusts the one-shot functions (tied to the standard by C01/C03); messages up to ~5 internal blocks; splits restricted to what each header permits."),
 "C14": dict(level="exploration",
   technique="memcheck taint tracking on the Release build + branch-trace (trace-pc) equality over value sets + SAFE/FAST differential",
   text="All 33 SAFE/FAST pairs are compared on equal / first-differing-at-every-position / boundary / multiple-of-modulus operands at lengths "
        "0..16 words (0..40 octets); the Release machine code is run under memcheck with operand values, keys, tags and data marked undefined "
        "(any dependent conditional jump inside a target is a violation; FAST editions are the positive control every run); and a "
        "coverage-instrumented Release build must produce one identical executed-edge trace per (target, length) over 64 value sets (for "
        "the unwrap functions: one trace per verdict, also over rejected tokens that match the expected header in 0..15 octets).",
   note="memcheck follows one path per run and does not propagate taint through table look-ups; trace equality is over sampled values; "
        "cache-timing via table indices is outside the property; gcc -O3 build only (clang Release in thorough is not yet added)."),
 "C01": dict(level="exploration",
   technique="reference-model oracle (naive Python STB 34.101.31) + inverse/tamper metamorphic oracles under ASan, exhaustive FMT block-count table",
   text="Every belt mechanism is driven through the high-level and the Start/Step API on exact-size heap buffers: all key lengths, every message "
        "length 0..80 (CTS 16..47, WBL/KWP every length 32..208 and wide blocks of 2032..8192 octets), counters crafted to carry out of 32/64/96/128 bits, HMAC keys 0..96, PBKDF2, "
        "FMT alphabets x word counts; outputs must equal the independent model octet for octet, D(E(x)) = x, and authenticated unwrap must "
        "reject every single-bit alteration of tag/header and sampled alterations of ciphertext/AD/IV/key. The FMT block-count table is "
        "compared with exact integer arithmetic (quick: 481k entries; thorough: all 19,660,500).",
   note="The model is the maintainer's reading of the standard anchored on every Appendix-A vector the repository embeds; messages >= 2^29 "
        "octets only through the exported length helpers."),
 "C03": dict(level="exploration",
   technique="reference-model oracle (bash-f/hash/prg, brng CTR/HMAC, HOTP/TOTP/OCRA in naive Python) over command scripts and boundary catalogues under ASan",
   text="bash-f on structured states, 16 hash levels x lengths around the rate, bash-prg command scripts (start/restart/absorb/squeeze/encrypt/"
        "decrypt/ratchet, data lengths straddling the buffer) replayed by the model with a mirrored decrypting automaton, brng CTR with IVs "
        "that wrap a word or all 256 bits and zero/non-zero additional input, brng HMAC key/IV lengths, OTP digit counts, counter wrap, all 16 "
        "truncation offsets and OCRA suite combinations; thorough adds rel64, asan32 and every BASH platform variant the CPU supports.",
   note="belt-hash/HMAC inside brng/botp are the library's own (tied to the standard by C01); models anchored on the appendix vectors in bash/brng/botp tests."),
 "C08": dict(level="exploration",
   technique="strict-DER / ISO 7816 reference parsers as oracles + exhaustive <=3-octet TL domain in a C harness + structure-aware mutation under ASan",
   text="All 16.8M octet strings of length 0..3 go through derTLDec/derDec/derIsValid/derStartsWith on exact-size heap copies against an "
        "independent C oracle (itself cross-checked against the Python model each run); every typed DER codec, OID, APDU, hex/base64/decimal, "
        "bignParams, CVC, bpki and secure-messaging decoder receives truncations, single-octet mutations and crafted tag/length forms "
        "(lengths near SIZE_MAX, non-minimal, 0x80/0xFF); checked: no sanitizer report, consumed <= input, accept iff the strict model accepts, "
        "Enc(Dec(x)) = x for canonical formats, Dec(Enc(v)) = v.",
   note="Canonicality asserted only for formats their headers call DER/canonical; legal non-minimal extended APDU codings are tallied, not judged."),
 "C15": dict(level="exploration",
   technique="LD_PRELOAD allocation interposer snapshotting released blocks + forked twin-run differential + secret needle scan on the Release build",
   text="For about 100 secret-taking high-level calls (belt, brng, botp, bign, bign96, bels, bpki, btok CVC, g12s, dstu, pfok, bakeKDF/SWU and the "
        "six bake Run drivers against a scripted peer) every block bee2 frees (or abandons in a moving realloc), and every block it still "
        "holds when it returns, is snapshotted; two twins forked from one memory image that differ only in the secret must show byte-identical "
        "blocks (a wiped block depends only on addresses and the wipe counter), and no block may contain an 8-octet window of the secret or "
        "its expanded key. Exits covered: success, failed authentication, every error exit reachable by corrupting one input (bad "
        "private/public key, out-of-range private key of the bign/bign96 signers, bad token, short token, spoiled peer tag, right password on a "
        "container of the other kind) and every allocation-failure exit.",
   note="Heap blocks only; gcc -O3 Release build; rngCreate and the step-level bake/BAUTH functions (caller-owned state) are not in the call table."),
 "C09": dict(level="fault_enumeration",
   technique="allocation-failure enumeration through an LD_PRELOAD interposer in forked children + header-transcribed argument-contract table under ASan",
   text="Fault half: for every call in the table the k-th allocation issued from libbee2 fails for k = 1, 2, ... until the call completes "
        "without reaching the fault; each faulted call must return an error, not crash (observed in a forked child) and leave no live block. "
        "Argument half (c09_args, when present): one row per err_t function transcribed from the \\expect{ERR_...} clauses; every documented "
        "domain violation must yield the documented error class without crash, and a failed authenticated unwrap must not leave plaintext/key in dest.",
   note="Faults are injected only at malloc/calloc/realloc called from libbee2; most high-level calls allocate exactly one blob. The fault "
        "half covers the ~100 secret-taking calls of C15's table plus 28 allocating validators/verifiers/hashes."),
 "C12": dict(level="exploration",
   technique="executable condition lists of the standards as oracles over perturbed standard parameter sets + exhaustive windows (dates, primes, polynomials) under ASan",
   text="Every standard parameter set of bign, bign96, g12s, stb99, dstu, pfok and bels must validate and each single-field alteration is "
        "decided by the model's condition list; public keys on/off curve/twist/out of range, key pairs d in {0,1,q-1,q,q+1}; dates exhaustively "
        "over every octet pair and every valid date of a century; priIsPrimeW/priIsPrime/priNextPrimeW exhaustively on [0,2^17) (thorough 2^20) and "
        "around 2^32, Carmichael numbers, strong pseudoprimes, products of large primes; ppIsIrred on all 131072 polynomials of degree <= 16; "
        "ecp/ec2 IsValid, SeemsValidGroup, IsSafeGroup on complete small curves (orders, cofactors and embedding degrees on the decision boundary).",
   note="Conditions the headers do not settle are executed but not judged; 'accepts every prime' is sampled above 2^33."),
 "C04": dict(level="exploration",
   technique="protocol monitor: both parties hosted in one process with the harness as the network (deliver / alter / substitute / swap), verdict table of the statement, under ASan",
   text="BMQV, BSTS, BPACE and token BAUTH are run step by step and through RunA/RunB (B in a second thread over an in-memory pipe) for 3 curves x "
        "confirmation flags x hello strings x generator tapes; every octet of every message M1..M4 is altered (curve256 in quick, all curves in "
        "thorough), points are replaced by off-curve / out-of-field / zero / twist encodings, passwords, keys and certificates are mismatched; "
        "honest runs must agree on the key, tampered runs must fail (confirmation) or disagree (no confirmation). The driver runs also cover "
        "certificates that make M2/M3 longer than the 512-octet read block (honest and altered) and certificates that are 4-octet identifiers.",
   note="Negating the y-coordinate of a transmitted point is outside the quantifier (the standard hashes x only) and only tallied."),
 "C13": dict(level="exploration",
   technique="reference-model oracle (GF(2)[x] sharing/CRT in Python) + recover-after-share metamorphic oracle over exhaustive subsets under ASan",
   text="3 secret lengths x counts 1..16 x thresholds x all subsets of size >= threshold for count <= 5 (thorough 6) and random subsets above x "
        "several orderings, standard and generated public keys, structured generator tapes; every share must equal the model's value and every "
        "recovery the secret; generated user keys must validate and be deterministic in the identifier.",
   note="belsShare3's deterministic k is checked by consistency, not by value."),
 "C16": dict(level="exploration",
   technique="reference models (GOST R 34.10, DSTU 4145, pfok, thin bign96) + sign/verify/tamper metamorphic oracles under ASan",
   text="All standard parameter sets of bign96, g12s (8), dstu (10) and pfok x private keys {1, 2, order-1, random} x hashes {0, all-ones, "
        "order, order+1, random} x generator tapes (incl. forced rejection and forced s = 0) x bit alterations of signature and public key "
        "(model decides whether the reduced inputs changed); DSTU compress/recover incl. x = 0; pfok DH/MTI both directions.",
   note="Rejected alterations are model-evaluated on a sample; brngCTR-driven nonces are judged by the verification equation only."),
 "C17": dict(level="exploration",
   technique="roundtrip / tamper monitors + header-text chain-validity model for CV certificates, secure messaging dialogues and bpki containers under ASan",
   text="CV certificates for key lengths 24/32/48/64 with boundary names, dates and access words, chains of depth 1..3 with every octet of every "
        "certificate altered; secure-messaging dialogues of 1..12 command/response pairs with every Lc/Le form, counters in step / out of step / "
        "wrong parity and every protected octet flipped, and the same Lc/Le forms through the SM functions without state; password-protected "
        "containers with wrong passwords, wrong type, every octet altered, iteration counts across the DER length boundary.",
   note="Replay at the same counter is not claimed (MAC does not cover the counter by design)."),
 "C02": dict(level="exploration",
   technique="reference-model oracle (STB 34.101.45 over a naive affine curve model) with crafted generator tapes and model-decided verifier alterations under ASan",
   text="3 curves x private keys {1, 2, q-1, random} x hashes {0, 1, q-1, q, q+1, 2^2l-1, random, crafted H >= q triples} x OIDs x generator "
        "tapes (random, r bad candidates then a good one, all-bad, candidates in [q, p)); signatures must equal the model and verify; every "
        "alteration of s0, s1, H, Q, OID, token, header is decided by the model on the altered input; DH symmetry, key transport round trip, IBS; "
        "forgery scans: 1.4e5 (thorough 1.2e6) signatures with s1 replaced must all be refused by bignIdExtract / bignVerify.",
   note="belt-hash/wblock/kwp inside the model are the library's (tied to the standard by C01); appendix vectors exist for l = 128 only."),
 "C05": dict(level="exploration",
   technique="header-formula oracle in Python integers / GF(2)[x] bit vectors over boundary catalogues, both word sizes, SAFE and FAST editions, under ASan",
   text="146 word/ww/zz symbols and the zm/qr/gfp/pp/gf2 layers (all ring constructors incl. forced Plain/Crandall/Barrett/Montgomery) are "
        "driven at operand lengths 0..20 words (32/64 in thorough) with operands from the boundary catalogue (0, 1, B^n-1, single bits, "
        "multiples of the modulus, estimate-correction cases, both-odd / even cofactors, degrees at word boundaries), documented aliasing, "
        "exact _deep stacks; all 16-bit helpers and all polynomial pairs of degree <= 7 (thorough 10) exhaustively; results and carries must "
        "equal the header formula, modular results must be < mod, SAFE must equal FAST.",
   note="word.h macros are covered through their users; one known finding (ppMinPolyMod on reducible moduli) is listed in known_findings.json."),
 "C06": dict(level="exploration",
   technique="affine group-law reference model over complete small curves (all ordered point pairs, all scalars up to 2*order+2) and constructed special cases on standard curves, under ASan",
   text="neg/add/adda/sub/suba/dbl/dbla/tpl in Jacobian/LD, mixed and affine coordinates with randomised projective representatives and the "
        "aliasing patterns c=a, c=b, a=b on every ordered pair (incl. O, P=Q, P=-Q, 2-torsion) of complete curves over GF(p), p <= 103 "
        "(thorough 263), multi-word supersingular curves, binary subfield curves and the bign/bign96/GOST/DSTU curves; ecMulA for all scalars "
        "on small curves and boundary scalars of every window width on standard ones; ecAddMulA grids; ecHasOrderA; on-curve tests; SWU.",
   note="Groups of >= 64 bits are covered through small subgroups and constructed special cases only."),
 "C07": dict(level="exploration",
   technique="AddressSanitizer + UBSan(bounds,null) + live ASSERTs on exact-size heap buffers/states/stacks/blobs, replaying all functional workloads in 64- and 32-bit word builds, plus a two-fill definedness differential",
   text="The case streams of C01-C06, C08, C09(args), C10-C13, C16, C17 are replayed under asan64 (two fill patterns) and asan32 with "
        "every caller buffer, state (_keep), stack (_deep) and internal blob allocated at exactly its documented size; a sanitizer report, an "
        "ASSERT abort or a fatal signal in bee2, or a transcript digest that depends on the scratch fill pattern, is a violation.",
   note="Intra-allocation overruns are invisible to ASan; MemorySanitizer is not applicable to the ctypes driver; functions no workload reaches are not claimed."),
 "C19": dict(level="exploration",
   technique="N-way differential execution of identical case streams in separately built configurations, compared on per-case transcript digests",
   text="The octet-level case streams of C01-C04, C10, C13, C16, C17 run in rel64, rel32 (32-bit words), fast64 (SAFE_FAST) and dbg64 (-O0, "
        "ASSERT on); thorough adds dbg32, -O1, -O2, clang -O3, asan64; bash units additionally in the BASH_32/SSE2/AVX2/AVX-512 variants the "
        "CPU supports; every case's digest of return codes and output octets must be identical in all configurations, and no configuration may abort "
        "(ASSERT, signal) on a case the reference configuration computes.",
   note="Big-endian, B_PER_W = 16 and NEON cannot be built/run here; the 32-bit word configuration uses the guarded hook on the 64-bit ABI."),
}
