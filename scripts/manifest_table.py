CHECKS = {
 "C20": dict(level="model_checking",
   technique="online trace monitor over the exhaustive product of real transitions and monitor state",
   text="Every (state, event) pair and every edge of the finite product (implementation state x monitor state) reachable "
        "from the 16 persistent states is executed as a real btokPwdTransition call under ASan; the monitor checks the six "
        "rules of the statement on each edge, so every finite history's verdict is observed. Random long histories cross-check.",
   note="Trusts the monitor's reading of the rules (DESIGN.md C20) and that the function is a pure function of (state, event)."),
 "C18": dict(level="exploration",
   technique="ThreadSanitizer on a multi-threaded stress harness + value monitors (exactly-once, permutation, shadow refcount, duplicate-block scan) over many fresh processes with seeded yields",
   text="Hundreds (quick) to thousands (thorough) of fresh processes race 2..16 threads on the first rngCreate, on rngStepR/StepR2/Rekey/IsValid/Close "
        "programs, on once-triggers and on one atomic counter, with seeded yields at hook points between critical sections and CPU-affinity "
        "masks; TSan reports with a bee2 frame and the harness's value monitors are the oracle; evidence counts distinct interleaving signatures.",
   note="Schedules are sampled, not enumerated; TSan generalises only over accesses that occurred; TSan build uses -DNDEBUG; x86 only."),
 "C11": dict(level="exploration",
   technique="differential execution: disjoint exact-size buffers vs one exact-size arena with outputs laid over inputs at every offset",
   text="For every function whose header grants overlap (one table row per header statement) the same call is executed on pairwise disjoint "
        "exact-size heap blocks and on one arena where dest sits at every offset in [-(len+32), len+32] against src and each auxiliary input "
        "(key, IV, header, MAC, AD, level) is placed outside, at the start of, inside, or at the end of the output region; outputs and return codes must agree.",
   note="Only documented permissions are driven; inputs are pairwise disjoint (except memJoin); Release build for values, ASan build in thorough; "
        "lengths 16..100."),
 "C10": dict(level="exploration",
   technique="script-vs-one-shot differential on Start/Step/Get bundles with state relocation under ASan",
   text="For 22 bundles (belt ECB/CBC/CFB/CTR/BDE/SDE/MAC/Hash/HMAC/DWP/CHE/KRP, bash hash and the four bash-prg step commands, brng CTR/HMAC, "
        "botp HOTP/TOTP/OCRA) random and exhaustive (<= 2 cuts at every block-boundary position) fragmentations incl. empty fragments, "
        "Get/Verify insertions where the header allows get-then-continue, and relocation of copyable states (copy to a fresh exact-size block, "
        "old block overwritten with 0xDD and freed) are compared with the one-shot high-level function; intermediate Gets are compared with "
        "the one-shot value of the prefix.",
   note="Trusts the one-shot functions (tied to the standard by C01/C03); messages up to ~5 internal blocks; splits restricted to what each header permits."),
 "C14": dict(level="exploration",
   technique="memcheck taint tracking on the Release build + branch-trace (trace-pc) equality over value sets + SAFE/FAST differential",
   text="All 33 SAFE/FAST pairs are compared on equal / first-differing-at-every-position / boundary / multiple-of-modulus operands at lengths "
        "0..16 words (0..40 octets); the Release machine code is run under memcheck with operand values, keys, tags and data marked undefined "
        "(any dependent conditional jump inside a target is a violation; FAST editions are the positive control every run); and a "
        "coverage-instrumented Release build must produce one identical executed-edge trace per (target, length) over 64 value sets.",
   note="memcheck follows one path per run and does not propagate taint through table look-ups; trace equality is over sampled values; "
        "cache-timing via table indices is outside the property; gcc -O3 build only (clang Release in thorough is not yet added)."),
}
