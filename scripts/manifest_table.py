CHECKS = {
 "C20": dict(level="model_checking",
   technique="online trace monitor over the exhaustive product of real transitions and monitor state",
   text="Every (state, event) pair and every edge of the finite product (implementation state x monitor state) reachable "
        "from the 16 persistent states is executed as a real btokPwdTransition call under ASan; the monitor checks the six "
        "rules of the statement on each edge, so every finite history's verdict is observed. Random long histories cross-check.",
   note="Trusts the monitor's reading of the rules (DESIGN.md C20) and that the function is a pure function of (state, event)."),
}
