#!/bin/sh
# Repository's own suite with the verification guard OFF (no -DBEE2_VERIF):
# rebuild /repo/_build with cmake and run the test binary; all 38 sub-tests must say OK.
set -e
B=${VERIF_BASELINE_BUILD:-/repo/_build}
if [ ! -f "$B/build.ninja" ] && [ ! -f "$B/Makefile" ]; then
  cmake -G Ninja -S /repo -B "$B" -DCMAKE_BUILD_TYPE=RelWithDebInfo >/dev/null
fi
cmake --build "$B" >/dev/null
OUT=$("$B/test/testbee2" 2>&1) || { echo "$OUT" | tail -20; echo "baseline: test binary failed"; exit 1; }
N=$(echo "$OUT" | grep -c "Test: OK" || true)
E=$(echo "$OUT" | grep -c "Test: Err" || true)
echo "$OUT" | grep "Test:" 
echo "baseline: $N OK, $E Err"
[ "$N" -eq 38 ] && [ "$E" -eq 0 ]
