#!/bin/sh
# usage: on_patch.sh <patch.diff> <check-id> [tier]   -- run one check against a scratch worktree of /repo HEAD with the patch applied
set -e
V=$(cd "$(dirname "$0")/.." && pwd)
P=$(realpath "$1"); ID=$2; TIER=${3:-quick}
WT=/tmp/mut-$$
git -C /repo worktree add -f --detach "$WT" HEAD >/dev/null 2>&1
trap 'git -C /repo worktree remove --force "$WT" >/dev/null 2>&1; rm -rf "$WT"' EXIT
git -C "$WT" apply "$P" || git -C "$WT" apply --3way "$P"
cd "$V" && VERIF_REPO="$WT" ./check "$ID" --tier "$TIER" || echo "exit=$?"
