"""C01 — belt: every mechanism computes exactly what STB 34.101.31 defines.

Oracle: vlib/ref/belt.py (naive model, self-tested on every Appendix-A vector that belt_test.c embeds) plus
metamorphic oracles (decrypt o encrypt = id, tampered => rejected).  Every library call gets exact-size heap
buffers (lib.mk / lib.alloc), states are exactly _keep() octets.
"""
from ..core import Harness
from ..bee2 import errcode, errname
from ..ref import belt as M

LEVEL = "exploration"

KLENS = (16, 24, 32)
MSG_BOUNDARY = (0, 1, 15, 16, 17, 31, 32, 33, 47, 48, 49, 63, 64, 65, 95, 96, 97)
FMT_ALPHABETS = (2, 3, 10, 16, 26, 255, 256, 257, 1000, 49667, 65535, 65536)
FMT_COUNTS = tuple(range(2, 41)) + (159, 160, 161, 319, 320, 599, 600)


# ---------------------------------------------------------------------------
# helpers
# ---------------------------------------------------------------------------

class U:
    """per-unit helper: model trust, violation bookkeeping"""

    def __init__(self, ctx, need_lib=True):
        self.ctx, self.lib, self.rng = ctx, ctx.lib, ctx.rng
        try:
            M.selftest()
        except M.SelfTestError as e:
            raise Harness(str(e))
        self.nviol = {}
        self.klens = {}
        if need_lib and self.lib is None:
            raise Harness("unit needs a library configuration")

    def bad(self, fn, cat, sig, what, detail):
        key = "%s:%s:%s" % (fn, cat, sig)
        n = self.nviol.get(key, 0)
        self.nviol[key] = n + 1
        if n < 3:
            self.ctx.violation(key, what, detail)

    def eq(self, fn, cls, got, exp, detail=None):
        if got != exp:
            d = dict(detail or {})
            d.update(expected=exp, got=got)
            self.bad(fn, "value", cls, "%s differs from the STB 34.101.31 reference model" % fn, d)
            return False
        return True

    def inv(self, fn, cls, got, exp, detail=None):
        if got != exp:
            d = dict(detail or {})
            d.update(expected=exp, got=got)
            self.bad(fn, "inverse", cls, "%s does not invert the matching encrypt/wrap call" % fn, d)

    def rc(self, fn, cls, r, exp=0, detail=None):
        if r != exp:
            d = dict(detail or {})
            d.update(expected_ret=errname(exp), got_ret=errname(r))
            self.bad(fn, "ret", cls, "%s returned %s, expected %s" % (fn, errname(r), errname(exp)), d)
            return False
        return True

    def key(self, klen):
        self.klens[str(klen)] = self.klens.get(str(klen), 0) + 1
        return self.rng.randbytes(klen)

    def done(self):
        self.ctx.note("key_lengths", self.klens)


def pat(rng, n):
    """octet string of n octets: mostly random, sometimes a boundary pattern"""
    m = rng.randrange(10)
    r = rng.randbytes(n)
    bit = rng.randrange(8 * n) if n else 0
    if m == 0:
        return bytes(n)
    if m == 1:
        return b"\xff" * n
    if m == 2 and n:
        a = bytearray(n)
        a[bit >> 3] = 1 << (bit & 7)
        return bytes(a)
    return r


def flip(b, bit):
    a = bytearray(b)
    a[bit >> 3] ^= 1 << (bit & 7)
    return bytes(a)


def lencls(L, blk=16):
    if L == 0:
        return "empty"
    if L < blk:
        return "short"
    if L % blk == 0:
        return "full%d" % min(L // blk, 3)
    return "ragged%d" % min(L // blk, 3)


def cuts_stream(rng, L):
    """arbitrary chunking (possibly with empty chunks)"""
    k = rng.randrange(1, 5)
    pts = [0] + sorted(rng.randrange(0, L + 1) for _ in range(k - 1)) + [L]
    return [b - a for a, b in zip(pts, pts[1:])]


def cuts_cts(rng, L):
    """leading chunks of whole blocks, final chunk >= 16 octets carrying the ragged tail (belt.h remark on ECB/CBC)"""
    nb = L // 16
    k = rng.randrange(0, nb) if nb > 1 else 0
    lead = []
    while k > 0:
        j = rng.randrange(1, k + 1)
        lead.append(16 * j)
        k -= j
    return lead + [L - sum(lead)]


def run_steps(lib, step, st, data, cuts, extra=()):
    """feed data chunk by chunk, each chunk in its own exact-size heap block; returns the concatenated buffers"""
    out, off = b"", 0
    for c in cuts:
        p = lib.mk(data[off:off + c])
        step(p, c, *extra, st)
        out += lib.rd(p, c)
        off += c
    return out


def feed_steps(lib, step, st, data, cuts):
    off = 0
    for c in cuts:
        step(lib.mk(data[off:off + c]), c, st)
        off += c


# ---------------------------------------------------------------------------
# unit: model self-test with the long PBKDF2 vectors (no library call)
# ---------------------------------------------------------------------------

def unit_selftest(ctx):
    ctx.case(["model-selftest-deep"], "model:selftest")
    try:
        M.selftest(deep=True)
    except M.SelfTestError as e:
        raise Harness(str(e))
    ctx.digest(b"ok")
    ctx.case(["model-selftest-deep", "done"], "model:selftest")
    ctx.digest(b"ok")


# ---------------------------------------------------------------------------
# unit: H, key expansion, block, compress
# ---------------------------------------------------------------------------

def unit_block(ctx):
    u = U(ctx)
    lib, rng = u.lib, u.rng
    n = ctx.params["n"]
    if ctx.case(["beltH"], "H-table"):
        h = lib.rd(lib.beltH(), 256)
        ctx.digest(h)
        u.eq("beltH", "table", h, M.H)
    for it in range(n):
        klen = KLENS[it % 3]
        key = u.key(klen)
        x = pat(rng, 16)
        hh, xx, ss = pat(rng, 32), pat(rng, 32), pat(rng, 16)
        if it % 9 == 3:
            key = pat(rng, klen)
        kx = M.key_expand(key)
        # key expansion
        if ctx.case({"op": "beltKeyExpand", "key": key}, "keyexpand:%d" % klen):
            o1, o2 = lib.alloc(32), lib.alloc(32)
            lib.beltKeyExpand(o1, lib.mk(key), klen)
            lib.beltKeyExpand2(o2, lib.mk(key), klen)
            g1, g2 = lib.rd(o1, 32), lib.rd(o2, 32)
            lib.release()
            ctx.digest(g1, g2)
            u.eq("beltKeyExpand", "k%d" % klen, g1, kx, {"key": key})
            u.eq("beltKeyExpand2", "k%d" % klen, g2, kx, {"key": key})
        # block, three interfaces, both directions
        for d, mf in (("Encr", M.block_encr), ("Decr", M.block_decr)):
            if not ctx.case({"op": "beltBlock" + d, "key": key, "block": x}, "block:" + d.lower()):
                continue
            exp = mf(x, key)
            kp = lib.mk(kx)
            b1 = lib.mk(x)
            getattr(lib, "beltBlock" + d)(b1, kp)
            b2 = lib.mk(x)
            getattr(lib, "beltBlock" + d + "2")(b2, kp)
            w = [lib.mk(x[4 * i:4 * i + 4]) for i in range(4)]
            getattr(lib, "beltBlock" + d + "3")(w[0], w[1], w[2], w[3], kp)
            g1, g2 = lib.rd(b1, 16), lib.rd(b2, 16)
            g3 = b"".join(lib.rd(p, 4) for p in w)
            # inverse
            b4 = lib.mk(g1)
            getattr(lib, "beltBlock" + ("Decr" if d == "Encr" else "Encr"))(b4, kp)
            g4 = lib.rd(b4, 16)
            lib.release()
            ctx.digest(g1, g2, g3, g4)
            det = {"key": key, "block": x}
            u.eq("beltBlock" + d, "block", g1, exp, det)
            u.eq("beltBlock" + d + "2", "block", g2, exp, det)
            u.eq("beltBlock" + d + "3", "block", g3, exp, det)
            u.inv("beltBlock" + d, "block", g4, x, det)
        # compress
        if ctx.case({"op": "beltCompr", "h": hh, "X": xx, "s": ss}, "compress"):
            S, Y = M.compress(xx + hh)
            hp, sp = lib.mk(hh), lib.mk(ss)
            lib.beltCompr2(sp, hp, lib.mk(xx), lib.alloc(lib.beltCompr_deep()))
            gh, gs = lib.rd(hp, 32), lib.rd(sp, 16)
            hp2 = lib.mk(hh)
            lib.beltCompr(hp2, lib.mk(xx), lib.alloc(lib.beltCompr_deep()))
            gh2 = lib.rd(hp2, 32)
            lib.release()
            ctx.digest(gh, gs, gh2)
            det = {"h": hh, "X": xx, "s": ss}
            u.eq("beltCompr2", "h", gh, Y, det)
            u.eq("beltCompr2", "s", gs, M.xor(ss, S), det)
            u.eq("beltCompr", "h", gh2, Y, det)
    u.done()


# ---------------------------------------------------------------------------
# unit: ECB, CBC, CFB, CTR, BDE, SDE, MAC, hash over lengths 0..80 in steps of one octet
# ---------------------------------------------------------------------------

MODES = (
    # name, has iv in Start/one-shot, admissible length, model E, model D, chunking
    ("ECB", False, lambda L: L >= 16, M.ecb_encr, M.ecb_decr, "cts"),
    ("CBC", True, lambda L: L >= 16, M.cbc_encr, M.cbc_decr, "cts"),
    ("CFB", True, lambda L: True, M.cfb_encr, M.cfb_decr, "stream"),
    ("CTR", True, lambda L: True, M.ctr, M.ctr, "stream"),
    ("BDE", True, lambda L: L >= 16 and L % 16 == 0, M.bde_encr, M.bde_decr, "cts"),
    ("SDE", True, lambda L: L >= 32 and L % 16 == 0, M.sde_encr, M.sde_decr, "whole"),
)


def _mode_case(u, name, has_iv, me, md, kind, key, iv, x, cs, cc, iv2):
    """one-shot + Start/Step for one mode, both directions, on input x"""
    ctx, lib = u.ctx, u.lib
    klen, L = len(key), len(x)
    cls = "%s:%s" % (name.lower(), lencls(L))
    for d, mf, mg in (("E", me, md), ("D", md, me)):
        if name == "CTR":
            hl, step = "beltCTR", "beltCTRStepE"
            if d == "D":
                continue
        else:
            hl, step = "belt%s%s" % (name, "Encr" if d == "E" else "Decr"), "belt%sStep%s" % (name, d)
        det = {"key": key, "iv": iv if has_iv else None, "src": x}
        # one-shot
        if ctx.case(dict(det, op=hl), cls):
            exp = mf(x, key, iv) if has_iv else mf(x, key)
            dest = lib.alloc(L)
            args = [dest, lib.mk(x), L, lib.mk(key), klen] + ([lib.mk(iv)] if has_iv else [])
            r = getattr(lib, hl)(*args)
            got = lib.rd(dest, L)
            # inverse by the library itself
            inv_hl = "beltCTR" if name == "CTR" else "belt%s%s" % (name, "Decr" if d == "E" else "Encr")
            dest2 = lib.alloc(L)
            args = [dest2, lib.mk(got), L, lib.mk(key), klen] + ([lib.mk(iv)] if has_iv else [])
            r2 = getattr(lib, inv_hl)(*args)
            back = lib.rd(dest2, L)
            lib.release()
            ctx.digest(got, r, back, r2)
            if u.rc(hl, cls, r, 0, det):
                u.eq(hl, cls, got, exp, det)
            if r == 0 and u.rc(inv_hl, cls, r2, 0, det):
                u.inv(inv_hl, cls, back, x, det)
        # Start/Step with an exact-size state
        cuts = cs if kind == "stream" else (cc if kind == "cts" else [L])
        if ctx.case(dict(det, op=step, cuts=cuts, iv2=iv2 if name == "SDE" else None), cls + ":steps"):
            st = lib.alloc(getattr(lib, "belt%s_keep" % name)())
            if name == "SDE":
                lib.beltSDEStart(st, lib.mk(key), klen)
                got = run_steps(lib, getattr(lib, step), st, x, [L], (lib.mk(iv),))
                got2 = run_steps(lib, getattr(lib, step), st, x, [L], (lib.mk(iv2),))   # state reuse, other IV
                exp, exp2 = mf(x, key, iv), mf(x, key, iv2)
            else:
                args = [st, lib.mk(key), klen] + ([lib.mk(iv)] if has_iv else [])
                getattr(lib, "belt%sStart" % name)(*args)
                got = run_steps(lib, getattr(lib, step), st, x, cuts)
                got2 = exp2 = b""
                exp = mf(x, key, iv) if has_iv else mf(x, key)
            lib.release()
            ctx.digest(got, got2)
            det2 = dict(det, cuts=cuts)
            u.eq(step, cls, got, exp, det2)
            u.eq(step, cls + ":reuse", got2, exp2, dict(det2, iv2=iv2))


def _mac_case(u, key, x, cs, glen):
    ctx, lib = u.ctx, u.lib
    klen, L = len(key), len(x)
    cls = "mac:" + lencls(L)
    det = {"key": key, "src": x}
    exp = M.mac(x, key)
    if ctx.case(dict(det, op="beltMAC"), cls):
        o = lib.alloc(8)
        r = lib.beltMAC(o, lib.mk(x), L, lib.mk(key), klen)
        got = lib.rd(o, 8)
        lib.release()
        ctx.digest(got, r)
        if u.rc("beltMAC", cls, r, 0, det):
            u.eq("beltMAC", cls, got, exp, det)
    if ctx.case(dict(det, op="beltMACStep", cuts=cs, glen=glen), cls + ":steps"):
        st = lib.alloc(lib.beltMAC_keep())
        lib.beltMACStart(st, lib.mk(key), klen)
        feed_steps(lib, lib.beltMACStepA, st, x, cs)
        o, o2 = lib.alloc(8), lib.alloc(glen)
        lib.beltMACStepG(o, st)
        lib.beltMACStepG2(o2, glen, st)
        v = lib.beltMACStepV(lib.mk(exp), st)
        v2 = lib.beltMACStepV2(lib.mk(exp[:glen]), glen, st)
        vbad = lib.beltMACStepV(lib.mk(flip(exp, glen * 7 % 64)), st)
        g, g2 = lib.rd(o, 8), lib.rd(o2, glen)
        # get-then-continue: append x once more
        feed_steps(lib, lib.beltMACStepA, st, x, [L])
        o3 = lib.alloc(8)
        lib.beltMACStepG(o3, st)
        g3 = lib.rd(o3, 8)
        lib.release()
        ctx.digest(g, g2, v, v2, vbad, g3)
        det2 = dict(det, cuts=cs)
        u.eq("beltMACStepG", cls, g, exp, det2)
        u.eq("beltMACStepG2", cls, g2, exp[:glen], dict(det2, mac_len=glen))
        u.eq("beltMACStepV", cls + ":accept", (bool(v), bool(v2)), (True, True), det2)
        u.eq("beltMACStepV", cls + ":reject", bool(vbad), False, det2)
        u.eq("beltMACStepG", cls + ":continue", g3, M.mac(x + x, key), det2)


def _hash_case(u, x, cs, glen):
    ctx, lib = u.ctx, u.lib
    L = len(x)
    cls = "hash:" + lencls(L, 32)
    det = {"src": x}
    exp = M.hash(x)
    if ctx.case(dict(det, op="beltHash"), cls):
        o = lib.alloc(32)
        r = lib.beltHash(o, lib.mk(x), L)
        got = lib.rd(o, 32)
        lib.release()
        ctx.digest(got, r)
        if u.rc("beltHash", cls, r, 0, det):
            u.eq("beltHash", cls, got, exp, det)
    if ctx.case(dict(det, op="beltHashStep", cuts=cs, glen=glen), cls + ":steps"):
        st = lib.alloc(lib.beltHash_keep())
        lib.beltHashStart(st)
        feed_steps(lib, lib.beltHashStepH, st, x, cs)
        o, o2 = lib.alloc(32), lib.alloc(glen)
        lib.beltHashStepG(o, st)
        lib.beltHashStepG2(o2, glen, st)
        v = lib.beltHashStepV(lib.mk(exp), st)
        v2 = lib.beltHashStepV2(lib.mk(exp[:glen]), glen, st)
        vbad = lib.beltHashStepV(lib.mk(flip(exp, glen * 7 % 256)), st)
        g, g2 = lib.rd(o, 32), lib.rd(o2, glen)
        feed_steps(lib, lib.beltHashStepH, st, x, [L])
        o3 = lib.alloc(32)
        lib.beltHashStepG(o3, st)
        g3 = lib.rd(o3, 32)
        lib.release()
        ctx.digest(g, g2, v, v2, vbad, g3)
        det2 = dict(det, cuts=cs)
        u.eq("beltHashStepG", cls, g, exp, det2)
        u.eq("beltHashStepG2", cls, g2, exp[:glen], dict(det2, hash_len=glen))
        u.eq("beltHashStepV", cls + ":accept", (bool(v), bool(v2)), (True, True), det2)
        u.eq("beltHashStepV", cls + ":reject", bool(vbad), False, det2)
        u.eq("beltHashStepG", cls + ":continue", g3, M.hash(x + x), det2)


def unit_modes(ctx):
    u = U(ctx)
    rng = u.rng
    chunk, nch, reps = ctx.params["chunk"], ctx.params["nch"], ctx.params["reps"]
    combos = [(klen, L) for L in range(0, 81) for klen in KLENS]
    combos += [(KLENS[L // 16 % 3], L) for L in range(96, 257, 16)]       # SDE sectors / BDE up to 256
    for idx, (klen, L) in enumerate(combos):
        if idx % nch != chunk:
            continue
        for rep in range(reps):
            key = u.key(klen)
            iv, iv2 = pat(rng, 16), pat(rng, 16)
            x = pat(rng, L)
            cs = cuts_stream(rng, L)
            cc = cuts_cts(rng, L) if L >= 16 else [L]
            glen = rng.randrange(0, 9)
            hlen = rng.randrange(0, 33)
            for name, has_iv, adm, me, md, kind in MODES:
                if adm(L):
                    _mode_case(u, name, has_iv, me, md, kind, key, iv, x, cs, cc, iv2)
            if L <= 80:
                _mac_case(u, key, x, cs, glen)
                _hash_case(u, x, cs, hlen)
    u.done()
