"""C01 — belt: every mechanism computes exactly what STB 34.101.31 defines.

Oracle: vlib/ref/belt.py (naive model, self-tested on every Appendix-A vector that belt_test.c embeds) plus
metamorphic oracles (decrypt o encrypt = id, tampered => rejected).  Every library call gets exact-size heap
buffers (lib.mk / lib.alloc), states are exactly _keep() octets.
"""
from ..core import Harness
from ..bee2 import errcode, errname
from ..ref import belt as M

LEVEL = "exploration"

KLENS = (16, 24, 32)
MSG_BOUNDARY = (0, 1, 15, 16, 17, 31, 32, 33, 47, 48, 49, 63, 64, 65, 95, 96, 97)
FMT_ALPHABETS = (2, 3, 10, 16, 26, 255, 256, 257, 1000, 49667, 65535, 65536)
FMT_COUNTS = tuple(range(2, 41)) + (159, 160, 161, 319, 320, 599, 600)


# ---------------------------------------------------------------------------
# helpers
# ---------------------------------------------------------------------------

class U:
    """per-unit helper: model trust, violation bookkeeping"""

    def __init__(self, ctx, need_lib=True):
        self.ctx, self.lib, self.rng = ctx, ctx.lib, ctx.rng
        try:
            M.selftest()
        except M.SelfTestError as e:
            raise Harness(str(e))
        self.nviol = {}
        self.klens = {}
        if need_lib and self.lib is None:
            raise Harness("unit needs a library configuration")

    def bad(self, fn, cat, sig, what, detail):
        key = "%s:%s:%s" % (fn, cat, sig)
        n = self.nviol.get(key, 0)
        self.nviol[key] = n + 1
        if n < 3:
            self.ctx.violation(key, what, detail)

    def eq(self, fn, cls, got, exp, detail=None):
        if got != exp:
            d = dict(detail or {})
            d.update(expected=exp, got=got)
            self.bad(fn, "value", cls, "%s differs from the STB 34.101.31 reference model" % fn, d)
            return False
        return True

    def inv(self, fn, cls, got, exp, detail=None):
        if got != exp:
            d = dict(detail or {})
            d.update(expected=exp, got=got)
            self.bad(fn, "inverse", cls, "%s does not invert the matching encrypt/wrap call" % fn, d)

    def rc(self, fn, cls, r, exp=0, detail=None):
        if r != exp:
            d = dict(detail or {})
            d.update(expected_ret=errname(exp), got_ret=errname(r))
            self.bad(fn, "ret", cls, "%s returned %s, expected %s" % (fn, errname(r), errname(exp)), d)
            return False
        return True

    def key(self, klen):
        self.klens[str(klen)] = self.klens.get(str(klen), 0) + 1
        return self.rng.randbytes(klen)

    def done(self):
        self.ctx.note("key_lengths", self.klens)


def pat(rng, n):
    """octet string of n octets: mostly random, sometimes a boundary pattern"""
    m = rng.randrange(10)
    r = rng.randbytes(n)
    bit = rng.randrange(8 * n) if n else 0
    if m == 0:
        return bytes(n)
    if m == 1:
        return b"\xff" * n
    if m == 2 and n:
        a = bytearray(n)
        a[bit >> 3] = 1 << (bit & 7)
        return bytes(a)
    return r


def flip(b, bit):
    a = bytearray(b)
    a[bit >> 3] ^= 1 << (bit & 7)
    return bytes(a)


def lencls(L, blk=16):
    if L == 0:
        return "empty"
    if L < blk:
        return "short"
    if L % blk == 0:
        return "full%d" % min(L // blk, 3)
    return "ragged%d" % min(L // blk, 3)


def cuts_stream(rng, L):
    """arbitrary chunking (possibly with empty chunks)"""
    k = rng.randrange(1, 5)
    pts = [0] + sorted(rng.randrange(0, L + 1) for _ in range(k - 1)) + [L]
    return [b - a for a, b in zip(pts, pts[1:])]


def cuts_cts(rng, L):
    """leading chunks of whole blocks, final chunk >= 16 octets carrying the ragged tail (belt.h remark on ECB/CBC)"""
    nb = L // 16
    k = rng.randrange(0, nb) if nb > 1 else 0
    lead = []
    while k > 0:
        j = rng.randrange(1, k + 1)
        lead.append(16 * j)
        k -= j
    return lead + [L - sum(lead)]


def run_steps(lib, step, st, data, cuts, extra=()):
    """feed data chunk by chunk, each chunk in its own exact-size heap block; returns the concatenated buffers"""
    out, off = b"", 0
    for c in cuts:
        p = lib.mk(data[off:off + c])
        step(p, c, *extra, st)
        out += lib.rd(p, c)
        off += c
    return out


def feed_steps(lib, step, st, data, cuts):
    off = 0
    for c in cuts:
        step(lib.mk(data[off:off + c]), c, st)
        off += c


# ---------------------------------------------------------------------------
# unit: model self-test with the long PBKDF2 vectors (no library call)
# ---------------------------------------------------------------------------

def unit_selftest(ctx):
    ctx.case(["model-selftest-deep"], "model:selftest")
    try:
        M.selftest(deep=True)
    except M.SelfTestError as e:
        raise Harness(str(e))
    ctx.digest(b"ok")
    ctx.case(["model-selftest-deep", "done"], "model:selftest")
    ctx.digest(b"ok")


# ---------------------------------------------------------------------------
# unit: H, key expansion, block, compress
# ---------------------------------------------------------------------------

def unit_block(ctx):
    u = U(ctx)
    lib, rng = u.lib, u.rng
    n = ctx.params["n"]
    if ctx.case(["beltH"], "H-table"):
        h = lib.rd(lib.beltH(), 256)
        ctx.digest(h)
        u.eq("beltH", "table", h, M.H)
    for it in range(n):
        klen = KLENS[it % 3]
        key = u.key(klen)
        x = pat(rng, 16)
        hh, xx, ss = pat(rng, 32), pat(rng, 32), pat(rng, 16)
        if it % 9 == 3:
            key = pat(rng, klen)
        kx = M.key_expand(key)
        # key expansion
        if ctx.case({"op": "beltKeyExpand", "key": key}, "keyexpand:%d" % klen):
            o1, o2 = lib.alloc(32), lib.alloc(32)
            lib.beltKeyExpand(o1, lib.mk(key), klen)
            lib.beltKeyExpand2(o2, lib.mk(key), klen)
            g1, g2 = lib.rd(o1, 32), lib.rd(o2, 32)
            lib.release()
            ctx.digest(g1, g2)
            u.eq("beltKeyExpand", "k%d" % klen, g1, kx, {"key": key})
            u.eq("beltKeyExpand2", "k%d" % klen, g2, kx, {"key": key})
        # block, three interfaces, both directions
        for d, mf in (("Encr", M.block_encr), ("Decr", M.block_decr)):
            if not ctx.case({"op": "beltBlock" + d, "key": key, "block": x}, "block:" + d.lower()):
                continue
            exp = mf(x, key)
            kp = lib.mk(kx)
            b1 = lib.mk(x)
            getattr(lib, "beltBlock" + d)(b1, kp)
            b2 = lib.mk(x)
            getattr(lib, "beltBlock" + d + "2")(b2, kp)
            w = [lib.mk(x[4 * i:4 * i + 4]) for i in range(4)]
            getattr(lib, "beltBlock" + d + "3")(w[0], w[1], w[2], w[3], kp)
            g1, g2 = lib.rd(b1, 16), lib.rd(b2, 16)
            g3 = b"".join(lib.rd(p, 4) for p in w)
            # inverse
            b4 = lib.mk(g1)
            getattr(lib, "beltBlock" + ("Decr" if d == "Encr" else "Encr"))(b4, kp)
            g4 = lib.rd(b4, 16)
            lib.release()
            ctx.digest(g1, g2, g3, g4)
            det = {"key": key, "block": x}
            u.eq("beltBlock" + d, "block", g1, exp, det)
            u.eq("beltBlock" + d + "2", "block", g2, exp, det)
            u.eq("beltBlock" + d + "3", "block", g3, exp, det)
            u.inv("beltBlock" + d, "block", g4, x, det)
        # compress
        if ctx.case({"op": "beltCompr", "h": hh, "X": xx, "s": ss}, "compress"):
            S, Y = M.compress(xx + hh)
            hp, sp = lib.mk(hh), lib.mk(ss)
            lib.beltCompr2(sp, hp, lib.mk(xx), lib.alloc(lib.beltCompr_deep()))
            gh, gs = lib.rd(hp, 32), lib.rd(sp, 16)
            hp2 = lib.mk(hh)
            lib.beltCompr(hp2, lib.mk(xx), lib.alloc(lib.beltCompr_deep()))
            gh2 = lib.rd(hp2, 32)
            lib.release()
            ctx.digest(gh, gs, gh2)
            det = {"h": hh, "X": xx, "s": ss}
            u.eq("beltCompr2", "h", gh, Y, det)
            u.eq("beltCompr2", "s", gs, M.xor(ss, S), det)
            u.eq("beltCompr", "h", gh2, Y, det)
    u.done()


# ---------------------------------------------------------------------------
# unit: ECB, CBC, CFB, CTR, BDE, SDE, MAC, hash over lengths 0..80 in steps of one octet
# ---------------------------------------------------------------------------

MODES = (
    # name, has iv in Start/one-shot, admissible length, model E, model D, chunking
    ("ECB", False, lambda L: L >= 16, M.ecb_encr, M.ecb_decr, "cts"),
    ("CBC", True, lambda L: L >= 16, M.cbc_encr, M.cbc_decr, "cts"),
    ("CFB", True, lambda L: True, M.cfb_encr, M.cfb_decr, "stream"),
    ("CTR", True, lambda L: True, M.ctr, M.ctr, "stream"),
    ("BDE", True, lambda L: L >= 16 and L % 16 == 0, M.bde_encr, M.bde_decr, "cts"),
    ("SDE", True, lambda L: L >= 32 and L % 16 == 0, M.sde_encr, M.sde_decr, "whole"),
)


def _mode_case(u, name, has_iv, me, md, kind, key, iv, x, cs, cc, iv2):
    """one-shot + Start/Step for one mode, both directions, on input x"""
    ctx, lib = u.ctx, u.lib
    klen, L = len(key), len(x)
    cls = "%s:%s" % (name.lower(), lencls(L))
    for d, mf, mg in (("E", me, md), ("D", md, me)):
        if name == "CTR":
            hl, step = "beltCTR", "beltCTRStepE"
            if d == "D":
                continue
        else:
            hl, step = "belt%s%s" % (name, "Encr" if d == "E" else "Decr"), "belt%sStep%s" % (name, d)
        det = {"key": key, "iv": iv if has_iv else None, "src": x}
        # one-shot
        if ctx.case(dict(det, op=hl), cls):
            exp = mf(x, key, iv) if has_iv else mf(x, key)
            dest = lib.alloc(L)
            args = [dest, lib.mk(x), L, lib.mk(key), klen] + ([lib.mk(iv)] if has_iv else [])
            r = getattr(lib, hl)(*args)
            got = lib.rd(dest, L)
            # inverse by the library itself
            inv_hl = "beltCTR" if name == "CTR" else "belt%s%s" % (name, "Decr" if d == "E" else "Encr")
            dest2 = lib.alloc(L)
            args = [dest2, lib.mk(got), L, lib.mk(key), klen] + ([lib.mk(iv)] if has_iv else [])
            r2 = getattr(lib, inv_hl)(*args)
            back = lib.rd(dest2, L)
            lib.release()
            ctx.digest(got, r, back, r2)
            if u.rc(hl, cls, r, 0, det):
                u.eq(hl, cls, got, exp, det)
            if r == 0 and u.rc(inv_hl, cls, r2, 0, det):
                u.inv(inv_hl, cls, back, x, det)
        # Start/Step with an exact-size state
        cuts = cs if kind == "stream" else (cc if kind == "cts" else [L])
        if ctx.case(dict(det, op=step, cuts=cuts, iv2=iv2 if name == "SDE" else None), cls + ":steps"):
            st = lib.alloc(getattr(lib, "belt%s_keep" % name)())
            if name == "SDE":
                lib.beltSDEStart(st, lib.mk(key), klen)
                got = run_steps(lib, getattr(lib, step), st, x, [L], (lib.mk(iv),))
                got2 = run_steps(lib, getattr(lib, step), st, x, [L], (lib.mk(iv2),))   # state reuse, other IV
                exp, exp2 = mf(x, key, iv), mf(x, key, iv2)
            else:
                args = [st, lib.mk(key), klen] + ([lib.mk(iv)] if has_iv else [])
                getattr(lib, "belt%sStart" % name)(*args)
                got = run_steps(lib, getattr(lib, step), st, x, cuts)
                got2 = exp2 = b""
                exp = mf(x, key, iv) if has_iv else mf(x, key)
            lib.release()
            ctx.digest(got, got2)
            det2 = dict(det, cuts=cuts)
            u.eq(step, cls, got, exp, det2)
            u.eq(step, cls + ":reuse", got2, exp2, dict(det2, iv2=iv2))


def _mac_case(u, key, x, cs, glen):
    ctx, lib = u.ctx, u.lib
    klen, L = len(key), len(x)
    cls = "mac:" + lencls(L)
    det = {"key": key, "src": x}
    exp = M.mac(x, key)
    if ctx.case(dict(det, op="beltMAC"), cls):
        o = lib.alloc(8)
        r = lib.beltMAC(o, lib.mk(x), L, lib.mk(key), klen)
        got = lib.rd(o, 8)
        lib.release()
        ctx.digest(got, r)
        if u.rc("beltMAC", cls, r, 0, det):
            u.eq("beltMAC", cls, got, exp, det)
    if ctx.case(dict(det, op="beltMACStep", cuts=cs, glen=glen), cls + ":steps"):
        st = lib.alloc(lib.beltMAC_keep())
        lib.beltMACStart(st, lib.mk(key), klen)
        feed_steps(lib, lib.beltMACStepA, st, x, cs)
        o, o2 = lib.alloc(8), lib.alloc(glen)
        lib.beltMACStepG(o, st)
        lib.beltMACStepG2(o2, glen, st)
        v = lib.beltMACStepV(lib.mk(exp), st)
        v2 = lib.beltMACStepV2(lib.mk(exp[:glen]), glen, st)
        vbad = lib.beltMACStepV(lib.mk(flip(exp, glen * 7 % 64)), st)
        g, g2 = lib.rd(o, 8), lib.rd(o2, glen)
        # get-then-continue: append x once more
        feed_steps(lib, lib.beltMACStepA, st, x, [L])
        o3 = lib.alloc(8)
        lib.beltMACStepG(o3, st)
        g3 = lib.rd(o3, 8)
        lib.release()
        ctx.digest(g, g2, v, v2, vbad, g3)
        det2 = dict(det, cuts=cs)
        u.eq("beltMACStepG", cls, g, exp, det2)
        u.eq("beltMACStepG2", cls, g2, exp[:glen], dict(det2, mac_len=glen))
        u.eq("beltMACStepV", cls + ":accept", (bool(v), bool(v2)), (True, True), det2)
        u.eq("beltMACStepV", cls + ":reject", bool(vbad), False, det2)
        u.eq("beltMACStepG", cls + ":continue", g3, M.mac(x + x, key), det2)


def _hash_case(u, x, cs, glen):
    ctx, lib = u.ctx, u.lib
    L = len(x)
    cls = "hash:" + lencls(L, 32)
    det = {"src": x}
    exp = M.hash(x)
    if ctx.case(dict(det, op="beltHash"), cls):
        o = lib.alloc(32)
        r = lib.beltHash(o, lib.mk(x), L)
        got = lib.rd(o, 32)
        lib.release()
        ctx.digest(got, r)
        if u.rc("beltHash", cls, r, 0, det):
            u.eq("beltHash", cls, got, exp, det)
    if ctx.case(dict(det, op="beltHashStep", cuts=cs, glen=glen), cls + ":steps"):
        st = lib.alloc(lib.beltHash_keep())
        lib.beltHashStart(st)
        feed_steps(lib, lib.beltHashStepH, st, x, cs)
        o, o2 = lib.alloc(32), lib.alloc(glen)
        lib.beltHashStepG(o, st)
        lib.beltHashStepG2(o2, glen, st)
        v = lib.beltHashStepV(lib.mk(exp), st)
        v2 = lib.beltHashStepV2(lib.mk(exp[:glen]), glen, st)
        vbad = lib.beltHashStepV(lib.mk(flip(exp, glen * 7 % 256)), st)
        g, g2 = lib.rd(o, 32), lib.rd(o2, glen)
        feed_steps(lib, lib.beltHashStepH, st, x, [L])
        o3 = lib.alloc(32)
        lib.beltHashStepG(o3, st)
        g3 = lib.rd(o3, 32)
        lib.release()
        ctx.digest(g, g2, v, v2, vbad, g3)
        det2 = dict(det, cuts=cs)
        u.eq("beltHashStepG", cls, g, exp, det2)
        u.eq("beltHashStepG2", cls, g2, exp[:glen], dict(det2, hash_len=glen))
        u.eq("beltHashStepV", cls + ":accept", (bool(v), bool(v2)), (True, True), det2)
        u.eq("beltHashStepV", cls + ":reject", bool(vbad), False, det2)
        u.eq("beltHashStepG", cls + ":continue", g3, M.hash(x + x), det2)


def unit_modes(ctx):
    u = U(ctx)
    rng = u.rng
    chunk, nch, reps = ctx.params["chunk"], ctx.params["nch"], ctx.params["reps"]
    combos = [(klen, L) for L in range(0, 81) for klen in KLENS]
    combos += [(KLENS[L // 16 % 3], L) for L in range(96, 257, 16)]       # SDE sectors / BDE up to 256
    for idx, (klen, L) in enumerate(combos):
        if idx % nch != chunk:
            continue
        for rep in range(reps):
            key = u.key(klen)
            iv, iv2 = pat(rng, 16), pat(rng, 16)
            x = pat(rng, L)
            cs = cuts_stream(rng, L)
            cc = cuts_cts(rng, L) if L >= 16 else [L]
            glen = rng.randrange(0, 9)
            hlen = rng.randrange(0, 33)
            for name, has_iv, adm, me, md, kind in MODES:
                if adm(L):
                    _mode_case(u, name, has_iv, me, md, kind, key, iv, x, cs, cc, iv2)
            if L <= 80:
                _mac_case(u, key, x, cs, glen)
                _hash_case(u, x, cs, hlen)
    u.done()


# ---------------------------------------------------------------------------
# unit: wide block (every length 32..208) and KWP, with tamper rejection
# ---------------------------------------------------------------------------

def wblcls(count):
    if count % 16:
        return "ragged(base)"
    if count < 64:
        return "full<64(base)"
    if count == 64:
        return "full64(E-opt,D-base)"
    return "full>=80(opt)"


def _tamper(u, fn, cls, call, groups, exp_err, det):
    """groups: list of (group name, list of argument tuples).  Every tampered call must return exp_err."""
    ctx, lib = u.ctx, u.lib
    for gname, variants in groups:
        if not variants:
            continue
        if not ctx.case(dict(det, op=fn, tamper=gname, n=len(variants)), "%s:tamper-%s" % (cls, gname)):
            continue
        rets = []
        for what, args in variants:
            r = call(*args)
            lib.release()
            rets.append(r)
            if r != exp_err:
                u.bad(fn, "forgery" if r == 0 else "ret", "%s:tamper-%s" % (cls.split(":")[0], gname),
                      "%s returned %s for a tampered %s (expected %s)" % (fn, errname(r), gname, errname(exp_err)),
                      dict(det, flipped=what))
        ctx.digest(*rets)
        ctx.count(len(variants) - 1, "%s:tamper-%s" % (cls, gname))


def unit_wbl(ctx):
    u = U(ctx)
    lib, rng = u.lib, u.rng
    chunk, nch, reps, tamper_every = (ctx.params[k] for k in ("chunk", "nch", "reps", "tamper_every"))
    BAD_KT = errcode("ERR_BAD_KEYTOKEN")
    combos = [(klen, c) for c in range(32, 209) for klen in KLENS]
    for idx, (klen, count) in enumerate(combos):
        if idx % nch != chunk:
            continue
        for rep in range(reps * (6 if count % 16 == 0 else 1)):     # whole-block lengths take the Opt paths
            key = u.key(klen)
            x = pat(rng, count)
            hdr = pat(rng, 16)
            null_hdr = rng.randrange(4) == 0
            fl = [rng.random() for _ in range(24)]
            wc = wblcls(count)
            det = {"key": key, "buf": x}
            # --- WBL low level
            if ctx.case(dict(det, op="beltWBLStepE"), "wbl:E:" + wc):
                exp = M.wblock_encr(x, key)
                st = lib.alloc(lib.beltWBL_keep())
                lib.beltWBLStart(st, lib.mk(key), klen)
                p = lib.mk(x)
                lib.beltWBLStepE(p, count, st)
                got = lib.rd(p, count)
                lib.beltWBLStepD(p, count, st)
                back = lib.rd(p, count)
                lib.release()
                ctx.digest(got, back)
                u.eq("beltWBLStepE", wc, got, exp, det)
                u.inv("beltWBLStepD", wc, back, x, det)
            if ctx.case(dict(det, op="beltWBLStepD"), "wbl:D:" + wc):
                exp = M.wblock_decr(x, key)
                st = lib.alloc(lib.beltWBL_keep())
                lib.beltWBLStart(st, lib.mk(key), klen)
                p = lib.mk(x)
                lib.beltWBLStepD(p, count, st)
                got = lib.rd(p, count)
                p1, p2 = lib.mk(x[:count - 16]), lib.mk(x[count - 16:])
                lib.beltWBLStepD2(p1, p2, count, st)
                got2 = lib.rd(p1, count - 16) + lib.rd(p2, 16)
                lib.beltWBLStepE(p, count, st)
                back = lib.rd(p, count)
                lib.release()
                ctx.digest(got, got2, back)
                u.eq("beltWBLStepD", wc, got, exp, det)
                u.eq("beltWBLStepD2", wc, got2, exp, det)
                u.inv("beltWBLStepE", wc, back, x, det)
            if ctx.case(dict(det, op="beltWBLStepR"), "wbl:R:" + wc):
                n = (count + 15) // 16
                st = lib.alloc(lib.beltWBL_keep())
                lib.beltWBLStart(st, lib.mk(key), klen)
                p = lib.mk(x)
                cur, outs, exps = x, [], []
                for k in range(3):
                    lib.beltWBLStepR(p, count, st)
                    outs.append(lib.rd(p, count))
                    cur = M.wblock_encr(cur, key, first_round=2 * n * k + 1)
                    exps.append(cur)
                lib.release()
                ctx.digest(*outs)
                u.eq("beltWBLStepR", wc, outs, exps, det)
            # --- KWP high level: key of count-16 octets + header
            src = x[:count - 16]
            hdet = {"key": key, "src": src, "header": None if null_hdr else hdr}
            token = M.kwp_wrap(src, None if null_hdr else hdr, key)
            if ctx.case(dict(hdet, op="beltKWPWrap"), "kwp:wrap:" + wc):
                dest = lib.alloc(count)
                r = lib.beltKWPWrap(dest, lib.mk(src), count - 16, 0 if null_hdr else lib.mk(hdr), lib.mk(key), klen)
                got = lib.rd(dest, count)
                lib.release()
                ctx.digest(got, r)
                if u.rc("beltKWPWrap", wc, r, 0, hdet):
                    u.eq("beltKWPWrap", wc, got, token, hdet)
            if ctx.case(dict(hdet, op="beltKWPUnwrap", token=token), "kwp:unwrap:" + wc):
                dest = lib.alloc(count - 16)
                r = lib.beltKWPUnwrap(dest, lib.mk(token), count, 0 if null_hdr else lib.mk(hdr), lib.mk(key), klen)
                got = lib.rd(dest, count - 16)
                lib.release()
                ctx.digest(got, r)
                if u.rc("beltKWPUnwrap", wc + ":accept", r, 0, hdet):
                    u.inv("beltKWPUnwrap", wc, got, src, hdet)
            if ctx.case(dict(det, op="beltKWPUnwrap-random-token", header=hdr), "kwp:unwrap-random:" + wc):
                # a random string is a valid token for exactly one header: the model's
                t = M.wblock_decr(x, key)
                dest = lib.alloc(count - 16)
                r = lib.beltKWPUnwrap(dest, lib.mk(x), count, lib.mk(t[count - 16:]), lib.mk(key), klen)
                got = lib.rd(dest, count - 16)
                dest2 = lib.alloc(count - 16)
                r2 = lib.beltKWPUnwrap(dest2, lib.mk(x), count, lib.mk(hdr), lib.mk(key), klen)
                lib.release()
                ctx.digest(got, r, r2)
                if u.rc("beltKWPUnwrap", wc + ":accept", r, 0, det):
                    u.eq("beltKWPUnwrap", wc, got, t[:count - 16], det)
                if hdr != t[count - 16:]:
                    u.rc("beltKWPUnwrap", wc + ":reject", r2, BAD_KT, det)
            # --- tamper
            if (idx // nch + rep) % tamper_every == 0:
                h0 = bytes(16) if null_hdr else hdr

                def call(tok, h, k):
                    return lib.beltKWPUnwrap(lib.alloc(count - 16), lib.mk(tok), count, lib.mk(h), lib.mk(k), klen)
                groups = [
                    ("header", [(b, (token, flip(h0, b), key)) for b in range(128)]),
                    ("token", [(b, (flip(token, b), h0, key)) for b in sorted({int(f * 8 * count) for f in fl[:16]})]),
                    ("key", [(b, (token, h0, flip(key, b))) for b in sorted({int(f * 8 * klen) for f in fl[16:]})]),
                ]
                _tamper(u, "beltKWPUnwrap", "kwp:" + wc, call, groups, BAD_KT, dict(hdet, token=token))
    u.done()


def unit_wbl_long(ctx):
    """wide blocks long enough for the round counter of belt-wblock (2n rounds for n blocks) to pass 255 and 511:
    2032 .. 8192 octets (SDE sectors of 2048 / 4096 octets, keys wrapped with long headers are the real uses)"""
    u = U(ctx)
    lib, rng = u.lib, u.rng
    for count in ctx.params["counts"]:
        for rep in range(ctx.params.get("reps", 1)):
            klen = KLENS[(count + rep) % 3]
            key = u.key(klen)
            x = pat(rng, count)
            iv = pat(rng, 16)
            det = {"key": key, "count": count, "buf_head": x[:32]}
            wc = "long:%s" % ("ragged" if count % 16 else "rounds>%d" % (255 if count < 4096 else 511))
            if ctx.case(dict(det, op="beltWBLStepE/D"), "wbl:" + wc):
                exp = M.wblock_encr(x, key)
                st = lib.alloc(lib.beltWBL_keep())
                lib.beltWBLStart(st, lib.mk(key), klen)
                p = lib.mk(x)
                lib.beltWBLStepE(p, count, st)
                got = lib.rd(p, count)
                lib.beltWBLStepD(p, count, st)
                back = lib.rd(p, count)
                lib.release()
                ctx.digest(got, back)
                u.eq("beltWBLStepE", wc, got, exp, det)
                u.inv("beltWBLStepD", wc, back, x, det)
            if count % 16 == 0 and ctx.case(dict(det, op="beltSDEEncr/Decr", iv=iv), "sde:" + wc):
                exp = M.sde_encr(x, key, iv)
                d, d2 = lib.alloc(count), lib.alloc(count)
                r = lib.beltSDEEncr(d, lib.mk(x), count, lib.mk(key), klen, lib.mk(iv))
                got = lib.rd(d, count)
                r2 = lib.beltSDEDecr(d2, lib.mk(exp), count, lib.mk(key), klen, lib.mk(iv))
                back = lib.rd(d2, count)
                lib.release()
                ctx.digest(got, back, r, r2)
                if u.rc("beltSDEEncr", wc, r, 0, det):
                    u.eq("beltSDEEncr", wc, got, exp, det)
                if u.rc("beltSDEDecr", wc, r2, 0, det):
                    u.inv("beltSDEDecr", wc, back, x, det)
            if ctx.case(dict(det, op="beltKWPWrap/Unwrap"), "kwp:" + wc):
                src, hdr = x[:count - 16], x[count - 16:]
                token = M.kwp_wrap(src, hdr, key)
                dest, d2 = lib.alloc(count), lib.alloc(count - 16)
                r = lib.beltKWPWrap(dest, lib.mk(src), count - 16, lib.mk(hdr), lib.mk(key), klen)
                got = lib.rd(dest, count)
                r2 = lib.beltKWPUnwrap(d2, lib.mk(token), count, lib.mk(hdr), lib.mk(key), klen)
                back = lib.rd(d2, count - 16)
                lib.release()
                ctx.digest(got, back, r, r2)
                if u.rc("beltKWPWrap", wc, r, 0, det):
                    u.eq("beltKWPWrap", wc, got, token, det)
                if u.rc("beltKWPUnwrap", wc + ":accept", r2, 0, det):
                    u.inv("beltKWPUnwrap", wc, back, src, det)
    u.done()


# ---------------------------------------------------------------------------
# unit: DWP, CHE — values, inverse, Start/Step, tamper rejection
# ---------------------------------------------------------------------------

def _aead_case(u, name, key, iv, x, ad, cx, ca, cy, fl, do_tamper):
    ctx, lib = u.ctx, u.lib
    klen = len(key)
    BAD_MAC = errcode("ERR_BAD_MAC")
    wrapm = M.dwp_wrap if name == "DWP" else M.che_wrap
    cls = "%s:x-%s" % (name.lower(), lencls(len(x)))
    sig = name.lower() + ":" + lencls(len(x))
    det = {"key": key, "iv": iv, "src1": x, "src2": ad}
    y, tag = wrapm(x, ad, key, iv)
    W, UW = "belt%sWrap" % name, "belt%sUnwrap" % name
    # an empty message / empty associated data is presented as (NULL, 0) in every second such case (mem.h: a buffer of
    # length 0 is valid whatever its address)
    nul = (len(x) + len(ad) + klen // 8) % 2 == 0
    mke = lambda b: 0 if (nul and not b) else lib.mk(b)
    if ctx.case(dict(det, op=W, empty_as_null=nul), cls):
        if nul and (not x or not ad):
            ctx.classes["aead:empty-buffer-as-NULL"] += 1
        dest, mac = (0 if (nul and not x) else lib.alloc(len(x))), lib.alloc(8)
        r = getattr(lib, W)(dest, mac, mke(x), len(x), mke(ad), len(ad), lib.mk(key), klen, lib.mk(iv))
        gy, gt = (lib.rd(dest, len(x)) if dest else b""), lib.rd(mac, 8)
        lib.release()
        ctx.digest(gy, gt, r)
        if u.rc(W, sig, r, 0, det):
            u.eq(W, sig + ":ciphertext", gy, y, det)
            u.eq(W, sig + ":mac", gt, tag, det)
    if ctx.case(dict(det, op=UW, ct=y, mac=tag), "%s:unwrap:ad-%s" % (name.lower(), lencls(len(ad)))):
        dest = 0 if (nul and not x) else lib.alloc(len(x))
        r = getattr(lib, UW)(dest, mke(y), len(y), mke(ad), len(ad), lib.mk(tag), lib.mk(key), klen, lib.mk(iv))
        gx = lib.rd(dest, len(x)) if dest else b""
        lib.release()
        ctx.digest(gx, r)
        if u.rc(UW, sig + ":accept", r, 0, det):
            u.inv(UW, sig, gx, x, det)
    if ctx.case(dict(det, op="belt%sStep" % name, cuts=[ca, cx, cy]), "%s:steps:ad-%s" % (name.lower(), lencls(len(ad)))):
        f = lambda s: getattr(lib, "belt%s%s" % (name, s))
        st = lib.alloc(f("_keep")())
        f("Start")(st, lib.mk(key), klen, lib.mk(iv))
        feed_steps(lib, f("StepI"), st, ad, ca)
        gy = run_steps(lib, f("StepE"), st, x, cx)
        feed_steps(lib, f("StepA"), st, gy, cy)
        mac = lib.alloc(8)
        f("StepG")(mac, st)
        gt = lib.rd(mac, 8)
        # receiver side
        st2 = lib.alloc(f("_keep")())
        f("Start")(st2, lib.mk(key), klen, lib.mk(iv))
        feed_steps(lib, f("StepI"), st2, ad, ca)
        feed_steps(lib, f("StepA"), st2, y, cy)
        v = f("StepV")(lib.mk(tag), st2)
        gx = run_steps(lib, f("StepD"), st2, y, cx)
        st3 = lib.alloc(f("_keep")())
        f("Start")(st3, lib.mk(key), klen, lib.mk(iv))
        feed_steps(lib, f("StepI"), st3, ad, ca)
        feed_steps(lib, f("StepA"), st3, y, cy)
        vbad = f("StepV")(lib.mk(flip(tag, int(fl[0] * 64))), st3)
        lib.release()
        ctx.digest(gy, gt, v, gx, vbad)
        det2 = dict(det, cuts=[ca, cx, cy])
        u.eq("belt%sStepE" % name, sig, gy, y, det2)
        u.eq("belt%sStepG" % name, sig, gt, tag, det2)
        u.eq("belt%sStepV" % name, sig + ":accept", bool(v), True, det2)
        u.eq("belt%sStepV" % name, sig + ":reject", bool(vbad), False, det2)
        u.inv("belt%sStepD" % name, sig, gx, x, det2)
    if do_tamper:
        def call(ct, a, t, k, s):
            return getattr(lib, UW)(lib.alloc(len(ct)), lib.mk(ct), len(ct), lib.mk(a), len(a), lib.mk(t),
                                    lib.mk(k), klen, lib.mk(s))
        pick = lambda fs, nbits: sorted({int(f * nbits) for f in fs}) if nbits else []
        groups = [
            ("mac", [(b, (y, ad, flip(tag, b), key, iv)) for b in range(64)]),
            ("ciphertext", [(b, (flip(y, b), ad, tag, key, iv)) for b in pick(fl[1:9], 8 * len(y))]),
            ("ad", [(b, (y, flip(ad, b), tag, key, iv)) for b in pick(fl[9:17], 8 * len(ad))]),
            ("iv", [(b, (y, ad, tag, key, flip(iv, b))) for b in pick(fl[17:25], 128)]),
            ("key", [(b, (y, ad, tag, flip(key, b), iv)) for b in pick(fl[25:33], 8 * klen)]),
            # moving octets between the public and the critical part must not verify either (length block)
            ("split", [(k, (y[k:], ad + y[:k], tag, key, iv)) for k in (1, 16) if len(y) >= k] +
                      [(-k, (ad[len(ad) - k:] + y, ad[:len(ad) - k], tag, key, iv)) for k in (1, 16) if len(ad) >= k]),
        ]
        _tamper(u, UW, name.lower(), call, groups, BAD_MAC, dict(det, ct=y, mac=tag))


def unit_aead(ctx):
    u = U(ctx)
    rng = u.rng
    chunk, nch, nad, tamper_every = (ctx.params[k] for k in ("chunk", "nch", "nad", "tamper_every"))
    combos = [(klen, L) for L in range(0, 81) for klen in KLENS]
    for idx, (klen, L) in enumerate(combos):
        if idx % nch != chunk:
            continue
        for j in range(nad):
            la = MSG_BOUNDARY[(idx + 5 * j) % len(MSG_BOUNDARY)] if nad < len(MSG_BOUNDARY) else MSG_BOUNDARY[j]
            for name in ("DWP", "CHE"):
                key = u.key(klen)
                iv = pat(rng, 16)
                x, ad = pat(rng, L), pat(rng, la)
                cx, ca, cy = cuts_stream(rng, L), cuts_stream(rng, la), cuts_stream(rng, L)
                fl = [rng.random() for _ in range(33)]
                _aead_case(u, name, key, iv, x, ad, cx, ca, cy, fl, (idx // nch + j) % tamper_every == 0)
    u.done()


# ---------------------------------------------------------------------------
# unit: carries — CTR/DWP counters with all-ones low words, CHE/BDE multiplication by C at the top bit
# ---------------------------------------------------------------------------

def unit_carry(ctx):
    u = U(ctx)
    lib, rng = u.lib, u.rng
    reps = ctx.params["reps"]
    for rep in range(reps):
        for klen in KLENS:
            for bits in (32, 64, 96, 128):
                for back in (0, 1, 2):
                    key = u.key(klen)
                    hi = rng.getrandbits(128)
                    L = rng.choice((48, 49, 63, 64, 70))
                    x, ad = rng.randbytes(L), rng.randbytes(rng.randrange(0, 20))
                    mask = (1 << bits) - 1
                    s0 = ((hi & ~mask) | (mask - back)) & M.M128        # counter value E(iv); +1 (+2, +3) carries
                    iv = M.block_decr(s0.to_bytes(16, "little"), key)
                    cls = "ctr-carry:low%d-ones" % bits
                    det = {"key": key, "iv": iv, "src": x, "counter": "%032x" % s0}
                    if ctx.case(dict(det, op="beltCTR"), cls):
                        dest = lib.alloc(L)
                        r = lib.beltCTR(dest, lib.mk(x), L, lib.mk(key), klen, lib.mk(iv))
                        got = lib.rd(dest, L)
                        st = lib.alloc(lib.beltCTR_keep())
                        lib.beltCTRStart(st, lib.mk(key), klen, lib.mk(iv))
                        got2 = run_steps(lib, lib.beltCTRStepE, st, x, [7, 9, 1, L - 17])
                        lib.release()
                        ctx.digest(got, r, got2)
                        exp = M.ctr(x, key, iv)
                        if M.block_encr(iv, key) != s0.to_bytes(16, "little"):
                            raise Harness("model block_decr/encr inconsistent")
                        u.eq("beltCTR", "carry-low%d" % bits, got, exp, det)
                        u.eq("beltCTRStepE", "carry-low%d" % bits, got2, exp, det)
                    if ctx.case(dict(det, op="beltDWPWrap", src2=ad), "dwp-carry:low%d-ones" % bits):
                        dest, mac = lib.alloc(L), lib.alloc(8)
                        r = lib.beltDWPWrap(dest, mac, lib.mk(x), L, lib.mk(ad), len(ad), lib.mk(key), klen, lib.mk(iv))
                        gy, gt = lib.rd(dest, L), lib.rd(mac, 8)
                        lib.release()
                        ctx.digest(gy, gt, r)
                        y, t = M.dwp_wrap(x, ad, key, iv)
                        u.eq("beltDWPWrap", "carry-low%d" % bits, (gy, gt), (y, t), dict(det, src2=ad))
            # multiplication by C: s = E(iv) with chosen top bits
            for kind in ("zero", "top-bit", "all-ones", "top-bit-random", "no-top-bit-random", "word-tops"):
                key = u.key(klen)
                rnd = rng.getrandbits(128)
                L = rng.choice((48, 64, 80))
                x, ad = rng.randbytes(L), rng.randbytes(rng.randrange(0, 20))
                s0 = {"zero": 0, "top-bit": 1 << 127, "all-ones": M.M128, "top-bit-random": rnd | (1 << 127),
                      "no-top-bit-random": rnd & ~(1 << 127),
                      "word-tops": (1 << 31) | (1 << 63) | (1 << 95) | (rnd & (1 << 127))}[kind]
                iv = M.block_decr(s0.to_bytes(16, "little"), key)
                det = {"key": key, "iv": iv, "src": x, "s": "%032x" % s0}
                if ctx.case(dict(det, op="beltCHEWrap", src2=ad), "che-mulc:" + kind):
                    dest, mac = lib.alloc(L), lib.alloc(8)
                    r = lib.beltCHEWrap(dest, mac, lib.mk(x), L, lib.mk(ad), len(ad), lib.mk(key), klen, lib.mk(iv))
                    gy, gt = lib.rd(dest, L), lib.rd(mac, 8)
                    lib.release()
                    ctx.digest(gy, gt, r)
                    u.eq("beltCHEWrap", "mulc-" + kind, (gy, gt), M.che_wrap(x, ad, key, iv), dict(det, src2=ad))
                if ctx.case(dict(det, op="beltBDEEncr"), "bde-mulc:" + kind):
                    dest = lib.alloc(L)
                    r = lib.beltBDEEncr(dest, lib.mk(x), L, lib.mk(key), klen, lib.mk(iv))
                    got = lib.rd(dest, L)
                    dest2 = lib.alloc(L)
                    r2 = lib.beltBDEDecr(dest2, lib.mk(x), L, lib.mk(key), klen, lib.mk(iv))
                    got2 = lib.rd(dest2, L)
                    lib.release()
                    ctx.digest(got, r, got2, r2)
                    u.eq("beltBDEEncr", "mulc-" + kind, got, M.bde_encr(x, key, iv), det)
                    u.eq("beltBDEDecr", "mulc-" + kind, got2, M.bde_decr(x, key, iv), det)
    u.done()


# ---------------------------------------------------------------------------
# unit: exported length helpers (belt_lcl.h) — the 128-bit hash length block and the 64-bit DWP/CHE half blocks
# ---------------------------------------------------------------------------

def unit_addbits(ctx):
    u = U(ctx)
    lib, rng = u.lib, u.rng
    n = ctx.params["n"]
    for name in ("beltBlockAddBitSizeU32", "beltHalfBlockAddBitSizeW"):
        if not lib.has(name):
            raise Harness(name + " is not exported")
        lib.declare(name, "v", "pz")
    SZ = 2 ** 64 - 1
    counts = [0, 1, 2 ** 29 - 1, 2 ** 29, 2 ** 29 + 1, 2 ** 32 - 1, 2 ** 32, 2 ** 61 - 1, 2 ** 61, 2 ** 61 + 1,
              2 ** 63, SZ, SZ - 1, 2 ** 64 - 2 ** 29, 2 ** 64 - 2 ** 32, 2 ** 35 - 1]

    def blocks(nbits):
        out = [0, 2 ** nbits - 1, 2 ** nbits - 8, 2 ** nbits - 9]
        for k in range(32, nbits + 1, 32):
            out += [2 ** k - 1, 2 ** k - 8, (2 ** nbits - 1) ^ (2 ** (k - 32) - 1 if k > 32 else 0)]
            out += [(2 ** k - 1) & ~7]
        return out
    for fn, nbits in (("beltBlockAddBitSizeU32", 128), ("beltHalfBlockAddBitSizeW", 64)):
        nb = nbits // 8
        cases = [(b, [c]) for b in blocks(nbits) for c in counts]
        for _ in range(n):
            b = rng.getrandbits(nbits) | (rng.choice((0, 2 ** 32 - 1, 2 ** 64 - 1, 2 ** 96 - 1)) & (2 ** nbits - 1))
            cs = [rng.choice(counts + [rng.getrandbits(rng.randrange(1, 65))]) for _ in range(rng.randrange(1, 5))]
            cases.append((b, cs))
        for b, cs in cases:
            if not ctx.case({"op": fn, "block": "%x" % b, "counts": cs},
                            "%s:%s" % ("len128" if nbits == 128 else "len64", "boundary" if len(cs) == 1 else "chain")):
                continue
            p = lib.mk(b.to_bytes(nb, "little"))
            exp, outs, exps = b, [], []
            for c in cs:
                getattr(lib, fn)(p, c)
                outs.append(int.from_bytes(lib.rd(p, nb), "little"))
                exp = (exp + 8 * c) % 2 ** nbits
                exps.append(exp)
            lib.release()
            ctx.digest(*outs)
            if outs != exps:
                carry = "+".join(sorted({"w%d" % k for k in range(32, nbits + 1, 32)
                                         if any((e >> (k - 1)) < (o >> (k - 1)) or (e >> k) != (o >> k) for e, o in
                                                zip(exps, outs))})[:1])
                u.bad(fn, "value", "carry", "%s(block, count) is not block + 8*count mod 2^%d" % (fn, nbits),
                      {"block": "%x" % b, "counts": cs, "expected": ["%x" % e for e in exps],
                       "got": ["%x" % o for o in outs], "first_bad_word": carry})
    u.done()


# ---------------------------------------------------------------------------
# unit: KRP, HMAC (key lengths 0..96), PBKDF2 (iter 1..50)
# ---------------------------------------------------------------------------

def unit_kdf(ctx):
    u = U(ctx)
    lib, rng = u.lib, u.rng
    chunk, nch, reps, nmsg = (ctx.params[k] for k in ("chunk", "nch", "reps", "nmsg"))
    work = [("krp", n, m) for n in KLENS for m in KLENS if m <= n for _ in range(reps)]
    work += [("hmac", kl, j) for kl in range(0, 97) for j in range(nmsg)]
    work += [("pbkdf2", it, 0) for it in range(1, 51) for _ in range(max(1, reps // 10))]
    for idx, (kind, a, b) in enumerate(work):
        if idx % nch != chunk:
            continue
        if kind == "krp":
            n, m = a, b
            key, level, hdr = u.key(n), pat(rng, 12), pat(rng, 16)
            det = {"src": key, "level": level, "header": hdr, "m": m}
            if ctx.case(dict(det, op="beltKRP"), "krp:%d->%d" % (n, m)):
                exp = M.krp(key, level, hdr, m)
                dest = lib.alloc(m)
                r = lib.beltKRP(dest, m, lib.mk(key), n, lib.mk(level), lib.mk(hdr))
                got = lib.rd(dest, m)
                # one state, all admissible output lengths (belt_test.c A.28 style)
                st = lib.alloc(lib.beltKRP_keep())
                lib.beltKRPStart(st, lib.mk(key), n, lib.mk(level))
                outs, exps = [], []
                for mm in KLENS:
                    if mm <= n:
                        o = lib.alloc(mm)
                        lib.beltKRPStepG(o, mm, lib.mk(hdr), st)
                        outs.append(lib.rd(o, mm))
                        exps.append(M.krp(key, level, hdr, mm))
                lib.release()
                ctx.digest(got, r, *outs)
                if u.rc("beltKRP", "%d->%d" % (n, m), r, 0, det):
                    u.eq("beltKRP", "%d->%d" % (n, m), got, exp, det)
                u.eq("beltKRPStepG", "n=%d" % n, outs, exps, det)
        elif kind == "hmac":
            kl = a
            L = MSG_BOUNDARY[(kl + 3 * b) % len(MSG_BOUNDARY)] if nmsg < len(MSG_BOUNDARY) else MSG_BOUNDARY[b]
            key, x = rng.randbytes(kl), pat(rng, L)
            cs = cuts_stream(rng, L)
            glen = rng.randrange(0, 33)
            kc = "empty" if kl == 0 else "<32" if kl < 32 else "=32" if kl == 32 else ">32(hashed)"
            cls = "hmac:key%s" % kc
            det = {"key": key, "src": x}
            if ctx.case(dict(det, op="beltHMAC", cuts=cs, glen=glen), cls):
                exp = M.hmac(key, x)
                o = lib.alloc(32)
                r = lib.beltHMAC(o, lib.mk(x), L, lib.mk(key), kl)
                got = lib.rd(o, 32)
                st = lib.alloc(lib.beltHMAC_keep())
                lib.beltHMACStart(st, lib.mk(key), kl)
                feed_steps(lib, lib.beltHMACStepA, st, x, cs)
                o1, o2 = lib.alloc(32), lib.alloc(glen)
                lib.beltHMACStepG(o1, st)
                lib.beltHMACStepG2(o2, glen, st)
                v = lib.beltHMACStepV(lib.mk(exp), st)
                v2 = lib.beltHMACStepV2(lib.mk(exp[:glen]), glen, st)
                vbad = lib.beltHMACStepV(lib.mk(flip(exp, glen * 7 % 256)), st)
                g1, g2 = lib.rd(o1, 32), lib.rd(o2, glen)
                feed_steps(lib, lib.beltHMACStepA, st, x, [L])
                o3 = lib.alloc(32)
                lib.beltHMACStepG(o3, st)
                g3 = lib.rd(o3, 32)
                lib.release()
                ctx.digest(got, r, g1, g2, v, v2, vbad, g3)
                sig = "key" + kc + ":msg-" + lencls(L, 32)
                if u.rc("beltHMAC", sig, r, 0, det):
                    u.eq("beltHMAC", sig, got, exp, det)
                u.eq("beltHMACStepG", sig, g1, exp, dict(det, cuts=cs))
                u.eq("beltHMACStepG2", sig, g2, exp[:glen], dict(det, cuts=cs, mac_len=glen))
                u.eq("beltHMACStepV", sig + ":accept", (bool(v), bool(v2)), (True, True), det)
                u.eq("beltHMACStepV", sig + ":reject", bool(vbad), False, det)
                u.eq("beltHMACStepG", sig + ":continue", g3, M.hmac(key, x + x), det)
        else:
            it = a
            pwd = rng.randbytes(rng.choice((0, 1, 8, 16, 31, 32, 33, 40, 64, 65)))
            salt = rng.randbytes(rng.choice((0, 1, 8, 20, 27, 28, 29, 60)))
            det = {"pwd": pwd, "iter": it, "salt": salt}
            if ctx.case(dict(det, op="beltPBKDF2"), "pbkdf2:iter%s" % ("1" if it == 1 else "2" if it == 2 else ">2")):
                o = lib.alloc(32)
                r = lib.beltPBKDF2(o, lib.mk(pwd), len(pwd), it, lib.mk(salt), len(salt))
                got = lib.rd(o, 32)
                lib.release()
                ctx.digest(got, r)
                if u.rc("beltPBKDF2", "iter", r, 0, det):
                    u.eq("beltPBKDF2", "iter", got, M.pbkdf2(pwd, it, salt), det)
    u.done()


# ---------------------------------------------------------------------------
# FMT
# ---------------------------------------------------------------------------
# Observing the block count.  beltFMTCalcB is static, but
#     beltFMT_keep(mod, count) = sizeof(belt_fmt_st) + 8 * (beltFMTCalcB(mod, (count + 1) / 2) + 1),
# so B(mod, n) for n in [1, 300] is  (beltFMT_keep(mod, 2n) - base) / 8 - 1  with  base = sizeof(belt_fmt_st).
# sizeof depends on the configuration (word size); it is recovered at run time from beltFMT_keep(65536, 2):
# for mod = 65536 the routine does not use its approximation but the closed form (16 n + 63) / 64, which is 1 for
# n = 1, so base = beltFMT_keep(65536, 2) - 16.  (If that anchor were off, every entry of the table would be off by
# the same amount and the whole table would be reported.)  The same B(mod, n1), B(mod, n2) govern what
# beltFMTStart puts into the state, i.e. the ciphertext.

class FmtB:
    def __init__(self, lib):
        self.lib = lib
        self.base = lib.beltFMT_keep(65536, 2) - 16
        if lib.beltFMT_keep(65536, 600) != self.base + 8 * (75 + 1):
            raise Harness("beltFMT_keep anchor: unexpected layout")

    def b(self, mod, n):
        k = self.lib.beltFMT_keep(mod, 2 * n) - self.base
        if k % 8 or k < 16:
            raise Harness("beltFMT_keep(%d, %d) does not fit the documented layout" % (mod, 2 * n))
        return k // 8 - 1


def _report_b(u, mod, n, got, exp):
    u.bad("beltFMT", "blockcount", "mod=%d,n=%d" % (mod, n),
          "beltFMT block count for words of length n over ZZ_mod is %d, exact ceil(n log2(mod) / 64) = %d" % (got, exp),
          {"mod": mod, "n": n, "library_blocks": got, "exact_blocks": exp,
           "observed_through": "beltFMT_keep(mod, 2n) - beltFMT_keep(65536, 2)"})


def u16s(ws):
    return b"".join(w.to_bytes(2, "little") for w in ws)


def from_u16s(b):
    return [int.from_bytes(b[i:i + 2], "little") for i in range(0, len(b), 2)]


def fmtcls(mod, cnt):
    b1, b2 = M.fmt_b(mod, (cnt + 1) // 2), M.fmt_b(mod, cnt // 2)
    f = lambda b: "block" if b == 1 else "32block" if b == 2 else "wblock"
    return "fmt:%s/%s" % (f(b1), f(b2))


def _fmt_word(rng, mod, cnt):
    k = rng.randrange(8)
    rnd = [rng.randrange(mod) for _ in range(cnt)]
    if k == 0:
        return [0] * cnt
    if k == 1:
        return [mod - 1] * cnt
    if k == 2:
        return [i % mod for i in range(cnt)]
    return rnd


def _fmt_case(u, fb, mod, cnt, klen):
    ctx, lib, rng = u.ctx, u.lib, u.rng
    key = u.key(klen)
    iv, iv2 = pat(rng, 16), pat(rng, 16)
    null_iv = rng.randrange(5) == 0
    x, z = _fmt_word(rng, mod, cnt), _fmt_word(rng, mod, cnt)
    n1, n2 = (cnt + 1) // 2, cnt // 2
    cls = fmtcls(mod, cnt)
    mcls = "mod=65536" if mod == 65536 else "mod=2^k" if mod & (mod - 1) == 0 else "mod-generic"
    det = {"mod": mod, "count": cnt, "key": key, "iv": None if null_iv else iv}
    ivm = None if null_iv else iv

    def expected(f, w, ivx, lb):
        """model value; with the library's own block counts when those are wrong (already reported separately)"""
        return f(mod, w, key, ivx, None if lb == (M.fmt_b(mod, n1), M.fmt_b(mod, n2)) else lb)

    def blockcounts():
        lb = (fb.b(mod, n1), fb.b(mod, n2))
        for n, g in ((n1, lb[0]), (n2, lb[1])):
            if g != M.fmt_b(mod, n):
                _report_b(u, mod, n, g, M.fmt_b(mod, n))
        return lb
    if ctx.case(dict(det, op="beltFMTEncr", src=x), cls + ":encr"):
        lb = blockcounts()
        dest = lib.alloc(2 * cnt)
        r = lib.beltFMTEncr(dest, mod, lib.mk(u16s(x)), cnt, lib.mk(key), klen, 0 if null_iv else lib.mk(iv))
        got = from_u16s(lib.rd(dest, 2 * cnt))
        dest2 = lib.alloc(2 * cnt)
        r2 = lib.beltFMTDecr(dest2, mod, lib.mk(u16s(got)), cnt, lib.mk(key), klen, 0 if null_iv else lib.mk(iv))
        back = from_u16s(lib.rd(dest2, 2 * cnt))
        lib.release()
        ctx.digest(u16s(got), r, u16s(back), r2)
        d = dict(det, src=x)
        if u.rc("beltFMTEncr", mcls, r, 0, d):
            u.eq("beltFMTEncr", mcls, got, expected(M.fmt_encr, x, ivm, lb), d)
            if any(w >= mod for w in got):
                u.bad("beltFMTEncr", "format", mcls, "ciphertext symbol outside the alphabet", dict(d, got=got))
        if r == 0 and u.rc("beltFMTDecr", mcls, r2, 0, d):
            u.inv("beltFMTDecr", mcls, back, x, d)
    if ctx.case(dict(det, op="beltFMTDecr", src=z), cls + ":decr"):
        lb = blockcounts()
        dest = lib.alloc(2 * cnt)
        r = lib.beltFMTDecr(dest, mod, lib.mk(u16s(z)), cnt, lib.mk(key), klen, 0 if null_iv else lib.mk(iv))
        got = from_u16s(lib.rd(dest, 2 * cnt))
        lib.release()
        ctx.digest(u16s(got), r)
        d = dict(det, src=z)
        if u.rc("beltFMTDecr", mcls, r, 0, d):
            u.eq("beltFMTDecr", mcls, got, expected(M.fmt_decr, z, ivm, lb), d)
    if ctx.case(dict(det, op="beltFMTStep", src=x, iv2=iv2), cls + ":steps"):
        lb = blockcounts()
        st = lib.alloc(lib.beltFMT_keep(mod, cnt))
        lib.beltFMTStart(st, mod, cnt, lib.mk(key), klen)
        p = lib.mk(u16s(x))
        lib.beltFMTStepE(p, 0 if null_iv else lib.mk(iv), st)
        g1 = from_u16s(lib.rd(p, 2 * cnt))
        q = lib.mk(u16s(x))
        lib.beltFMTStepE(q, lib.mk(iv2), st)                       # same state, other IV
        g2 = from_u16s(lib.rd(q, 2 * cnt))
        lib.beltFMTStepD(q, lib.mk(iv2), st)
        g3 = from_u16s(lib.rd(q, 2 * cnt))
        lib.release()
        ctx.digest(u16s(g1), u16s(g2), u16s(g3))
        d = dict(det, src=x, iv2=iv2)
        u.eq("beltFMTStepE", mcls, g1, expected(M.fmt_encr, x, ivm, lb), d)
        u.eq("beltFMTStepE", mcls + ":reuse", g2, expected(M.fmt_encr, x, iv2, lb), d)
        u.inv("beltFMTStepD", mcls, g3, x, d)


def unit_fmt(ctx):
    u = U(ctx)
    rng = u.rng
    fb = FmtB(u.lib)
    chunk, nch, nrand, allkeys = (ctx.params[k] for k in ("chunk", "nch", "nrand", "allkeys"))
    combos = [(mod, cnt) for mod in FMT_ALPHABETS for cnt in FMT_COUNTS]
    mine = [(i, c) for i, c in enumerate(combos) if i % nch == chunk]
    for j in range(nrand):
        mod = rng.randrange(2, 65537)
        cnt = rng.choice(FMT_COUNTS) if j % 2 else rng.randrange(2, 601)
        mine.append((len(combos) + chunk + j, (mod, cnt)))
    for i, (mod, cnt) in mine:
        for klen in (KLENS if allkeys else (KLENS[(i + i // len(FMT_COUNTS)) % 3],)):
            _fmt_case(u, fb, mod, cnt, klen)
    u.done()


def unit_fmt_table(ctx):
    """block-count table against exact integer arithmetic; one case = one alphabet size (a row of the table)"""
    u = U(ctx)
    lib, rng = u.lib, u.rng
    fb = FmtB(lib)
    mode, lo, hi = ctx.params["mode"], ctx.params["lo"], ctx.params["hi"]
    keep, base = lib.beltFMT_keep, fb.base
    rows = []
    if mode == "full":                 # every mod in [lo, hi), every n in [1, 300]
        rows = [(mod, None) for mod in range(lo, hi)]
    elif mode == "allmods":            # every mod in [lo, hi) at 6 values of n
        for mod in range(lo, hi):
            rows.append((mod, sorted({1, 2, 300, rng.randrange(3, 300), rng.randrange(3, 300), rng.randrange(100, 300)})))
    else:                              # "alln": boundary alphabets + random ones at every n
        special = set(FMT_ALPHABETS) | {2 ** k for k in range(1, 17)} | {2 ** k - 1 for k in range(2, 17)} | \
                  {2 ** k + 1 for k in range(1, 16)} | {46341, 46340, 23170, 23171, 49666, 49668, 65534}
        special = sorted(special)
        rows = [(m, None) for i, m in enumerate(special) if i % ctx.params["nch"] == ctx.params["chunk"]]
        rows += [(rng.randrange(2, 65537), None) for _ in range(ctx.params["nrand"])]
    allns = list(range(1, 301))
    for mod, ns in rows:
        full = ns is None
        if not ctx.case(["fmt-blockcount-row", mod, "all n in 1..300" if full else ns],
                        "fmt-table:" + ("row-all-n" if full else "row-6-n")):
            continue
        nn = allns if full else ns
        got = []
        for n in nn:
            k = keep(mod, 2 * n) - base
            got.append(k // 8 - 1 if k % 8 == 0 else -1)
        ctx.digest(bytes(g & 255 for g in got))
        # exact: b = ceil(bitlen(mod^n - 1) / 64)
        if full:
            p, exp = 1, []
            for n in nn:
                p *= mod
                exp.append(((p - 1).bit_length() + 63) >> 6)
        else:
            exp = [M.fmt_b(mod, n) for n in nn]
        if got != exp:
            for n, g, e in zip(nn, got, exp):
                if g != e:
                    _report_b(u, mod, n, g, e)
        ctx.count(len(nn) - 1, "fmt-table:entry", distinct=len(nn) - 1)
    ctx.note("fmt_table_entries", sum(300 if ns is None else len(ns) for _, ns in rows))
    u.done()


# ---------------------------------------------------------------------------
# jobs / main
# ---------------------------------------------------------------------------

def jobs(tier, scale=1.0):
    q = tier == "quick"
    J = []

    def sc(v):
        return max(1, int(round(v * scale)))

    def add(unit, **p):
        J.append({"unit": "c01:" + unit, "params": p})
    add("unit_selftest")
    # FMT first: its largest cases are the slowest
    nf = 16
    for k in range(nf):
        add("unit_fmt", chunk=k, nch=nf, nrand=sc(2 if q else 24), allkeys=(not q) and scale >= 0.5)
    if q or scale < 1:
        for k in range(8):
            add("unit_fmt_table", mode="allmods", lo=2 + k * 8192, hi=min(65537, 2 + (k + 1) * 8192))
        for k in range(4):
            add("unit_fmt_table", mode="alln", lo=0, hi=0, chunk=k, nch=4, nrand=sc(60))
    else:
        J.extend(fmt_table_full_jobs())
    nw = 16
    for k in range(nw):
        add("unit_wbl", chunk=k, nch=nw, reps=sc(2 if q else 16), tamper_every=2 if q else 1)
    for cnts in ([[2032, 2048], [2064, 4096]] if q else [[2032, 2048], [2064, 2051], [4096], [4080, 4112], [8192], [6000, 8191]]):
        add("unit_wbl_long", counts=cnts, reps=1 if q else 3)
    nm = 8 if q else 16
    for k in range(nm):
        add("unit_modes", chunk=k, nch=nm, reps=sc(6 if q else 64))
    na = 8 if q else 16
    for k in range(na):
        add("unit_aead", chunk=k, nch=na, nad=3 if q or scale < 0.5 else len(MSG_BOUNDARY), tamper_every=2 if q else 1)
    nk = 4 if q else 8
    for k in range(nk):
        add("unit_kdf", chunk=k, nch=nk, reps=sc(4 if q else 40), nmsg=3 if q or scale < 0.5 else len(MSG_BOUNDARY))
    for k in range(4):
        add("unit_block", chunk=k, n=sc(300 if q else 6000))
    for k in range(1 if q else 4):
        add("unit_carry", chunk=k, reps=sc(2 if q else 40))
    add("unit_addbits", n=sc(300 if q else 5000))
    return J


def fmt_table_full_jobs(nch=32):
    """the complete table mod in [2, 65536] x n in [1, 300]: 19 660 500 entries"""
    step = (65535 + nch - 1) // nch
    out = []
    for k in range(nch):
        lo, hi = 2 + k * step, min(65537, 2 + (k + 1) * step)
        if lo < hi:
            out.append({"unit": "c01:unit_fmt_table", "params": {"mode": "full", "lo": lo, "hi": hi}})
    return out


REQUIRED = (
    "model:selftest", "H-table", "keyexpand:16", "keyexpand:24", "keyexpand:32", "block:encr", "block:decr", "compress",
    "ecb:ragged1", "ecb:ragged3", "ecb:full1", "cbc:ragged1", "cbc:ragged1:steps", "cbc:full3", "cfb:empty", "cfb:short",
    "ctr:ragged3", "ctr:ragged3:steps", "bde:full3", "sde:full2", "sde:full3:steps", "mac:empty", "mac:full1", "mac:ragged2",
    "hash:empty", "hash:full1", "hash:ragged2:steps",
    "wbl:E:ragged(base)", "wbl:E:full<64(base)", "wbl:E:full64(E-opt,D-base)", "wbl:E:full>=80(opt)",
    "wbl:D:ragged(base)", "wbl:D:full64(E-opt,D-base)", "wbl:D:full>=80(opt)", "wbl:R:full>=80(opt)",
    "kwp:wrap:ragged(base)", "kwp:unwrap:full>=80(opt)", "kwp:ragged(base):tamper-header", "kwp:full>=80(opt):tamper-token",
    "dwp:x-empty", "dwp:x-ragged3", "dwp:steps:ad-empty", "dwp:steps:ad-ragged1", "dwp:tamper-mac", "dwp:tamper-ciphertext",
    "dwp:tamper-ad", "dwp:tamper-iv", "dwp:tamper-key", "dwp:tamper-split",
    "che:x-empty", "che:x-ragged3", "che:tamper-mac", "che:tamper-ciphertext", "che:tamper-key",
    "ctr-carry:low32-ones", "ctr-carry:low64-ones", "ctr-carry:low96-ones", "ctr-carry:low128-ones",
    "dwp-carry:low128-ones", "che-mulc:top-bit", "bde-mulc:all-ones",
    "len128:boundary", "len128:chain", "len64:boundary",
    "krp:16->16", "krp:24->16", "krp:24->24", "krp:32->16", "krp:32->24", "krp:32->32",
    "hmac:keyempty", "hmac:key<32", "hmac:key=32", "hmac:key>32(hashed)", "pbkdf2:iter1", "pbkdf2:iter>2",
    "fmt:block/block:encr", "fmt:32block/block:encr", "fmt:32block/32block:decr", "fmt:wblock/32block:encr",
    "fmt:wblock/wblock:steps", "fmt-table:entry",
)


def main(run):
    q = run.tier == "quick"
    js = [dict(j, cfg="asan64") for j in jobs(run.tier)]
    if not q:
        for cfg in ("asan32", "rel64"):
            js += [dict(j, cfg=cfg) for j in jobs("thorough", 0.15) if j["unit"] != "c01:unit_selftest"]
        # the block-count routine works on machine words: the complete table also with 32-bit words
        js += [dict(j, cfg="asan32") for j in fmt_table_full_jobs()]
    run.run_jobs(js)
    run.coverage_extra["fmt_table_exhaustive"] = not q
    run.coverage_extra["fmt_table_observable"] = (
        "B(mod, n) = (beltFMT_keep(mod, 2n) - beltFMT_keep(65536, 2)) / 8 + 1, compared with ceil(bitlen(mod^n - 1) / 64)")
    return run.finish(
        rule="one case = one library call sequence on fresh random/boundary inputs (key of 16/24/32 octets, IV, header, "
             "level, message) compared octet for octet with the reference model, or one group of tampered unwrap calls, "
             "or one row (alphabet size) of the FMT block-count table; lengths sweep 0..80 octets (modes, MAC, hash, "
             "DWP, CHE), 32..208 (WBL, KWP), sectors to 256; distinct = distinct (operation, inputs)",
        assumptions=[
            "vlib/ref/belt.py is the statement of STB 34.101.31: it reproduces every Appendix-A vector embedded in "
            "belt_test.c (and B.1 of STB 34.101.47, E.5 of STB 34.101.45); agreement of two independent implementations "
            "plus these anchors is the claim",
            "belt-fmt tweak layout and belt-32block are taken from the C code (belt.h is silent), anchored by test A.26",
            "messages of 2^29 octets and more are exercised only through the exported length helpers "
            "beltBlockAddBitSizeU32 / beltHalfBlockAddBitSizeW",
            "a 64-bit tag / 128-bit header collision of a tampered input (probability 2^-64 / 2^-128) is ignored",
        ],
        min_eval=5000, required_classes=REQUIRED)
