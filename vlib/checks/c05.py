"""C05 — arithmetic layer equals exact integer, modular and GF(2)[x] arithmetic.
Combines the word/ww/zz half (c05_zz.py) and the zm/qr/gfp/pp/gf2 half (c05_pp.py); both run in the 64-bit and the
32-bit word configuration."""
import importlib

LEVEL = "exploration"


def _mods():
    out = []
    for m in ("c05_zz", "c05_pp"):
        out.append(importlib.import_module("vlib.checks." + m))
    return out


def jobs(tier, scale=1.0):
    js = []
    for m in _mods():
        js += m.jobs(tier, scale)
    return js


def main(run):
    mods = _mods()
    js = []
    req, assumptions = [], []
    for m in mods:
        for j in m.jobs(run.tier):
            js.append(dict(j, cfg="asan64"))
            js.append(dict(j, cfg="asan32"))
        if run.tier == "thorough":
            js += [dict(j, cfg="rel64") for j in m.jobs("quick")]
        req += list(getattr(m, "REQUIRED_CLASSES", ()))
        assumptions += list(getattr(m, "ASSUMPTIONS", ()))
    run.run_jobs(js, timeout=3400)
    return run.finish(
        rule="; ".join(getattr(m, "RULE", "case = (function, operand lengths, operand classes, aliasing pattern, seed) compared with the "
                                         "header formula evaluated in Python integers / bit polynomials") for m in mods)[:1500],
        assumptions=assumptions + ["word.h macros are not callable and are covered through u16/u32/u64 and their users"],
        required_classes=tuple(req))
