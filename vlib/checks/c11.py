"""C11 — documented overlap tolerance: differential between a call on pairwise disjoint buffers and the same
call with the buffers laid out in one exact-size arena at generated offsets (outputs over inputs).

Only functions whose header grants the overlap are driven (table SPECS below, one entry per header statement).
Inputs stay pairwise disjoint from each other (two inputs sharing octets is only allowed for memJoin, whose header
says so); combinations a header forbids (dest/mac in DWP/CHE wrap, iv/dest in FMT) are never generated.
"""
from ..core import Harness

LEVEL = "exploration"
ERR_OK = 0


class Buf:
    __slots__ = ("name", "kind", "size", "data", "off")

    def __init__(self, name, kind, size, data=None):
        self.name, self.kind, self.size, self.data, self.off = name, kind, size, data, None


def rb(rng, n):
    return bytes(rng.getrandbits(8) for _ in range(n))


# ---------------------------------------------------------------------------
# specs: make(lib, rng, p) -> (bufs, call, primary(out,in) names, forbid pairs, cmp_on_error)
# call(lib, P) with P = dict name -> pointer ; returns (ret, extra_bytes)
# ---------------------------------------------------------------------------

def _mode(fn, minc, step):
    def make(lib, rng, p):
        count = p["count"]
        if count < minc:
            count = minc
        count -= count % step
        klen = rng.choice([16, 24, 32])
        bufs = [Buf("dest", "out", count), Buf("src", "in", count, rb(rng, count)),
                Buf("key", "in", klen, rb(rng, klen)), Buf("iv", "in", 16, rb(rng, 16))]

        def call(lib, P):
            return getattr(lib, fn)(P["dest"], P["src"], count, P["key"], klen, P["iv"]), b""
        return bufs, call, ("dest", "src"), [], False
    return make


def _mac(fn, outlen, keyed=True, anykey=False):
    def make(lib, rng, p):
        count = p["count"]
        klen = rng.randrange(0, 70) if anykey else rng.choice([16, 24, 32])
        bufs = [Buf("mac", "out", outlen), Buf("src", "in", count, rb(rng, count))]
        if keyed:
            bufs.append(Buf("key", "in", klen, rb(rng, klen)))

        def call(lib, P):
            if keyed:
                return getattr(lib, fn)(P["mac"], P["src"], count, P["key"], klen), b""
            return getattr(lib, fn)(P["mac"], P["src"], count), b""
        return bufs, call, ("mac", "src"), [], False
    return make


def _bash(lib, rng, p):
    count = p["count"]
    l = rng.choice(range(16, 257, 16))
    bufs = [Buf("hash", "out", l // 4), Buf("src", "in", count, rb(rng, count))]

    def call(lib, P):
        return lib.bashHash(P["hash"], l, P["src"], count), b""
    return bufs, call, ("hash", "src"), [], False


def _aead_wrap(fn):
    def make(lib, rng, p):
        c1 = p["count"]
        c2 = rng.choice([0, 1, 15, 16, 17, 33])
        klen = rng.choice([16, 24, 32])
        bufs = [Buf("dest", "out", c1), Buf("mac", "out", 8), Buf("src1", "in", c1, rb(rng, c1)),
                Buf("src2", "in", c2, rb(rng, c2)), Buf("key", "in", klen, rb(rng, klen)), Buf("iv", "in", 16, rb(rng, 16))]

        def call(lib, P):
            return getattr(lib, fn)(P["dest"], P["mac"], P["src1"], c1, P["src2"], c2, P["key"], klen, P["iv"]), b""
        return bufs, call, ("dest", "src1"), [("dest", "mac")], False
    return make


def _aead_unwrap(fn, wrapfn):
    def make(lib, rng, p):
        c1 = p["count"]
        c2 = rng.choice([0, 1, 15, 16, 17, 33])
        klen = rng.choice([16, 24, 32])
        pt, ad, key, iv = rb(rng, c1), rb(rng, c2), rb(rng, klen), rb(rng, 16)
        # a valid token produced on disjoint buffers
        d, m = lib.alloc(c1), lib.alloc(8)
        r = getattr(lib, wrapfn)(d, m, lib.mk(pt), c1, lib.mk(ad), c2, lib.mk(key), klen, lib.mk(iv))
        if r != ERR_OK:
            raise Harness("%s failed while preparing a token: %d" % (wrapfn, r))
        ct, mac = lib.rd(d, c1), lib.rd(m, 8)
        lib.release()
        if p.get("bad"):
            mac = bytes([mac[0] ^ 1]) + mac[1:]
        bufs = [Buf("dest", "out", c1), Buf("src1", "in", c1, ct), Buf("src2", "in", c2, ad),
                Buf("mac", "in", 8, mac), Buf("key", "in", klen, key), Buf("iv", "in", 16, iv)]

        def call(lib, P):
            return getattr(lib, fn)(P["dest"], P["src1"], c1, P["src2"], c2, P["mac"], P["key"], klen, P["iv"]), b""
        return bufs, call, ("dest", "src1"), [], False
    return make


def _kwp_wrap(lib, rng, p):
    count = max(16, p["count"])
    klen = rng.choice([16, 24, 32])
    nullhdr = rng.random() < 0.15
    bufs = [Buf("dest", "out", count + 16), Buf("src", "in", count, rb(rng, count)), Buf("key", "in", klen, rb(rng, klen))]
    if not nullhdr:
        bufs.append(Buf("header", "in", 16, rb(rng, 16)))

    def call(lib, P):
        return lib.beltKWPWrap(P["dest"], P["src"], count, P.get("header", 0), P["key"], klen), b""
    return bufs, call, ("dest", "src"), [], False


def _kwp_unwrap(lib, rng, p):
    count = max(16, p["count"])
    klen = rng.choice([16, 24, 32])
    nullhdr = rng.random() < 0.15
    src, key, hdr = rb(rng, count), rb(rng, klen), (bytes(16) if nullhdr else rb(rng, 16))
    d = lib.alloc(count + 16)
    r = lib.beltKWPWrap(d, lib.mk(src), count, lib.mk(hdr), lib.mk(key), klen)
    if r != ERR_OK:
        raise Harness("beltKWPWrap failed while preparing a token")
    tok = lib.rd(d, count + 16)
    lib.release()
    if p.get("bad"):
        tok = tok[:-1] + bytes([tok[-1] ^ 0x80])
    bufs = [Buf("dest", "out", count), Buf("src", "in", count + 16, tok), Buf("key", "in", klen, key)]
    if not nullhdr:
        bufs.append(Buf("header", "in", 16, hdr))

    def call(lib, P):
        return lib.beltKWPUnwrap(P["dest"], P["src"], count + 16, P.get("header", 0), P["key"], klen), b""
    return bufs, call, ("dest", "src"), [], False


def _fmt(fn):
    def make(lib, rng, p):
        count = max(2, min(p["count"] // 2, 40))
        mod = rng.choice([2, 3, 10, 16, 256, 257, 1000, 49667, 65535, 65536, rng.randrange(2, 65537)])
        klen = rng.choice([16, 24, 32])
        src = b"".join(rng.randrange(mod).to_bytes(2, "little") for _ in range(count))
        nulliv = rng.random() < 0.2
        bufs = [Buf("dest", "out", 2 * count), Buf("src", "in", 2 * count, src), Buf("key", "in", klen, rb(rng, klen))]
        if not nulliv:
            bufs.append(Buf("iv", "in", 16, rb(rng, 16)))

        def call(lib, P):
            return getattr(lib, fn)(P["dest"], mod, P["src"], count, P["key"], klen, P.get("iv", 0)), b""
        return bufs, call, ("dest", "src"), [("dest", "iv")], False
    return make


def _krp(lib, rng, p):
    n = rng.choice([16, 24, 32])
    m = rng.choice([x for x in (16, 24, 32) if x <= n])
    bufs = [Buf("dest", "out", m), Buf("src", "in", n, rb(rng, n)), Buf("level", "in", 12, rb(rng, 12)),
            Buf("header", "in", 16, rb(rng, 16))]

    def call(lib, P):
        return lib.beltKRP(P["dest"], m, P["src"], n, P["level"], P["header"]), b""
    return bufs, call, ("dest", "src"), [], False


def _keyexpand(fn):
    def make(lib, rng, p):
        klen = rng.choice([16, 24, 32])
        bufs = [Buf("key_", "out", 32), Buf("key", "in", klen, rb(rng, klen))]

        def call(lib, P):
            getattr(lib, fn)(P["key_"], P["key"], klen)
            return 0, b""
        return bufs, call, ("key_", "key"), [], True
    return make


def _start_key_in_state(prefix, with_iv, probe):
    """key may lie inside the state that Start() fills; observable = what the state then computes"""
    def make(lib, rng, p):
        klen = rng.choice([16, 24, 32])
        keep = getattr(lib, prefix + "_keep")()
        bufs = [Buf("state", "opaque", keep), Buf("key", "in", klen, rb(rng, klen))]
        iv = rb(rng, 16)
        data = rb(rng, 48)

        def call(lib, P):
            # iv and data are handed over in separate exact blocks (not part of the overlap statement)
            if with_iv:
                getattr(lib, prefix + "Start")(P["state"], P["key"], klen, lib.mk(iv))
            else:
                getattr(lib, prefix + "Start")(P["state"], P["key"], klen)
            return 0, probe(lib, P["state"], data)
        return bufs, call, ("state", "key"), [], True
    return make


def _probe_step(fn, n=48):
    def probe(lib, st, data):
        b = lib.mk(data[:n])
        getattr(lib, fn)(b, n, st)
        return lib.rd(b, n)
    return probe


def _probe_mac(stepa, stepg, outlen):
    def probe(lib, st, data):
        getattr(lib, stepa)(lib.mk(data), len(data), st)
        o = lib.alloc(outlen)
        getattr(lib, stepg)(o, st)
        return lib.rd(o, outlen)
    return probe


def _probe_dwp(lib, st, data):
    b = lib.mk(data)
    lib.beltDWPStepE(b, len(data), st)
    lib.beltDWPStepA(b, len(data), st)
    o = lib.alloc(8)
    lib.beltDWPStepG(o, st)
    return lib.rd(b, len(data)) + lib.rd(o, 8)


def _probe_che(lib, st, data):
    b = lib.mk(data)
    lib.beltCHEStepE(b, len(data), st)
    lib.beltCHEStepA(b, len(data), st)
    o = lib.alloc(8)
    lib.beltCHEStepG(o, st)
    return lib.rd(b, len(data)) + lib.rd(o, 8)


def _probe_wbl(lib, st, data):
    b = lib.mk(data)
    lib.beltWBLStepE(b, len(data), st)
    return lib.rd(b, len(data))


def _probe_krp(lib, st, data):
    o = lib.alloc(16)
    lib.beltKRPStepG(o, 16, lib.mk(data[:16]), st)
    return lib.rd(o, 16)


def _probe_sde(lib, st, data):
    b = lib.mk(data)
    lib.beltSDEStepE(b, len(data), lib.mk(data[:16]), st)
    return lib.rd(b, len(data))


def _fmt_start(lib, rng, p):
    klen = rng.choice([16, 24, 32])
    mod = rng.choice([2, 10, 256, 257, 49667, 65536])
    count = rng.choice([2, 3, 10, 21])
    keep = lib.beltFMT_keep(mod, count)
    bufs = [Buf("state", "opaque", keep), Buf("key", "in", klen, rb(rng, klen))]
    iv = rb(rng, 16)
    data = b"".join(rng.randrange(mod).to_bytes(2, "little") for _ in range(count))

    def call(lib, P):
        lib.beltFMTStart(P["state"], mod, count, P["key"], klen)
        b = lib.mk(data)
        lib.beltFMTStepE(b, lib.mk(iv), P["state"])
        return 0, lib.rd(b, len(data))
    return bufs, call, ("state", "key"), [], True


def _krp_start(lib, rng, p):
    klen = rng.choice([16, 24, 32])
    keep = lib.beltKRP_keep()
    bufs = [Buf("state", "opaque", keep), Buf("key", "in", klen, rb(rng, klen))]
    level = rb(rng, 12)
    data = rb(rng, 48)

    def call(lib, P):
        lib.beltKRPStart(P["state"], P["key"], klen, lib.mk(level))
        return 0, _probe_krp(lib, P["state"], data)
    return bufs, call, ("state", "key"), [], True


def _stepg_into_state(prefix, start_args, stepa, stepg, outlen, extra=()):
    """StepG may write the tag/hash into the state itself (when no continuation follows)"""
    def make(lib, rng, p):
        keep = getattr(lib, prefix + "_keep")()
        klen = rng.choice([16, 24, 32])
        key = rb(rng, klen)
        data = rb(rng, p["count"])
        bufs = [Buf("state", "in", keep, bytes(keep)), Buf("out", "out", outlen)]

        def call(lib, P):
            st = P["state"]
            if start_args == "key":
                getattr(lib, prefix + "Start")(st, lib.mk(key), klen)
            elif start_args == "l":
                getattr(lib, prefix + "Start")(st, 128)
            else:
                getattr(lib, prefix + "Start")(st)
            getattr(lib, stepa)(lib.mk(data), len(data), st)
            getattr(lib, stepg)(P["out"], *extra, st)
            return 0, b""
        return bufs, call, ("out", "state"), [], True
    return make


def _memmove(lib, rng, p):
    count = p["count"]
    bufs = [Buf("dest", "out", count), Buf("src", "in", count, rb(rng, count))]

    def call(lib, P):
        lib.memMove(P["dest"], P["src"], count)
        return 0, b""
    return bufs, call, ("dest", "src"), [], True


def _memjoin(lib, rng, p):
    c1 = p["count"]
    c2 = rng.choice([0, 1, 7, 16, 17, 40])
    bufs = [Buf("dest", "out", c1 + c2), Buf("src1", "in", c1, rb(rng, c1)), Buf("src2", "in", c2, rb(rng, c2))]

    def call(lib, P):
        lib.memJoin(P["dest"], P["src1"], c1, P["src2"], c2)
        return 0, b""
    return bufs, call, ("dest", "src1"), [], True


def _derenc(fn):
    def make(lib, rng, p):
        n = max(1, p["count"]) if fn != "derEnc" else p["count"]
        tag = rng.choice([0x04, 0x02, 0x30, 0x0C, 0x13, 0x80, 0x1F21, 0x5F29])
        if fn == "derTUINTEnc":
            tag = 0x02
        if fn == "derTPSTREnc":
            val = bytes(rng.choice(b"ABCXYZabcxyz019 '()+,-./:=?") for _ in range(n)) + b"\0"
        elif fn == "derTBITEnc":
            val = rb(rng, n)
        else:
            val = rb(rng, n)
        if fn == "derTBITEnc":
            nbits = 8 * n - rng.randrange(0, 8)
            size = lib.derTBITEnc(0, tag, lib.mk(val), nbits)
        elif fn == "derTPSTREnc":
            size = lib.derTPSTREnc(0, 0x13, lib.mk(val))
        else:
            size = getattr(lib, fn)(0, tag, lib.mk(val), n)
        lib.release()
        if size >= 2 ** 63:
            raise Harness("%s size probe failed" % fn)
        bufs = [Buf("der", "out", size), Buf("val", "in", len(val), val)]

        def call(lib, P):
            if fn == "derTBITEnc":
                r = lib.derTBITEnc(P["der"], tag, P["val"], nbits)
            elif fn == "derTPSTREnc":
                r = lib.derTPSTREnc(P["der"], 0x13, P["val"])
            else:
                r = getattr(lib, fn)(P["der"], tag, P["val"], n)
            return (0 if r == size else 1), b""
        return bufs, call, ("der", "val"), [], True
    return make


def _derdec(fn):
    """value output may overlap the DER input"""
    def make(lib, rng, p):
        n = max(1, min(p["count"], 60))
        if fn == "derTUINTDec":
            val = rb(rng, n)
            tag = 0x02
            size = lib.derTUINTEnc(0, tag, lib.mk(val), n)
            d = lib.alloc(size)
            lib.derTUINTEnc(d, tag, lib.mk(val), n)
            outlen = n
        elif fn == "derTOCTDec":
            val = rb(rng, n)
            tag = 0x04
            size = lib.derEnc(0, tag, lib.mk(val), n)
            d = lib.alloc(size)
            lib.derEnc(d, tag, lib.mk(val), n)
            outlen = n
        elif fn == "derTBITDec":
            val = rb(rng, n)
            tag = 0x03
            nbits = 8 * n
            size = lib.derTBITEnc(0, tag, lib.mk(val), nbits)
            d = lib.alloc(size)
            lib.derTBITEnc(d, tag, lib.mk(val), nbits)
            outlen = n
        der = lib.rd(d, size)
        lib.release()
        bufs = [Buf("val", "opaque", outlen), Buf("der", "in", size, der)]

        def call(lib, P):
            ln = lib.alloc(8)
            r = getattr(lib, fn)(P["val"], ln, P["der"], size, tag)
            got = lib.rd_size(ln)
            nb = (got + 7) // 8 if fn == "derTBITDec" else got
            # only the decoded octets are output; the rest of val is not written
            return (0 if r == size else 1), lib.rd(ln, 8) + lib.rd(P["val"], min(nb, outlen))
        return bufs, call, ("val", "der"), [], True
    return make


SPECS = {
    "beltCBCEncr": _mode("beltCBCEncr", 16, 1), "beltCBCDecr": _mode("beltCBCDecr", 16, 1),
    "beltCFBEncr": _mode("beltCFBEncr", 0, 1), "beltCFBDecr": _mode("beltCFBDecr", 0, 1),
    "beltCTR": _mode("beltCTR", 0, 1),
    "beltBDEEncr": _mode("beltBDEEncr", 16, 16), "beltBDEDecr": _mode("beltBDEDecr", 16, 16),
    "beltSDEEncr": _mode("beltSDEEncr", 32, 16), "beltSDEDecr": _mode("beltSDEDecr", 32, 16),
    "beltMAC": _mac("beltMAC", 8), "beltHash": _mac("beltHash", 32, keyed=False),
    "beltHMAC": _mac("beltHMAC", 32, anykey=True), "bashHash": _bash,
    "beltDWPWrap": _aead_wrap("beltDWPWrap"), "beltCHEWrap": _aead_wrap("beltCHEWrap"),
    "beltDWPUnwrap": _aead_unwrap("beltDWPUnwrap", "beltDWPWrap"),
    "beltCHEUnwrap": _aead_unwrap("beltCHEUnwrap", "beltCHEWrap"),
    "beltKWPWrap": _kwp_wrap, "beltKWPUnwrap": _kwp_unwrap,
    "beltFMTEncr": _fmt("beltFMTEncr"), "beltFMTDecr": _fmt("beltFMTDecr"),
    "beltKRP": _krp, "beltKeyExpand": _keyexpand("beltKeyExpand"), "beltKeyExpand2": _keyexpand("beltKeyExpand2"),
    "beltECBStart": _start_key_in_state("beltECB", False, _probe_step("beltECBStepE")),
    "beltCBCStart": _start_key_in_state("beltCBC", True, _probe_step("beltCBCStepE")),
    "beltCFBStart": _start_key_in_state("beltCFB", True, _probe_step("beltCFBStepE")),
    "beltCTRStart": _start_key_in_state("beltCTR", True, _probe_step("beltCTRStepE")),
    "beltBDEStart": _start_key_in_state("beltBDE", True, _probe_step("beltBDEStepE")),
    "beltMACStart": _start_key_in_state("beltMAC", False, _probe_mac("beltMACStepA", "beltMACStepG", 8)),
    "beltSDEStart": _start_key_in_state("beltSDE", False, _probe_sde),
    "beltFMTStart": _fmt_start,
    "beltDWPStart": _start_key_in_state("beltDWP", True, _probe_dwp),
    "beltCHEStart": _start_key_in_state("beltCHE", True, _probe_che),
    "beltWBLStart": _start_key_in_state("beltWBL", False, _probe_wbl),
    "beltKRPStart": _krp_start,
    "beltMACStepG": _stepg_into_state("beltMAC", "key", "beltMACStepA", "beltMACStepG", 8),
    "beltHashStepG": _stepg_into_state("beltHash", "", "beltHashStepH", "beltHashStepG", 32),
    "beltHMACStepG": _stepg_into_state("beltHMAC", "key", "beltHMACStepA", "beltHMACStepG", 32),
    "memMove": _memmove, "memJoin": _memjoin,
    "derEnc": _derenc("derEnc"), "derTUINTEnc": _derenc("derTUINTEnc"),
    "derTUINTDec": _derdec("derTUINTDec"), "derTOCTDec": _derdec("derTOCTDec"), "derTBITDec": _derdec("derTBITDec"),
}

AUX_MODES = ("outside", "at_out_start", "inside", "inside_end")


def overlaps(a, b):
    return a.off < b.off + b.size and b.off < a.off + a.size and a.size > 0 and b.size > 0


def layout(bufs, primary, delta, auxmode, forbid, rng, inputs_may_overlap=False):
    """assign .off to every buffer; returns arena size or None if the layout is not admissible"""
    by = {b.name: b for b in bufs}
    forbid = [(a, b) for a, b in forbid if a in by and b in by]
    out0, in0 = by[primary[0]], by[primary[1]]
    base = 1 << 12
    in0.off = base
    out0.off = base + delta
    placed = [in0, out0]
    end = max(in0.off + in0.size, out0.off + out0.size) + 1

    def far():
        nonlocal end
        o = end + rng.randrange(0, 9)
        return o

    for b in bufs:
        if b is in0 or b is out0:
            continue
        mode = auxmode
        cand = None
        tries = 0
        # an auxiliary input is laid over the primary output; a secondary *output* (mac of the Wrap functions, ...) cannot
        # share octets with the primary output, it is laid over the primary input instead (admissible whenever the
        # primary output is elsewhere)
        ref = out0 if b.kind == "in" else in0
        while tries < 12:
            tries += 1
            if mode == "outside" or b.size == 0:
                cand = far()
            elif mode == "at_out_start":
                cand = ref.off
            elif mode == "inside":
                lo, hi = ref.off - b.size + 1, ref.off + ref.size - 1
                cand = rng.randrange(lo, hi + 1) if hi >= lo else far()
            else:  # inside_end: ends exactly where the reference region ends
                cand = ref.off + ref.size - b.size
            b.off = cand
            ok = True
            for q in placed:
                if not overlaps(b, q):
                    continue
                if b.kind == "in" and q.kind == "in" and not inputs_may_overlap:
                    ok = False
                if b.kind != "in" and q.kind != "in":
                    ok = False
                if (b.name, q.name) in forbid or (q.name, b.name) in forbid:
                    ok = False
            if ok:
                break
            mode = "inside" if (mode in ("at_out_start", "inside_end") and tries < 6) else "outside"
        else:
            return None
        placed.append(b)
        end = max(end, b.off + b.size + 1)
    # forbidden / same-kind overlaps between primary pair members and others were checked on placement; check primary itself
    for a, b in forbid:
        if overlaps(by[a], by[b]):
            return None
    lo = min(b.off for b in bufs)
    for b in bufs:
        b.off -= lo
    return max(b.off + b.size for b in bufs)


def run_case(ctx, lib, fname, p, rng_state_seed):
    import random
    rng = random.Random(rng_state_seed)
    bufs, call, primary, forbid, cmp_on_err = SPECS[fname](lib, rng, p)
    size = layout(bufs, primary, p["delta"], p["aux"], forbid, rng, inputs_may_overlap=(fname == "memJoin"))
    if size is None:
        return None
    # arena image first: an input's effective content is what the arena holds at its position
    # (matters only when two inputs share octets, which is generated for memJoin alone)
    img = bytearray([0x5C]) * size
    for b in bufs:
        if b.kind == "in":
            img[b.off:b.off + b.size] = b.data
    for b in bufs:
        if b.kind == "in":
            b.data = bytes(img[b.off:b.off + b.size])
    cmpbufs = [b for b in bufs if b.kind == "out"]
    # run A: disjoint exact blocks
    PA = {}
    for b in bufs:
        PA[b.name] = lib.mk(b.data) if b.kind == "in" else lib.alloc(b.size, 0x5C)
    retA, extraA = call(lib, PA)
    outA = {b.name: lib.rd(PA[b.name], b.size) for b in cmpbufs}
    lib.release()
    # run B: one arena
    arena = lib.mk(bytes(img))
    PB = {b.name: arena + b.off for b in bufs}
    retB, extraB = call(lib, PB)
    outB = {b.name: lib.rd(PB[b.name], b.size) for b in cmpbufs}
    lib.release()
    ov = sorted("%s~%s" % (a.name, b.name) for a in bufs for b in bufs
                if a.kind == "in" and b.kind != "in" and overlaps(a, b))
    ctx.digest(retA, retB, *[outA[k] for k in sorted(outA)], extraA)
    diff = None
    if retA != retB:
        diff = "ret"
    elif (retA == ERR_OK or cmp_on_err) and (outA != outB or extraA != extraB):
        diff = "value"
    return diff, ov, dict(retA=retA, retB=retB, outA=outA, outB=outB, extraA=extraA, extraB=extraB,
                          layout={b.name: [b.kind, b.off, b.size] for b in bufs})


def unit_overlap(ctx):
    lib, rng = ctx.lib, ctx.rng
    P = ctx.params
    fnames = P["functions"]
    reported = set()
    for fname in fnames:
        for count in P["counts"]:
            span = count + 16
            deltas = list(range(-span - 16, span + 17))
            if P.get("delta_step", 1) > 1:
                st = P["delta_step"]
                keep = {0, 1, -1, 16, -16, count, -count, 15, -15, 17, -17, 8, -8}
                deltas = [d for d in deltas if d % st == P.get("chunk", 0) % st or d in keep]
            for delta in deltas:
                for aux in AUX_MODES:
                    bad = 1 if (fname.endswith("Unwrap") and rng.random() < 0.2) else 0
                    p = {"count": count, "delta": delta, "aux": aux, "bad": bad}
                    s = rng.getrandbits(48)
                    if not ctx.case([fname, p, s], None):
                        continue
                    res = run_case(ctx, lib, fname, p, s)
                    if res is None:
                        ctx.classes["layout-not-admissible"] += 1
                        continue
                    diff, ov, det = res
                    ctx.classes[fname] += 1
                    ctx.classes["overlap:" + (",".join(ov) if ov else "none")] += 1
                    if not ov:
                        ctx.mark_trivial()
                    if diff:
                        sign = "+" if delta > 0 else ("-" if delta < 0 else "0")
                        key = "%s:overlap-%s:%s" % (fname, diff, ",".join(ov) or "none")
                        if key not in reported:
                            reported.add(key)
                            ctx.violation(key, "%s gives a different %s when %s" % (
                                fname, "return code" if diff == "ret" else "result", ", ".join(ov) or "buffers are laid out in one arena"),
                                dict(det, params=p, seed=s))


GROUPS = [
    ["beltCBCEncr", "beltCBCDecr"], ["beltCFBEncr", "beltCFBDecr"], ["beltCTR", "beltKRP", "beltKeyExpand", "beltKeyExpand2"],
    ["beltBDEEncr", "beltBDEDecr"], ["beltSDEEncr", "beltSDEDecr"], ["beltMAC", "beltHash", "beltHMAC", "bashHash"],
    ["beltDWPWrap", "beltDWPUnwrap"], ["beltCHEWrap", "beltCHEUnwrap"], ["beltKWPWrap"], ["beltKWPUnwrap"],
    ["beltFMTEncr", "beltFMTDecr"],
    ["beltECBStart", "beltCBCStart", "beltCFBStart", "beltCTRStart", "beltBDEStart", "beltMACStart", "beltSDEStart",
     "beltFMTStart", "beltDWPStart", "beltCHEStart", "beltWBLStart", "beltKRPStart"],
    ["beltMACStepG", "beltHashStepG", "beltHMACStepG", "memMove", "memJoin"],
    ["derEnc", "derTUINTEnc", "derTUINTDec", "derTOCTDec", "derTBITDec"],
]


def jobs(tier, scale=1.0):
    q = tier == "quick"
    js = []
    counts = [16, 17, 32, 33, 48, 64] if q else [16, 17, 32, 33, 48, 64, 80, 100]
    reps = 2 if q else 12
    for g in GROUPS:
        heavy = any(f.endswith("Start") or "FMT" in f for f in g)
        for cnt in counts:
            if heavy and cnt not in (16, 33, 64):
                continue
            for r in range(reps):
                step = 1
                if scale < 1:
                    step = max(2, int(round(1 / scale)))
                js.append({"unit": "c11:unit_overlap", "params": {"functions": g, "counts": [cnt], "delta_step": step, "chunk": r}})
    return js


def main(run):
    js = [dict(j, cfg="rel64") for j in jobs(run.tier)]
    if run.tier == "thorough":
        js += [dict(j, cfg="asan64") for j in jobs("quick")]
    run.run_jobs(js)
    return run.finish(
        rule="case = (function, length, dest-src offset, placement mode of auxiliary inputs, seed); run on disjoint exact blocks and on one "
             "exact-size arena, outputs and return code compared; non-trivial = at least one input shares octets with an output/state "
             "(class histogram shows which input overlapped which output); distinct = distinct case tuples",
        assumptions=["only functions whose header grants overlap are driven; inputs pairwise disjoint except memJoin",
                     "on a failed authenticated unwrap only the return code is compared"],
        required_classes=tuple(SPECS))
