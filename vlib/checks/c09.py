"""C09 — error contract: bad arguments and failed allocations yield errors, not damage.

Two halves:
 * argument contracts (c09_args.py, table transcribed from the headers' \\expect{ERR_...} clauses): each documented
   domain violation must give the documented error class, no crash, no unauthenticated plaintext/key in the output;
 * allocation-failure enumeration (this file): with the LD_PRELOADed interposer (drv/wrapalloc.c) on the Release
   build, for every valid call of the tables in secretcalls.py (functions taking a secret) and publiccalls.py (functions
   taking none) the k-th allocation made by bee2 fails, k = 1, 2, ... until the call completes without reaching the
   fault; each faulted call must return an error (not ERR_OK), must not crash (executed in a forked child, so a crash
   is observed, not suffered) and must leave no allocation behind.
"""
import importlib, random
from .. import wa as walib
from ..core import Harness
from . import secretcalls as sc
from . import publiccalls as pc

TABLES = {"secret": sc, "public": pc}
LEVEL = "fault_enumeration"
ERR_OK = 0


def _exec(lib, w, call, fail_at, canaries):
    v = call.v[0]
    ret, info = w.run(call.fn, v.args, fail_at)
    outs = [lib.rd(p, n) for p, n in v.outs]
    info = dict(info)
    info["snaps"] = len(info["snaps"])
    return {"ret": ret, "info": info, "outs": outs}


def unit_faults(ctx):
    lib, rng = ctx.lib, ctx.rng
    w = walib.WA(lib)
    P = ctx.params
    reported = set()
    depth = {}
    table = TABLES[P.get("table", "secret")]

    def viol(key, what, det):
        if key not in reported:
            reported.add(key)
            ctx.violation(key, what, det)

    for name in P["functions"]:
        for size in P["sizes"]:
            for rep in range(P["reps"]):
                s = rng.getrandbits(48)
                desc = {"fn": name, "size": size, "seed": s}
                r = random.Random(s)
                call = table.BUILDERS[name](lib, r, size)
                fn = name.split(":")[0]
                k = 0
                while True:
                    k += 1
                    if k > 64:
                        raise Harness("more than 64 allocations in one call of %s?" % name)
                    if not ctx.case(dict(desc, fail_at=k), fn):
                        continue
                    st, res = walib.in_child(lambda: _exec(lib, w, call, k, None))
                    if st != "ok":
                        viol("%s:alloc-fail:crash:%s" % (fn, st), "%s crashed when allocation #%d failed" % (name, k),
                             dict(desc, fail_at=k, status=str(res)))
                        continue
                    info = res["info"]
                    ctx.digest(res["ret"], info["nalloc"], info["live"])
                    if info.get("overruns"):
                        viol("%s:%s:heap-overrun-of-own-block" % (fn, "alloc-fail" if info["failed"] else "no-fault"),
                             "%s wrote past the end of a block it had allocated (%d octets requested)%s" %
                             (name, info.get("overrun_block_size", 0), " after allocation #%d failed" % k if info["failed"] else ""),
                             dict(desc, fail_at=k, info=info))
                    if not info["failed"]:
                        # the call completed without reaching allocation #k: enumeration finished
                        depth[name] = max(depth.get(name, 0), k - 1)
                        ok = res["ret"] == ERR_OK
                        if ok and not call.expect_ok:
                            # a builder whose input must be refused (spoiled tag, wrong password, refused certificate ...)
                            viol("%s:accepts-invalid:%s" % (fn, call.exit_class),
                                 "%s returned ERR_OK on an input that must be refused (%s)" % (name, call.exit_class), dict(desc, info=info))
                        elif ok != call.expect_ok:
                            raise Harness("%s returned %d without fault" % (name, res["ret"]))
                        if info["live"]:
                            viol("%s:leak:no-fault" % fn, "%s left %d block(s) (%d octets) allocated" % (name, info["live"], info["live_bytes"]),
                                 dict(desc, info=info))
                        break
                    ctx.classes["faulted-call"] += 1
                    if res["ret"] == ERR_OK:
                        viol("%s:alloc-fail:returns-ERR_OK" % fn, "%s returned ERR_OK although allocation #%d failed" % (name, k),
                             dict(desc, fail_at=k, info=info))
                    if info["live"]:
                        viol("%s:alloc-fail:leak" % fn, "%s left %d block(s) (%d octets) allocated after allocation #%d failed" %
                             (name, info["live"], info["live_bytes"], k), dict(desc, fail_at=k, info=info))
                lib.release()
    ctx.note("allocations_per_call", depth)


def fault_jobs(tier, scale=1.0):
    q = tier == "quick"
    js = []
    for tname, nlight, nheavy in (("secret", 6, 12), ("public", 2, 6)):
        tab = TABLES[tname]
        names = list(tab.BUILDERS)
        light = [n for n in names if n not in tab.HEAVY]
        heavy = [n for n in names if n in tab.HEAVY]
        extra = {"table": tname} if tname != "secret" else {}
        for i in range(nlight):
            if light[i::nlight]:
                js.append({"cfg": "rel64", "unit": "c09:unit_faults",
                           "params": dict({"functions": light[i::nlight], "sizes": [16, 40] if q else [1, 16, 17, 40, 100, 300],
                                           "reps": 3 if q else 40}, **extra)})
        for i in range(nheavy):
            if heavy[i::nheavy]:
                js.append({"cfg": "rel64", "unit": "c09:unit_faults",
                           "params": dict({"functions": heavy[i::nheavy], "sizes": [32], "reps": 2 if q else 24}, **extra)})
    return js


def main(run):
    so = walib.build_libwa()
    js = [dict(j, env={"LD_PRELOAD": so}) for j in fault_jobs(run.tier)]
    req = ["faulted-call"]
    try:
        args = importlib.import_module("vlib.checks.c09_args")
        js += [dict(j, cfg="asan64") for j in args.jobs(run.tier)]
        req += list(getattr(args, "REQUIRED_CLASSES", ()))
        run.coverage_extra["argument_contract_rows"] = getattr(args, "ROWS", None)
    except ImportError:
        run.coverage_extra["argument_contract_half"] = "not built yet"
    run.run_jobs(js)
    return run.finish(
        rule="fault half: case = (function, size, seed, index k of the failing allocation), k enumerated until the call completes without "
             "reaching the fault; argument half: case = (function, violated argument, value); distinct = distinct case tuples",
        assumptions=["allocation failure is injected at malloc/calloc/realloc calls issued from libbee2 (return address inside its text)",
                     "Release build for the fault half; ASan build with live ASSERTs for the argument half"],
        required_classes=tuple(req))
