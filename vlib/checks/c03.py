"""C03 — bash-f, bash hash family, bash-prg automaton, brng CTR/HMAC generators and
HOTP/TOTP/OCRA return what STB 34.101.77 / STB 34.101.47 (RFC 4226/6238/6287 as
profiled by botp.h) define; automaton decryption inverts encryption under the
same command history.

Oracles: vlib/ref/bash.py, brng.py, botp.py (each anchored on the appendix
vectors of the repository's tests by selftest()), plus the metamorphic
"mirrored automaton" for bash-prg.  Every unit generates its complete case list
from ctx.rng *before* the first library call, so the stream is identical in
every configuration and after a crash-restart.
"""
import os, random, re

from .. import build
from ..core import Harness
from ..ref import bash as rbash, brng as rbrng, botp as rbotp

LEVEL = "exploration"

M64 = (1 << 64) - 1
M256 = (1 << 256) - 1
TIME_ERR = -1


def err(name, _c={}):
    """ERR_* of the current tree (err.h writes them as _ERR_REG(n))"""
    if not _c:
        txt = open(os.path.join(build.REPO, "include/bee2/core/err.h"), encoding="utf-8", errors="replace").read()
        for m in re.finditer(r"#define\s+(ERR_\w+)\s+(?:_ERR_REG\(|\(\(err_t\))(\d+)\)", txt):
            _c[m.group(1)] = int(m.group(2))
        _c["ERR_OK"] = 0
    if name not in _c:
        raise Harness("err.h has no " + name)
    return _c[name]


def rb(rng, n):
    return rng.randbytes(n) if n > 0 else b""


def splits(rng, n, maxp=4):
    """piece lengths summing to n (zero-length pieces allowed); n == 0 may give [] = Start without Step"""
    if n == 0:
        return [0] * rng.randrange(0, 3)
    k = rng.randrange(1, maxp + 1)
    pts = [0] + sorted(rng.randrange(0, n + 1) for _ in range(k - 1)) + [n]
    return [pts[i + 1] - pts[i] for i in range(len(pts) - 1)]


def bump(d, k):
    d[k] = d.get(k, 0) + 1


# =============================================================================
# bash-f
# =============================================================================

BASHF_KINDS = ("random", "single-bit", "all-but-one-bit", "single-word", "byte-pattern", "chain")


def unit_bashf(ctx):
    lib, rng = ctx.lib, ctx.rng
    rbash.selftest(lib)
    H = lib.rd(lib.beltH(), 256)
    n = ctx.params["n"]
    cases = [("zero", bytes(192), 1), ("ones", b"\xff" * 192, 1), ("beltH", H[:192], 1), ("beltH", H[64:256], 1)]
    while len(cases) < n:
        kind = BASHF_KINDS[len(cases) % len(BASHF_KINDS)]
        steps = 1
        if kind == "random":
            st = rb(rng, 192)
        elif kind == "single-bit":
            st = (1 << rng.randrange(1536)).to_bytes(192, "little")
        elif kind == "all-but-one-bit":
            st = (((1 << 1536) - 1) ^ (1 << rng.randrange(1536))).to_bytes(192, "little")
        elif kind == "single-word":
            j = rng.randrange(24)
            st = bytes(8 * j) + rb(rng, 8) + bytes(184 - 8 * j)
        elif kind == "byte-pattern":
            st = bytes([rng.randrange(256)]) * 192
        else:
            st, steps = rb(rng, 192), 4
        cases.append((kind, st, steps))
    deep = lib.bashF_deep()
    for ci, (kind, st, steps) in enumerate(cases):
        # bash.h puts no alignment requirement on block: every case at one of the offsets 0, 1, 4, 8, 12 from a malloc'ed address
        # (the vector variants load it with unaligned instructions)
        off = (0, 1, 4, 8, 12)[ci % 5]
        if not ctx.case(["bashF", kind, st, steps, off], "bashF:" + kind):
            continue
        base, stack = lib.alloc(192 + off), lib.alloc(deep)
        block = base + off
        lib.wr(block, st)
        ctx.classes["bashF:block-offset-%d" % off] += 1
        exp = st
        for i in range(steps):
            lib.bashF(block, stack)
            exp = rbash.bash_f(exp)
            got = lib.rd(block, 192)
            ctx.digest(got)
            if got != exp:
                ctx.violation("bashF:value:output-differs", "bashF differs from the 24-round specification of bash-f",
                              {"kind": kind, "input": st, "iteration": i + 1, "expected": exp, "got": got})
                break
        lib.release()


# =============================================================================
# bash hash family
# =============================================================================

HASH_LENCLS = ("0", "1", "r-1", "r", "r+1", "2r-1", "2r", "2r+1", "rnd")


def _hash_len(rng, cls, r):
    if cls == "rnd":
        return rng.randrange(2, 3 * r + 9)
    return {"0": 0, "1": 1, "r-1": r - 1, "r": r, "r+1": r + 1, "2r-1": 2 * r - 1, "2r": 2 * r, "2r+1": 2 * r + 1}[cls]


def _hash_data(rng, n):
    pat = rng.choice(("rnd", "rnd", "rnd", "zeros", "ones", "padlike"))
    if pat == "zeros":
        return bytes(n)
    if pat == "ones":
        return b"\xff" * n
    d = rb(rng, n)
    if pat == "padlike" and n:
        k = rng.randrange(n)            # data that ends like the padding: ... 40 00 .. 00
        d = d[:k] + b"\x40" + bytes(n - k - 1)
    return d


def unit_hash(ctx):
    lib, rng = ctx.lib, ctx.rng
    rbash.selftest(lib)
    cases = []
    for rep in range(ctx.params["reps"]):
        for l in ctx.params["levels"]:
            r = rbash.hash_rate(l)
            for cls in HASH_LENCLS:
                for mode in ("oneshot", "steps"):
                    n = _hash_len(rng, cls, r)
                    c = {"op": "bashHash", "l": l, "len": cls, "mode": mode, "data": _hash_data(rng, n)}
                    if mode == "steps":
                        c["split"] = splits(rng, n)
                        c["glen"] = rng.choice((l // 4, l // 4, rng.randrange(0, l // 4 + 1)))
                        c["flip"] = rng.randrange(max(1, 8 * c["glen"]))
                        c["extra"] = rb(rng, rng.choice((0, 1, r - 1, r, rng.randrange(0, 2 * r + 2))))
                        c["split2"] = splits(rng, len(c["extra"]))
                    cases.append(c)
    keep = lib.bashHash_keep()
    for c in cases:
        l, data, cls = c["l"], c["data"], c["len"]
        if not ctx.case(c, "hash:%s:len=%s" % (c["mode"], cls)):
            continue
        exp = rbash.bash_hash(l, data)
        if c["mode"] == "oneshot":
            out, src = lib.alloc(l // 4), lib.mk(data)
            rc = lib.bashHash(out, l, src, len(data))
            got = lib.rd(out, l // 4)
            ctx.digest(rc, got)
            if rc != 0:
                ctx.violation("bashHash:ret:error-on-valid-input", "bashHash returned an error for a valid level",
                              {"l": l, "len": len(data), "ret": rc})
            elif got != exp:
                ctx.violation("bashHash:value:len=" + cls, "bashHash differs from bash-hash of STB 34.101.77",
                              {"l": l, "data": data, "expected": exp, "got": got})
        else:
            st = lib.alloc(keep)
            lib.bashHashStart(st, l)
            off = 0
            for k in c["split"]:
                lib.bashHashStepH(lib.mk(data[off:off + k]), k, st)
                off += k
            g = c["glen"]
            out = lib.alloc(g)
            lib.bashHashStepG(out, g, st)
            got = lib.rd(out, g)
            ok1 = lib.bashHashStepV(lib.mk(exp[:g]), g, st)
            ok2 = None
            if g:
                bad = bytearray(exp[:g])
                bad[c["flip"] // 8] ^= 1 << (c["flip"] % 8)
                ok2 = lib.bashHashStepV(lib.mk(bytes(bad)), g, st)
            # hashing may continue after StepG / StepV: (StepH* < StepG)*
            off = 0
            for k in c["split2"]:
                lib.bashHashStepH(lib.mk(c["extra"][off:off + k]), k, st)
                off += k
            out2 = lib.alloc(l // 4)
            lib.bashHashStepG(out2, l // 4, st)
            got2 = lib.rd(out2, l // 4)
            exp2 = rbash.bash_hash(l, data + c["extra"])
            ctx.digest(got, bool(ok1), ok2 if ok2 is None else bool(ok2), got2)
            if got != exp[:g]:
                ctx.violation("bashHashStepG:value:len=" + cls, "Start/StepH/StepG differs from bash-hash",
                              {"l": l, "data": data, "split": c["split"], "hash_len": g, "expected": exp[:g], "got": got})
            if not ok1:
                ctx.violation("bashHashStepV:verdict:rejects-correct-hash", "StepV rejected the correct hash prefix",
                              {"l": l, "len": len(data), "hash_len": g})
            if ok2:
                ctx.violation("bashHashStepV:verdict:accepts-wrong-hash", "StepV accepted a hash with one flipped bit",
                              {"l": l, "len": len(data), "hash_len": g, "flipped_bit": c["flip"]})
            if got2 != exp2:
                ctx.violation("bashHashStepG:value:continued-after-StepG", "hashing continued after StepG differs from the "
                              "hash of the concatenation", {"l": l, "data": data, "extra": c["extra"],
                                                            "expected": exp2, "got": got2})
        lib.release()


# =============================================================================
# bash-prg: command scripts
# =============================================================================

PRG_LENCLS = ("0", "1", "r-1", "r", "r+1", "2r", "rnd")
PRG_FEATS = [(c, k) for c in ("absorb", "squeeze", "encrypt", "decrypt") for k in PRG_LENCLS] + \
            [("restart", "key"), ("restart", "nokey"), ("ratchet", "-")]
PRG_CFGS = [(l, d, k) for l in (128, 192, 256) for d in (1, 2) for k in (0, 1)]
PRG_FN = {"absorb": "Absorb", "squeeze": "Squeeze", "encrypt": "Encr", "decrypt": "Decr"}


def _prg_len(rng, cls, r):
    if cls == "rnd":
        return rng.randrange(2, 3 * r + 9)
    return {"0": 0, "1": 1, "r-1": r - 1, "r": r, "r+1": r + 1, "2r": 2 * r}[cls]


def _len4(rng, lo):
    """a multiple of 4 in [lo, 60]; the documented extremes (lo and 60) every third draw"""
    r = rng.randrange(6)
    if r == 0:
        return 60
    if r == 1:
        return lo
    return rng.randrange(lo, 61, 4)


def gen_script(rng, feat, cfg):
    """1..12 commands, command number fpos is the featured (command, length class); the header's
    preconditions are kept: encrypt/decrypt only in the keyed mode (a keyed restart is inserted when
    needed), |ann|, |key| multiples of 4 up to 60, key empty or >= l/8 octets."""
    l, d, keyed = cfg
    ann = rb(rng, _len4(rng, 0))
    key = rb(rng, _len4(rng, l // 8)) if keyed else b""
    need_key = feat[0] in ("encrypt", "decrypt")
    ncmd = rng.randrange(1, 12 if (need_key and not keyed) else 13)
    fpos = rng.randrange(ncmd)
    kd = [bool(keyed)]
    cmds = []

    def restart(with_key):
        a = rb(rng, _len4(rng, 0))
        k = rb(rng, _len4(rng, l // 8)) if with_key else b""
        if with_key:
            kd[0] = True
        return ["restart", a, k]

    def data_cmd(c, cls):
        r = rbash.prg_rate(l, d, kd[0])
        n = _prg_len(rng, cls, r)
        sa = splits(rng, n) if rng.random() < 0.5 else None
        sb = None if (sa is not None and rng.random() < 0.7) else splits(rng, n)
        return [c, n if c == "squeeze" else rb(rng, n), cls, sa, sb]

    for i in range(ncmd):
        if i == fpos:
            c, k = feat
        else:
            c = rng.choice(("restart", "ratchet", "absorb", "squeeze", "absorb", "squeeze") +
                           (("encrypt", "decrypt", "encrypt", "decrypt") if kd[0] else ()))
            k = None
        if c in ("encrypt", "decrypt") and not kd[0]:
            cmds.append(restart(True))
        if c == "restart":
            cmds.append(restart((k == "key") if k else rng.random() < 0.4))
        elif c == "ratchet":
            cmds.append(["ratchet"])
        else:
            cmds.append(data_cmd(c, k or rng.choice(PRG_LENCLS)))
    return {"op": "bashPrg", "l": l, "d": d, "ann": ann, "key": key, "cmds": cmds}


def _prg_io(lib, st, cmd, data, sp):
    """one data command on automaton st; data = bytes (absorb/encrypt/decrypt) or int (squeeze);
    sp None = one-shot function, list = Start + one Step per piece.  Every piece is its own exact-size buffer."""
    fn = PRG_FN[cmd]
    n = data if cmd == "squeeze" else len(data)

    def buf(off, k):
        return lib.alloc(k) if cmd == "squeeze" else lib.mk(data[off:off + k])

    if sp is None:
        p = buf(0, n)
        getattr(lib, "bashPrg" + fn)(p, n, st)
        return lib.rd(p, n)
    getattr(lib, "bashPrg%sStart" % fn)(st)
    step = getattr(lib, "bashPrg%sStep" % fn)
    out, off = b"", 0
    for k in sp:
        p = buf(off, k)
        step(p, k, st)
        out += lib.rd(p, k)
        off += k
    return out


def run_script(ctx, sc, hist):
    lib = ctx.lib
    l, d, ann, key = sc["l"], sc["d"], sc["ann"], sc["key"]
    keep = lib.bashPrg_keep()
    A, B = lib.alloc(keep), lib.alloc(keep)
    for st in (A, B):
        lib.bashPrgStart(st, l, d, lib.mk(ann), len(ann), lib.mk(key), len(key))
    M = rbash.Prg(l, d, ann, key)
    base = {"l": l, "d": d, "ann": ann, "key": key}

    def viol(key_, what, i, **kw):
        det = dict(base)
        det.update({"commands_before": [_brief(c) for c in sc["cmds"][:i]], "command": _brief(sc["cmds"][i]) if i < len(sc["cmds"]) else "final squeeze(32)"})
        det.update(kw)
        ctx.violation(key_, what, det)

    for i, cmd in enumerate(sc["cmds"]):
        name = cmd[0]
        bump(hist, "%s:%s" % (name, cmd[2] if len(cmd) > 3 else ("key" if name == "restart" and cmd[2] else "-")))
        bump(hist, "mode:keyed" if M.keyed else "mode:keyless")
        if name == "restart":
            for st in (A, B):
                lib.bashPrgRestart(lib.mk(cmd[1]), len(cmd[1]), lib.mk(cmd[2]), len(cmd[2]), st)
            M.restart(cmd[1], cmd[2])
            continue
        if name == "ratchet":
            lib.bashPrgRatchet(A)
            lib.bashPrgRatchet(B)
            M.ratchet()
            continue
        data, cls, sa, sb = cmd[1], cmd[2], cmd[3], cmd[4]
        if name == "absorb":
            ga = _prg_io(lib, A, name, data, sa)
            _prg_io(lib, B, name, data, sb)
            M.absorb(data)
            if ga != data:
                viol("bashPrgAbsorb:value:input-buffer-modified", "absorb changed its const input", i)
                return
        elif name == "squeeze":
            ga = _prg_io(lib, A, name, data, sa)
            gb = _prg_io(lib, B, name, data, sb)
            exp = M.squeeze(data)
            ctx.digest(ga, gb)
            if ga != exp:
                viol("bashPrgSqueeze:value:model-differs", "squeeze output differs from the automaton of STB 34.101.77 8",
                     i, expected=exp, got=ga, buf_len=M.r)
                return
            if gb != ga:
                viol("bashPrgSqueeze:chunking:mirror-differs", "same history, different chunking, different output", i,
                     got_a=ga, got_b=gb)
                return
        else:
            inv = "decrypt" if name == "encrypt" else "encrypt"
            ga = _prg_io(lib, A, name, data, sa)
            exp = M.encrypt(data) if name == "encrypt" else M.decrypt(data)
            back = _prg_io(lib, B, inv, ga, sb)
            ctx.digest(ga, back)
            if ga != exp:
                viol("bashPrg%s:value:model-differs" % PRG_FN[name], "%s output differs from the automaton of STB 34.101.77 8" % name,
                     i, expected=exp, got=ga, buf_len=M.r)
                return
            if back != data:
                viol("bashPrg%s:inverse:mirror-does-not-invert" % PRG_FN[inv],
                     "%s under the same command history does not invert %s" % (inv, name), i, data=data, forward=ga, back=back)
                return
    # probe of the final state (absorb / restart / ratchet have no output of their own)
    fa, fb = _prg_io(lib, A, "squeeze", 32, None), _prg_io(lib, B, "squeeze", 32, None)
    fm = M.squeeze(32)
    ctx.digest(fa, fb)
    if fa != fm:
        last = [c[0] for c in sc["cmds"] if c[0] in ("absorb", "restart", "ratchet")]
        viol("bashPrg:state:final-squeeze-differs", "state after the script differs from the model (seen by squeeze(32))",
             len(sc["cmds"]), expected=fm, got=fa, silent_commands=last)
    elif fb != fa:
        viol("bashPrg:state:mirror-final-squeeze-differs", "mirrored automaton ends in a different state", len(sc["cmds"]),
             got_a=fa, got_b=fb)


def _brief(c):
    if c[0] in ("restart",):
        return ["restart", c[1], c[2]]
    if c[0] == "ratchet":
        return c
    return [c[0], c[1], "len=" + c[2], c[3], c[4]]


def unit_prg(ctx):
    lib, rng = ctx.lib, ctx.rng
    rbash.selftest(lib)
    chunk, rounds = ctx.params["chunk"], ctx.params["rounds"]
    scripts = []
    for rnd in range(rounds):
        for fi, feat in enumerate(PRG_FEATS):
            cfg = PRG_CFGS[(fi + rnd + 5 * chunk) % len(PRG_CFGS)]
            scripts.append((feat, cfg, gen_script(rng, feat, cfg)))
    hist, cfgs = {}, {}
    for feat, cfg, sc in scripts:
        if not ctx.case(sc, "prg:%s:%s" % feat):
            continue
        bump(cfgs, "l=%d,d=%d,%s" % (cfg[0], cfg[1], "keyed" if cfg[2] else "keyless"))
        bump(hist, "ncmd=%d" % len(sc["cmds"]))
        run_script(ctx, sc, hist)
        lib.release()
    ctx.note("prg_commands_executed", hist)
    ctx.note("prg_start_configurations", cfgs)


# =============================================================================
# brng CTR
# =============================================================================

CTR_IVCLS = ("null", "zero", "one", "2^32-1", "2^64-1", "2^128-1", "2^192-1", "2^256-1", "2^256-2", "2^256-3", "random")


def _ctr_iv(rng, cls):
    if cls == "null":
        return None
    if cls == "random":
        return rng.getrandbits(256)
    if cls in ("zero", "one"):
        return 0 if cls == "zero" else 1
    m = re.match(r"2\^(\d+)-(\d)", cls)
    k, c = int(m.group(1)), int(m.group(2))
    v = (1 << k) - c
    if k < 256 and rng.random() < 0.5:
        v |= rng.getrandbits(256 - k) << k       # carry lands in a non-zero word
    return v


def unit_ctr(ctx):
    lib, rng = ctx.lib, ctx.rng
    rbrng.selftest(lib)
    h = rbrng.lib_hash(lib)
    chunk, nchunks = ctx.params["chunk"], ctx.params["nchunks"]
    cases = []
    for rep in range(ctx.params["reps"]):
        for ivc in CTR_IVCLS:
            for nb in (1, 2, 3, 4, 5):
                for fill in ("zero", "ff", "rnd"):
                    for ragged in (0, 1):
                        for api in ("rand", "steps"):
                            if ivc == "null" and api == "rand":
                                continue
                            count = 32 * nb if not ragged else 32 * (nb - 1) + rng.randrange(1, 32)
                            prior = {"zero": bytes(count), "ff": b"\xff" * count}.get(fill) if fill != "rnd" else rb(rng, count)
                            iv = _ctr_iv(rng, ivc)
                            c = {"op": "brngCTR", "api": api, "ivclass": ivc, "iv": None if iv is None else iv.to_bytes(32, "little"),
                                 "key": rb(rng, 32), "blocks": nb, "fill": fill, "ragged": ragged, "prior": prior}
                            if api == "steps":
                                c["split"] = splits(rng, count, 5)
                                c["g_at"] = rng.randrange(len(c["split"]))
                            cases.append(c)
    cases = cases[chunk::nchunks]
    keep = lib.brngCTR_keep()
    dims = {}
    for c in cases:
        if not ctx.case(c, "ctr:iv=" + c["ivclass"]):
            continue
        bump(dims, "api=" + c["api"]); bump(dims, "fill=" + c["fill"]); bump(dims, "ragged=%d" % c["ragged"]); bump(dims, "blocks=%d" % c["blocks"])
        prior, key, iv = c["prior"], c["key"], c["iv"]
        g = rbrng.CTR(h, key, iv)
        mid_ok = True
        if c["api"] == "rand":
            buf, ivp = lib.mk(prior), lib.mk(iv)
            rc = lib.brngCTRRand(buf, len(prior), lib.mk(key), ivp)
            got, giv = lib.rd(buf, len(prior)), lib.rd(ivp, 32)
            exp, eiv = g.step(prior), g.iv()
            ctx.digest(rc, got, giv)
            if rc != 0:
                ctx.violation("brngCTRRand:ret:error-on-valid-input", "brngCTRRand failed", {"ret": rc})
                lib.release()
                continue
        else:
            st = lib.alloc(keep)
            lib.brngCTRStart(st, lib.mk(key), lib.mk(iv) if iv is not None else 0)
            got, exp, off = b"", b"", 0
            for i, k in enumerate(c["split"]):
                p = lib.mk(prior[off:off + k])
                lib.brngCTRStepR(p, k, st)
                got += lib.rd(p, k)
                exp += g.step(prior[off:off + k])
                off += k
                if i == c["g_at"]:
                    ivb = lib.alloc(32)
                    lib.brngCTRStepG(ivb, st)
                    mid = lib.rd(ivb, 32)
                    ctx.digest(mid)
                    mid_ok = mid == g.iv()
            ivb = lib.alloc(32)
            lib.brngCTRStepG(ivb, st)
            giv, eiv = lib.rd(ivb, 32), g.iv()
            ctx.digest(got, giv)
        sig = "counter-wrap-256" if g.wrapped else "iv=" + c["ivclass"]
        det = {"api": c["api"], "key": key, "iv": iv, "prior_buffer(X)": prior, "split": c.get("split"),
               "counter_wrapped_2^256": g.wrapped}
        if got != exp:
            first = next(i for i in range(len(exp)) if got[i] != exp[i])
            ctx.violation("brngCTR:value:" + sig, "brng-ctr output differs from STB 34.101.47 6.2.4 "
                          "(Y = h(K||s||X||r), s <- s + 1 mod 2^256, r <- r xor Y)",
                          dict(det, expected=exp, got=got, first_differing_octet=first))
        if giv != eiv or not mid_ok:
            ctx.violation("brngCTR:iv:" + sig, "synchro value returned by StepG / brngCTRRand is not the counter s",
                          dict(det, expected_iv=eiv, got_iv=giv, intermediate_ok=mid_ok))
        lib.release()
    ctx.note("ctr_dimensions", dims)


# =============================================================================
# brng HMAC
# =============================================================================

HMAC_IVLENS = (0, 1, 31, 32, 63, 64, 65, 200)


def unit_hmacgen(ctx):
    lib, rng = ctx.lib, ctx.rng
    rbrng.selftest(lib)
    hmac = rbrng.lib_hmac(lib)
    cases = []
    for klen in ctx.params["keylens"] * ctx.params.get("reps", 1):
        for ivlen in HMAC_IVLENS:
            for api in ("rand", "steps"):
                nb = rng.randrange(1, 6)
                count = 32 * nb if rng.random() < 0.4 else 32 * (nb - 1) + rng.randrange(1, 32)
                c = {"op": "brngHMAC", "api": api, "key": rb(rng, klen), "iv": rb(rng, ivlen), "count": count}
                if api == "steps":
                    c["split"] = splits(rng, count, 5)
                cases.append(c)
    keep = lib.brngHMAC_keep()
    for c in cases:
        key, iv, count = c["key"], c["iv"], c["count"]
        if not ctx.case(c, "hmacgen:ivlen=%d" % len(iv)):
            continue
        ctx.classes["hmacgen:keylen=%s" % ("0" if not key else "1..31" if len(key) < 32 else "32" if len(key) == 32
                                             else "33..64" if len(key) <= 64 else ">64")] += 1
        exp = rbrng.hmac_rand(hmac, key, iv, count)
        if c["api"] == "rand":
            buf = lib.alloc(count)
            rc = lib.brngHMACRand(buf, count, lib.mk(key), len(key), lib.mk(iv), len(iv))
            got = lib.rd(buf, count)
            ctx.digest(rc, got)
            if rc != 0:
                ctx.violation("brngHMACRand:ret:error-on-valid-input", "brngHMACRand failed", {"ret": rc})
                lib.release()
                continue
        else:
            st = lib.alloc(keep)
            ivp = lib.mk(iv)                    # stays valid until the end of the case (required for iv_len > 64)
            lib.brngHMACStart(st, lib.mk(key), len(key), ivp, len(iv))
            got = b""
            for k in c["split"]:
                p = lib.alloc(k)
                lib.brngHMACStepR(p, k, st)
                got += lib.rd(p, k)
            ctx.digest(got)
        if got != exp:
            ctx.violation("brngHMAC:value:%s" % ("iv<=64" if len(iv) <= 64 else "iv>64"),
                          "brng-hmac output differs from STB 34.101.47 6.3.4",
                          {"api": c["api"], "key": key, "iv": iv, "split": c.get("split"), "expected": exp, "got": got})
        lib.release()


# =============================================================================
# botp: dynamic truncation, counter
# =============================================================================

def unit_dt(ctx):
    lib, rng = ctx.lib, ctx.rng
    rbotp.selftest(lib)
    cases = []
    for rep in range(ctx.params["reps"]):
        for off in range(16):
            for digit in range(4, 10):
                for mlen in (20, 32, 64, rng.randrange(21, 64)):
                    for kind in ("random", "high-bit", "small", "max", "zero"):
                        mac = bytearray(rb(rng, mlen))
                        mac[-1] = (mac[-1] & 0xF0) | off
                        w = {"random": rng.getrandbits(32), "high-bit": rng.getrandbits(32) | 0x80000000,
                             "small": rng.randrange(10 ** rng.randrange(0, digit)), "max": rng.choice((0x7FFFFFFF, 0xFFFFFFFF)),
                             "zero": rng.choice((0, 0x80000000))}[kind]
                        if off + 4 < mlen:      # the window must not include the last octet (it carries the offset)
                            mac[off:off + 4] = w.to_bytes(4, "big")
                        elif kind != "random":
                            continue
                        cases.append({"op": "botpDT", "digit": digit, "mac": bytes(mac), "window": kind, "offset": off})
    ctrs = [0, 1, 0xFF, 0xFFFF, 0xFFFFFF, 2 ** 32 - 1, 2 ** 32, 2 ** 40 - 1, 2 ** 48 - 1, 2 ** 56 - 1, 2 ** 63 - 1, 2 ** 63,
            2 ** 64 - 2, 2 ** 64 - 1, 0xFF00FF00FF00FFFF, 0x00FFFFFFFFFFFFFF] + [rng.getrandbits(64) for _ in range(16)]
    for c in cases:
        digit, mac = c["digit"], c["mac"]
        if not ctx.case(c, "dt:offset=%d" % c["offset"]):
            continue
        ctx.classes["dt:digit=%d" % digit] += 1
        ctx.classes["dt:window=" + c["window"]] += 1
        otp = lib.alloc(digit + 1)
        lib.botpDT(otp, digit, lib.mk(mac), len(mac))
        got = lib.rd(otp, digit + 1)
        exp = rbotp.dt(mac, digit).encode() + b"\0"
        ctx.digest(got)
        if got != exp:
            key = ("not-nul-terminated" if got[-1:] != b"\0" else "leading-zeros" if exp[:1] == b"0" else "digits")
            ctx.violation("botpDT:value:" + key, "botpDT differs from RFC 4226 dynamic truncation / decimal formatting",
                          {"digit": digit, "mac": mac, "expected": exp, "got": got})
        lib.release()
    for v in ctrs:
        cls = "wrap-64" if v == M64 else "carry" if v & 0xFF == 0xFF else "plain"
        if not ctx.case({"op": "botpCtrNext", "ctr": v.to_bytes(8, "big")}, "ctrnext:" + cls):
            continue
        p = lib.mk(v.to_bytes(8, "big"))
        lib.botpCtrNext(p)
        got = lib.rd(p, 8)
        ctx.digest(got)
        if got != rbotp.ctr_next(v.to_bytes(8, "big")):
            ctx.violation("botpCtrNext:value:" + cls, "big-endian increment mod 2^64 is wrong",
                          {"ctr": v.to_bytes(8, "big"), "got": got})
        lib.release()


# =============================================================================
# HOTP / TOTP
# =============================================================================

CTR_CLS = ("0", "2^32-1", "2^64-2", "2^64-1", "carry-8", "carry-56", "random")


def _ctr_val(rng, cls):
    return {"0": 0, "2^32-1": 2 ** 32 - 1, "2^64-2": M64 - 1, "2^64-1": M64, "carry-8": (rng.getrandbits(56) << 8) | 0xFF,
            "carry-56": (rng.getrandbits(8) << 56) | (2 ** 56 - 1), "random": rng.getrandbits(64)}[cls]


def _keylen(rng):
    return rng.choice((0, 1, 16, 31, 32, 32, 32, 33, 64, 65, rng.randrange(0, 129)))


def _wrong(rng, otp):
    """another string of decimal digits of the same length"""
    i = rng.randrange(len(otp))
    return otp[:i] + str((int(otp[i]) + rng.randrange(1, 10)) % 10) + otp[i + 1:]


T_CLS = ("0", "1", "step30", "step60", "2^31-1", "2^31", "2^32-1", "2^32", "2^63-1", "random")


def _time_val(rng, cls):
    """rounded time stamp (t - t0) / ts the caller hands to botp; for the step classes three raw
    times around a step boundary are drawn and rounded here (tmTimeRound reads the clock and cannot be driven)"""
    if cls.startswith("step"):
        ts = int(cls[4:])
        k = rng.randrange(1, 2 ** 31 // ts)
        raw = rng.choice((k * ts - 1, k * ts, k * ts + 1, k * ts + ts - 1))
        return raw // ts
    return {"0": 0, "1": 1, "2^31-1": 2 ** 31 - 1, "2^31": 2 ** 31, "2^32-1": 2 ** 32 - 1, "2^32": 2 ** 32,
            "2^63-1": 2 ** 63 - 1}.get(cls) if cls != "random" else rng.getrandbits(rng.randrange(1, 63))


def _otp(lib, p, digit):
    return lib.rd(p, digit + 1)


def _z(s):
    return s.encode() + b"\0"


def unit_hotp(ctx):
    lib, rng = ctx.lib, ctx.rng
    rbotp.selftest(lib)
    hmac = rbrng.lib_hmac(lib)
    cases = []
    for rep in range(ctx.params["reps"]):
        for digit in (6, 7, 8):
            for cc in CTR_CLS:
                for api in ("rand", "steps"):
                    cases.append({"op": "HOTP", "api": api, "digit": digit, "ctrclass": cc, "ctr": _ctr_val(rng, cc).to_bytes(8, "big"),
                                  "key": rb(rng, _keylen(rng)), "w": rng.getrandbits(32)})
            for tc in T_CLS:
                for api in ("rand", "steps"):
                    cases.append({"op": "TOTP", "api": api, "digit": digit, "tclass": tc, "t": _time_val(rng, tc),
                                  "key": rb(rng, _keylen(rng)), "w": rng.getrandbits(32)})
        for digit in (0, 4, 5, 9, 10):
            cases.append({"op": "HOTP", "api": "bad-digit", "digit": digit, "ctr": rb(rng, 8), "key": rb(rng, 32)})
            cases.append({"op": "TOTP", "api": "bad-digit", "digit": digit, "t": rng.getrandbits(40), "key": rb(rng, 32)})
        cases.append({"op": "TOTP", "api": "bad-time", "digit": 6, "t": TIME_ERR, "key": rb(rng, 32)})
    for c in cases:
        op, api, digit, key = c["op"], c["api"], c["digit"], c["key"]
        cls = "%s:%s" % (op.lower(), api if api.startswith("bad") else ("ctr=" + c["ctrclass"] if op == "HOTP" else "t=" + c["tclass"]))
        if not ctx.case(c, cls):
            continue
        wr = random.Random(c.get("w", 0))
        if api == "bad-digit":
            otp = lib.alloc(digit + 1)
            if op == "HOTP":
                rc = lib.botpHOTPRand(otp, digit, lib.mk(key), len(key), lib.mk(c["ctr"]))
            else:
                rc = lib.botpTOTPRand(otp, digit, lib.mk(key), len(key), c["t"])
            # Verify takes the digit count from the string: lengths outside 6..8 are ERR_BAD_PWD
            s = "1" * digit
            if op == "HOTP":
                rc2 = lib.botpHOTPVerify(lib.cstr(s), lib.mk(key), len(key), lib.mk(c["ctr"]))
            else:
                rc2 = lib.botpTOTPVerify(lib.cstr(s), lib.mk(key), len(key), c["t"])
            ctx.digest(rc, rc2)
            if rc != err("ERR_BAD_PARAMS"):
                ctx.violation("botp%sRand:ret:digit-out-of-6..8" % op, "documented ERR_BAD_PARAMS not returned", {"digit": digit, "ret": rc})
            if rc2 != err("ERR_BAD_PWD"):
                ctx.violation("botp%sVerify:ret:digit-out-of-6..8" % op, "documented ERR_BAD_PWD not returned", {"digit": digit, "ret": rc2})
            lib.release()
            continue
        if api == "bad-time":
            rc = lib.botpTOTPRand(lib.alloc(digit + 1), digit, lib.mk(key), len(key), TIME_ERR)
            rc2 = lib.botpTOTPVerify(lib.cstr("123456"), lib.mk(key), len(key), TIME_ERR)
            ctx.digest(rc, rc2)
            if rc != err("ERR_BAD_TIME") or rc2 != err("ERR_BAD_TIME"):
                ctx.violation("botpTOTP:ret:TIME_ERR", "documented ERR_BAD_TIME not returned", {"rand": rc, "verify": rc2})
            lib.release()
            continue
        if op == "HOTP":
            ctr = c["ctr"]
            if api == "rand":
                otp, cp = lib.alloc(digit + 1), lib.mk(ctr)
                rc = lib.botpHOTPRand(otp, digit, lib.mk(key), len(key), cp)
                got = _otp(lib, otp, digit)
                exp, mac = rbotp.hotp(hmac, key, ctr, digit)
                r1 = lib.botpHOTPVerify(lib.mk(_z(exp)), lib.mk(key), len(key), lib.mk(ctr))
                r2 = lib.botpHOTPVerify(lib.mk(_z(_wrong(wr, exp))), lib.mk(key), len(key), lib.mk(ctr))
                ctx.digest(rc, got, r1, r2)
                if rc != 0 or got != _z(exp):
                    ctx.violation("botpHOTPRand:value:ctr=" + c["ctrclass"], "HOTP password differs from RFC 4226 over HMAC[belt-hash]",
                                  {"digit": digit, "key": key, "ctr": ctr, "mac": mac, "expected": exp, "got": got, "ret": rc})
                if r1 != 0:
                    ctx.violation("botpHOTPVerify:verdict:rejects-correct", "correct password rejected", {"digit": digit, "key": key, "ctr": ctr, "ret": r1})
                if r2 != err("ERR_BAD_PWD"):
                    ctx.violation("botpHOTPVerify:verdict:accepts-wrong", "wrong password not rejected with ERR_BAD_PWD", {"digit": digit, "key": key, "ctr": ctr, "ret": r2})
            else:
                st = lib.alloc(lib.botpHOTP_keep())
                lib.botpHOTPStart(st, digit, lib.mk(key), len(key))
                lib.botpHOTPStepS(st, lib.mk(ctr))
                cur = ctr
                for i in range(3):
                    otp, cb = lib.alloc(digit + 1), lib.alloc(8)
                    lib.botpHOTPStepR(otp, st)
                    lib.botpHOTPStepG(cb, st)
                    got, gc = _otp(lib, otp, digit), lib.rd(cb, 8)
                    exp, mac = rbotp.hotp(hmac, key, cur, digit)
                    ctx.digest(got, gc)
                    if got != _z(exp):
                        ctx.violation("botpHOTPStepR:value:ctr=" + c["ctrclass"], "HOTP password differs from RFC 4226 over HMAC[belt-hash]",
                                      {"digit": digit, "key": key, "ctr": cur, "mac": mac, "expected": exp, "got": got})
                    nxt = rbotp.ctr_next(cur)
                    if gc != nxt:
                        ctx.violation("botpHOTPStepR:counter:" + ("wrap-64" if cur == b"\xff" * 8 else "increment"),
                                      "counter after StepR is not ctr + 1 mod 2^64", {"ctr": cur, "got": gc})
                    cur = nxt
                exp, _ = rbotp.hotp(hmac, key, cur, digit)
                cb = lib.alloc(8)
                v0 = lib.botpHOTPStepV(lib.mk(_z(_wrong(wr, exp))), st)
                lib.botpHOTPStepG(cb, st)
                c0 = lib.rd(cb, 8)
                v1 = lib.botpHOTPStepV(lib.mk(_z(exp)), st)
                lib.botpHOTPStepG(cb, st)
                c1 = lib.rd(cb, 8)
                ctx.digest(bool(v0), c0, bool(v1), c1)
                if v0 or c0 != cur:
                    ctx.violation("botpHOTPStepV:verdict:wrong-password", "wrong password accepted or counter moved",
                                  {"accepted": bool(v0), "ctr": cur, "ctr_after": c0})
                if not v1 or c1 != rbotp.ctr_next(cur):
                    ctx.violation("botpHOTPStepV:verdict:correct-password", "correct password rejected or counter not incremented",
                                  {"accepted": bool(v1), "ctr": cur, "ctr_after": c1, "otp": exp})
        else:
            t = c["t"]
            exp, mac = rbotp.totp(hmac, key, t, digit)
            if api == "rand":
                otp = lib.alloc(digit + 1)
                rc = lib.botpTOTPRand(otp, digit, lib.mk(key), len(key), t)
                got = _otp(lib, otp, digit)
                r1 = lib.botpTOTPVerify(lib.mk(_z(exp)), lib.mk(key), len(key), t)
                r2 = lib.botpTOTPVerify(lib.mk(_z(_wrong(wr, exp))), lib.mk(key), len(key), t)
                ctx.digest(rc, got, r1, r2)
                if rc != 0 or got != _z(exp):
                    ctx.violation("botpTOTPRand:value:t=" + c["tclass"], "TOTP password differs from RFC 6238 over HMAC[belt-hash]",
                                  {"digit": digit, "key": key, "t": t, "mac": mac, "expected": exp, "got": got, "ret": rc})
                if r1 != 0 or r2 != err("ERR_BAD_PWD"):
                    ctx.violation("botpTOTPVerify:verdict:wrong", "Verify: correct -> %d, wrong -> %d" % (r1, r2), {"digit": digit, "key": key, "t": t})
            else:
                st = lib.alloc(lib.botpTOTP_keep())
                lib.botpTOTPStart(st, digit, lib.mk(key), len(key))
                otp = lib.alloc(digit + 1)
                lib.botpTOTPStepR(otp, t, st)
                got = _otp(lib, otp, digit)
                v1 = lib.botpTOTPStepV(lib.mk(_z(exp)), t, st)
                v0 = lib.botpTOTPStepV(lib.mk(_z(_wrong(wr, exp))), t, st)
                t2 = t + 1 if t < 2 ** 63 - 1 else t - 1     # the same state serves further time stamps
                otp2 = lib.alloc(digit + 1)
                lib.botpTOTPStepR(otp2, t2, st)
                got2 = _otp(lib, otp2, digit)
                exp2, _ = rbotp.totp(hmac, key, t2, digit)
                ctx.digest(got, bool(v1), bool(v0), got2)
                if got != _z(exp) or got2 != _z(exp2):
                    ctx.violation("botpTOTPStepR:value:t=" + c["tclass"], "TOTP password differs from RFC 6238 over HMAC[belt-hash]",
                                  {"digit": digit, "key": key, "t": t, "expected": [exp, exp2], "got": [got, got2]})
                if not v1 or v0:
                    ctx.violation("botpTOTPStepV:verdict:wrong", "StepV: correct -> %d, wrong -> %d" % (v1, v0), {"digit": digit, "key": key, "t": t})
        lib.release()


# =============================================================================
# OCRA
# =============================================================================

OCRA_QMAX = (4, 8, 10, 32, 63, 64)
OCRA_P = ("HBELT", "SHA1", "SHA256", "SHA512")
OCRA_S = ("000", "001", "020", "064", "100", "512")
OCRA_T = ("1S", "9S", "30S", "59S", "1M", "5M", "59M", "1H", "12H", "48H")
OCRA_QLEN = ("4", "qmax", "qmax+1", "2qmax", "rnd")

BAD_SUITES = (
    "", "OCRA-1", "OCRA-1:HOTP-HBELT-6", "OCRA-1:HOTP-HBELT-6:", "OCRA-2:HOTP-HBELT-6:QN08", "OCRA-1:HOTP-SHA1-6:QN08",
    "OCRA-1:HOTP-HBELT-3:QN08", "OCRA-1:HOTP-HBELT-10:QN08", "OCRA-1:HOTP-HBELT-0:QN08", "OCRA-1:HOTP-HBELT-:QN08",
    "OCRA-1:HOTP-HBELT-6:QN03", "OCRA-1:HOTP-HBELT-6:QN65", "OCRA-1:HOTP-HBELT-6:QN99", "OCRA-1:HOTP-HBELT-6:QN00",
    "OCRA-1:HOTP-HBELT-6:QX08", "OCRA-1:HOTP-HBELT-6:QN8", "OCRA-1:HOTP-HBELT-6:Q08", "OCRA-1:HOTP-HBELT-6:QN008",
    "OCRA-1:HOTP-HBELT-6:C-", "OCRA-1:HOTP-HBELT-6:C", "OCRA-1:HOTP-HBELT-6:CQN08", "OCRA-1:HOTP-HBELT-6:C-C-QN08",
    "OCRA-1:HOTP-HBELT-6:QN08-C", "OCRA-1:HOTP-HBELT-6:QN08-PMD5", "OCRA-1:HOTP-HBELT-6:QN08-P", "OCRA-1:HOTP-HBELT-6:QN08-PSHA",
    "OCRA-1:HOTP-HBELT-6:QN08-PSHA2566", "OCRA-1:HOTP-HBELT-6:QN08-PSHA1024", "OCRA-1:HOTP-HBELT-6:QN08-PHBELT-PHBELT",
    "OCRA-1:HOTP-HBELT-6:QN08-S51", "OCRA-1:HOTP-HBELT-6:QN08-S513", "OCRA-1:HOTP-HBELT-6:QN08-S999", "OCRA-1:HOTP-HBELT-6:QN08-S0512",
    "OCRA-1:HOTP-HBELT-6:QN08-S", "OCRA-1:HOTP-HBELT-6:QN08-S06A", "OCRA-1:HOTP-HBELT-6:QN08-T0S", "OCRA-1:HOTP-HBELT-6:QN08-T60S",
    "OCRA-1:HOTP-HBELT-6:QN08-T60M", "OCRA-1:HOTP-HBELT-6:QN08-T49H", "OCRA-1:HOTP-HBELT-6:QN08-T99H", "OCRA-1:HOTP-HBELT-6:QN08-T5",
    "OCRA-1:HOTP-HBELT-6:QN08-T", "OCRA-1:HOTP-HBELT-6:QN08-T5X", "OCRA-1:HOTP-HBELT-6:QN08-T5s", "OCRA-1:HOTP-HBELT-6:QN08-T100S",
    "OCRA-1:HOTP-HBELT-6:QN08-TS", "OCRA-1:HOTP-HBELT-6:QN08-T1M-S064", "OCRA-1:HOTP-HBELT-6:QN08-S064-PSHA1",
    "OCRA-1:HOTP-HBELT-6:QN08-T1M-PSHA1", "OCRA-1:HOTP-HBELT-6:QN08-T1M-T1M", "OCRA-1:HOTP-HBELT-6:QN08-S064-S064",
    "OCRA-1:HOTP-HBELT-6:QN08 ", " OCRA-1:HOTP-HBELT-6:QN08", "ocra-1:hotp-hbelt-6:qn08", "OCRA-1:HOTP-HBELT-6:QN08-T1MX",
    "OCRA-1:HOTP-HBELT-6:QN08:", "OCRA-1:HOTP-HBELT-6:QN08-", "OCRA-1:HOTP-HBELT-6:QN08--T1M", "OCRA-1:HOTP-HBELT-66:QN08",
    "OCRA-1:HOTP-HBELT-6:PSHA1-QN08", "OCRA-1:HOTP-HBELT-6:T1M", "OCRA-1;HOTP-HBELT-6:QN08",
)

_QALPHA = {"A": b"ABCDEFGHIJKLMNOPQRSTUVWXYZabcdefghijklmnopqrstuvwxyz0123456789", "N": b"0123456789", "H": b"0123456789ABCDEF"}


def gen_ocra(rng, i):
    shape = i % 16
    use_c, use_p, use_s, use_t = bool(shape & 1), bool(shape & 2), bool(shape & 4), bool(shape & 8)
    digit = 4 + (i // 16) % 6
    qt, qmax = "ANH"[(i // 96) % 3], OCRA_QMAX[(i // 3) % len(OCRA_QMAX)]
    pn = OCRA_P[(i // 5) % 4] if use_p else None
    sn = OCRA_S[(i // 7) % len(OCRA_S)] if use_s else None
    tn = OCRA_T[(i // 11) % len(OCRA_T)] if use_t else None
    suite = "OCRA-1:HOTP-HBELT-%d:%sQ%s%02d" % (digit, "C-" if use_c else "", qt, qmax)
    suite += ("-P" + pn if pn else "") + ("-S" + sn if sn else "") + ("-T" + tn if tn else "")
    qc = OCRA_QLEN[(i // 2) % len(OCRA_QLEN)]
    qlen = {"4": 4, "qmax": qmax, "qmax+1": qmax + 1, "2qmax": 2 * qmax}.get(qc) if qc != "rnd" else rng.randrange(4, 2 * qmax + 1)
    al = _QALPHA[qt]

    def q(n):
        return bytes(rng.choice(al) for _ in range(n))
    cc = CTR_CLS[(i // 13) % len(CTR_CLS)]
    if use_t:
        ts = int(tn[:-1]) * {"S": 1, "M": 60, "H": 3600}[tn[-1]]
        k = rng.randrange(1, 2 ** 33 // ts)
        t = rng.choice((k * ts - 1, k * ts, k * ts + ts - 1)) // ts
    else:
        t = rng.choice((0, 0, 1, rng.getrandbits(40)))      # not used by the suite
    return {"op": "OCRA", "api": ("rand", "steps")[(i // 16 + i) % 2], "suite": suite, "shape": "".join(
                x if u else "-" for x, u in zip("CPST", (use_c, use_p, use_s, use_t))),
            "digit": digit, "key": rb(rng, _keylen(rng)), "qclass": qc, "q": q(qlen), "q2": q(rng.randrange(4, 2 * qmax + 1)),
            "ctrclass": cc, "ctr": _ctr_val(rng, cc).to_bytes(8, "big") if use_c else None,
            "p": rb(rng, rbotp.P_LEN[pn]) if pn else None, "s": rb(rng, int(sn)) if sn else None, "t": t,
            "skip_S": (not (use_c or use_p or use_s)) and rng.random() < 0.5, "w": rng.getrandbits(32)}


def unit_ocra(ctx):
    lib, rng = ctx.lib, ctx.rng
    rbotp.selftest(lib)
    hmac = rbrng.lib_hmac(lib)
    lo, hi = ctx.params["lo"], ctx.params["hi"]
    cases = [gen_ocra(rng, i) for i in range(lo, hi)]
    if ctx.params.get("edge"):
        # The three cases that abort a debug build on the current tree come first: a crashed worker loses the class
        # counts of its segment, so nothing else may precede them in this job.
        # (1) p and s adjacent inside one allocation (fields of a caller's struct): admissible; deterministic witness of
        #     DESIGN.md 4 F16 (botpOCRAStepS's debug self-check compared p with s over botpOCRA_keep() octets; repaired in /repo)
        cases.append({"op": "OCRA", "api": "adjacent-p-s", "suite": "OCRA-1:HOTP-HBELT-6:QN08-PHBELT-S064", "key": rb(rng, 32),
                      "q": b"12345678", "p": rb(rng, 32), "s": rb(rng, 64)})
        # (2, 3) t is "don't care" when the suite has no T field: botp.h only requires t != TIME_ERR if the suite uses t
        for api in ("unused-t=TIME_ERR:rand", "unused-t=TIME_ERR:steps"):
            cases.append({"op": "OCRA", "api": api, "suite": "OCRA-1:HOTP-HBELT-6:QN08", "key": rb(rng, 32), "q": b"12345678"})
        for s in BAD_SUITES:
            if rbotp.parse_suite(s) is not None:
                raise Harness("generator: model accepts bad suite %r" % s)
            cases.append({"op": "OCRA", "api": "bad-suite", "suite": s, "key": rb(rng, 32)})
        for s, qlen in (("OCRA-1:HOTP-HBELT-6:QN08", 3), ("OCRA-1:HOTP-HBELT-6:QN08", 17), ("OCRA-1:HOTP-HBELT-6:QA04", 9),
                        ("OCRA-1:HOTP-HBELT-6:C-QH64-T1M", 129), ("OCRA-1:HOTP-HBELT-6:QN08", 0)):
            cases.append({"op": "OCRA", "api": "bad-qlen", "suite": s, "key": rb(rng, 32), "q": bytes(rng.choice(b"0123456789") for _ in range(qlen))})
        for s in ("OCRA-1:HOTP-HBELT-6:QN08-T1M", "OCRA-1:HOTP-HBELT-9:C-QA10-PSHA1-S020-T48H"):
            cases.append({"op": "OCRA", "api": "bad-time", "suite": s, "key": rb(rng, 32), "q": b"12345678"})
        for s in ("OCRA-1:HOTP-HBELT-6:QN08", "OCRA-1:HOTP-HBELT-4:QN08", "OCRA-1:HOTP-HBELT-9:QN08"):
            cases.append({"op": "OCRA", "api": "bad-otp-length", "suite": s, "key": rb(rng, 32), "q": b"12345678"})
    keep = lib.botpOCRA_keep()
    feats = {}

    def nul():
        return lib.alloc(0)      # a parameter the suite does not use: zero-size block, any access is an ASan report

    def place(ctr, p, s):
        """fresh exact-size buffers for (ctr, p, s); a parameter the suite does not use is a zero-size block"""
        return (lib.mk(ctr) if ctr is not None else nul(), lib.mk(p) if p is not None else nul(), lib.mk(s) if s else nul())

    for c in cases:
        api, suite, key = c["api"], c["suite"], c["key"]
        cls = "ocra:" + (c["shape"] if "shape" in c else api)
        if not ctx.case(c, cls):
            continue
        if api == "bad-suite":
            st = lib.alloc(keep)
            r0 = lib.botpOCRAStart(st, lib.cstr(suite), lib.mk(key), len(key))
            r1 = lib.botpOCRARand(lib.alloc(10), lib.cstr(suite), lib.mk(key), len(key), lib.mk(b"12345678"), 8,
                                  lib.mk(bytes(8)), lib.mk(bytes(64)), lib.mk(bytes(512)), 1)
            r2 = lib.botpOCRAVerify(lib.cstr("123456"), lib.cstr(suite), lib.mk(key), len(key), lib.mk(b"12345678"), 8,
                                    lib.mk(bytes(8)), lib.mk(bytes(64)), lib.mk(bytes(512)), 1)
            ctx.digest(bool(r0), r1, r2)
            if r0 or r1 != err("ERR_BAD_FORMAT") or r2 != err("ERR_BAD_FORMAT"):
                ctx.violation("botpOCRAStart:parse:accepts:" + suite, "descriptor outside the OCRA suite grammar (RFC 6287 6, botp.h profile) is accepted",
                              {"suite": suite, "Start": r0, "Rand": r1, "Verify": r2})
            lib.release()
            continue
        if api in ("bad-qlen", "bad-time", "bad-otp-length"):
            q = c["q"]
            t = TIME_ERR if api == "bad-time" else 5
            su = rbotp.parse_suite(suite)
            args = (lib.cstr(suite), lib.mk(key), len(key), lib.mk(q), len(q), lib.mk(bytes(8)), lib.mk(bytes(64)), lib.mk(bytes(512)), t)
            want = {"bad-qlen": "ERR_BAD_PARAMS", "bad-time": "ERR_BAD_TIME", "bad-otp-length": "ERR_BAD_PWD"}[api]
            if api == "bad-otp-length":      # Verify with digit + 1 and digit - 1 characters
                r1 = lib.botpOCRAVerify(lib.cstr("1" * (su.digit + 1)), *args)
                r2 = lib.botpOCRAVerify(lib.cstr("1" * (su.digit - 1)), *args)
            else:
                r1 = lib.botpOCRARand(lib.alloc(su.digit + 1), *args)
                r2 = lib.botpOCRAVerify(lib.cstr("1" * su.digit), *args)
            ctx.digest(r1, r2)
            if r1 != err(want) or r2 != err(want):
                ctx.violation("botpOCRA:ret:" + api, "documented %s not returned" % want, {"suite": suite, "q_len": len(q), "ret": [r1, r2]})
            lib.release()
            continue
        if api == "adjacent-p-s":
            q, p, s = c["q"], c["p"], c["s"]
            exp, _ = rbotp.ocra(hmac, key, suite, q, None, p, s, 0)
            st, otp = lib.alloc(keep), lib.alloc(7)
            arena = lib.mk(p + s)
            ok = lib.botpOCRAStart(st, lib.cstr(suite), lib.mk(key), len(key))
            lib.botpOCRAStepS(st, nul(), arena, arena + len(p))
            lib.botpOCRAStepR(otp, lib.mk(q), len(q), 0, st)
            got = lib.rd(otp, 7)
            ctx.digest(bool(ok), got)
            if not ok or got != _z(exp):
                ctx.violation("botpOCRAStepR:value:adjacent-p-s", "OCRA password differs from the model", {"suite": suite, "expected": exp, "got": got})
            lib.release()
            continue
        if api.startswith("unused-t"):
            q = c["q"]
            exp, _ = rbotp.ocra(hmac, key, suite, q)
            otp = lib.alloc(7)
            if api.endswith("rand"):
                rc = lib.botpOCRARand(otp, lib.cstr(suite), lib.mk(key), len(key), lib.mk(q), len(q), nul(), nul(), nul(), TIME_ERR)
            else:
                st = lib.alloc(keep)
                rc = 0 if lib.botpOCRAStart(st, lib.cstr(suite), lib.mk(key), len(key)) else -1
                lib.botpOCRAStepR(otp, lib.mk(q), len(q), TIME_ERR, st)
            got = lib.rd(otp, 7)
            ctx.digest(rc, got)
            if rc != 0 or got != _z(exp):
                ctx.violation("botpOCRA:value:unused-t=TIME_ERR", "a suite without T must ignore t", {"suite": suite, "ret": rc, "expected": exp, "got": got})
            lib.release()
            continue
        # ---- valid suites
        su = rbotp.parse_suite(suite)
        if su is None:
            raise Harness("generator: model rejects suite %r" % suite)
        for f in ("digit=%d" % su.digit, "Q" + su.q_type, "qmax=%d" % su.q_max, "qlen=" + c["qclass"], "P=%d" % su.p_len, "S=%d" % su.s_len,
                  "ts=%d" % su.ts, "api=" + api) + (("ctr=" + c["ctrclass"],) if su.use_ctr else ()):
            bump(feats, f)
        wr = random.Random(c["w"])
        digit, q, q2, ctr, p, s, t = su.digit, c["q"], c["q2"], c["ctr"], c["p"], c["s"], c["t"]
        exp, mac = rbotp.ocra(hmac, key, suite, q, ctr, p, s, t)
        det = {"suite": suite, "key": key, "q": q, "ctr": ctr, "p": p, "s": s, "t": t}

        def ptrs():
            return place(ctr, p, s)
        if api == "rand":
            otp = lib.alloc(digit + 1)
            cp, pp, sp = ptrs()
            rc = lib.botpOCRARand(otp, lib.cstr(suite), lib.mk(key), len(key), lib.mk(q), len(q), cp, pp, sp, t)
            got = _otp(lib, otp, digit)
            cp, pp, sp = ptrs()
            r1 = lib.botpOCRAVerify(lib.mk(_z(exp)), lib.cstr(suite), lib.mk(key), len(key), lib.mk(q), len(q), cp, pp, sp, t)
            cp, pp, sp = ptrs()
            r2 = lib.botpOCRAVerify(lib.mk(_z(_wrong(wr, exp))), lib.cstr(suite), lib.mk(key), len(key), lib.mk(q), len(q), cp, pp, sp, t)
            ctx.digest(rc, got, r1, r2)
            if rc == err("ERR_BAD_FORMAT"):
                ctx.violation("botpOCRAStart:parse:rejects-valid", "valid OCRA suite rejected", det)
            elif rc != 0 or got != _z(exp):
                ctx.violation("botpOCRARand:value:" + c["shape"], "OCRA password differs from RFC 6287 DataInput over HMAC[belt-hash]",
                              dict(det, mac=mac, expected=exp, got=got, ret=rc))
            elif r1 != 0 or r2 != err("ERR_BAD_PWD"):
                ctx.violation("botpOCRAVerify:verdict:wrong", "Verify: correct -> %d, wrong -> %d" % (r1, r2), det)
        else:
            st = lib.alloc(keep)
            ok = lib.botpOCRAStart(st, lib.cstr(suite), lib.mk(key), len(key))
            if not ok:
                ctx.digest(False)
                ctx.violation("botpOCRAStart:parse:rejects-valid", "valid OCRA suite rejected", det)
                lib.release()
                continue
            if not c["skip_S"]:
                lib.botpOCRAStepS(st, *ptrs())
            otp = lib.alloc(digit + 1)
            lib.botpOCRAStepR(otp, lib.mk(q), len(q), t, st)
            got = _otp(lib, otp, digit)
            cur = rbotp.ctr_next(ctr) if su.use_ctr else None
            gc = None
            if su.use_ctr:
                cb = lib.alloc(8)
                lib.botpOCRAStepG(cb, st)
                gc = lib.rd(cb, 8)
            # second password from the same state: new challenge, next time stamp, incremented counter
            t2 = t + 1
            exp2, _ = rbotp.ocra(hmac, key, suite, q2, cur, p, s, t2)
            v0 = lib.botpOCRAStepV(lib.mk(_z(_wrong(wr, exp2))), lib.mk(q2), len(q2), t2, st)
            c0 = None
            if su.use_ctr:
                lib.botpOCRAStepG(cb, st)
                c0 = lib.rd(cb, 8)
            v1 = lib.botpOCRAStepV(lib.mk(_z(exp2)), lib.mk(q2), len(q2), t2, st)
            c1 = None
            if su.use_ctr:
                lib.botpOCRAStepG(cb, st)
                c1 = lib.rd(cb, 8)
            ctx.digest(got, gc, bool(v0), c0, bool(v1), c1)
            if got != _z(exp):
                ctx.violation("botpOCRAStepR:value:" + c["shape"], "OCRA password differs from RFC 6287 DataInput over HMAC[belt-hash]",
                              dict(det, mac=mac, expected=exp, got=got))
            elif su.use_ctr and gc != cur:
                ctx.violation("botpOCRAStepR:counter:" + ("wrap-64" if ctr == b"\xff" * 8 else "increment"),
                              "counter after StepR is not ctr + 1 mod 2^64", dict(det, got=gc))
            elif v0 or (su.use_ctr and c0 != cur):
                ctx.violation("botpOCRAStepV:verdict:wrong-password", "wrong password accepted or counter moved", dict(det, q2=q2, accepted=bool(v0), ctr_after=c0))
            elif not v1 or (su.use_ctr and c1 != rbotp.ctr_next(cur)):
                ctx.violation("botpOCRAStepV:verdict:correct-password", "correct password rejected or counter not incremented",
                              dict(det, q2=q2, t2=t2, otp=exp2, accepted=bool(v1), ctr_after=c1))
        lib.release()
    ctx.note("ocra_suite_fields", feats)


# =============================================================================
# jobs
# =============================================================================

def jobs(tier, scale=1.0):
    q = tier == "quick"

    def n(quick, thorough, lo=1):
        return max(lo, int((quick if q else thorough) * scale))
    js = []
    for k in range(2):
        js.append({"unit": "c03:unit_bashf", "params": {"chunk": k, "n": n(3000, 20000, 12)}})
    levels = list(range(16, 257, 16))
    for k in range(4):
        js.append({"unit": "c03:unit_hash", "params": {"chunk": k, "levels": levels[k::4], "reps": n(12, 60)}})
    for k in range(6 if q else 12):
        js.append({"unit": "c03:unit_prg", "params": {"chunk": k, "rounds": n(40, 120)}})
    nch = 2 if q else 4
    for k in range(nch):
        js.append({"unit": "c03:unit_ctr", "params": {"chunk": k, "nchunks": nch, "reps": n(4, 16)}})
    for k in range(2 if q else 4):
        kl = list(range(k, 97, 2 if q else 4))       # all key lengths 0..96, spread over the jobs
        if scale < 1:
            kl = kl[::max(1, int(1 / scale))]
        js.append({"unit": "c03:unit_hmacgen", "params": {"chunk": k, "keylens": kl, "reps": n(1, 4)}})
    js.append({"unit": "c03:unit_dt", "params": {"chunk": 0, "reps": n(2, 8)}})
    for k in range(1 if q else 4):
        js.append({"unit": "c03:unit_hotp", "params": {"chunk": k, "reps": n(12, 40)}})
    per = n(960, 3840, 96)
    for k in range(2 if q else 4):
        js.append({"unit": "c03:unit_ocra", "params": {"chunk": k, "lo": k * per, "hi": (k + 1) * per}})
    js.append({"unit": "c03:unit_ocra", "params": {"chunk": "edge", "lo": 0, "hi": 0, "edge": True}})
    return js


REQUIRED = tuple(["bashF:" + k for k in ("zero", "ones", "beltH") + BASHF_KINDS] +
                 ["hash:%s:len=%s" % (m, c) for m in ("oneshot", "steps") for c in HASH_LENCLS] +
                 ["prg:%s:%s" % f for f in PRG_FEATS] +
                 ["ctr:iv=" + c for c in CTR_IVCLS] +
                 ["hmacgen:ivlen=%d" % v for v in HMAC_IVLENS] + ["hmacgen:keylen=" + k for k in ("0", "1..31", "32", "33..64", ">64")] +
                 ["dt:offset=%d" % o for o in range(16)] + ["dt:digit=%d" % d for d in range(4, 10)] +
                 ["ctrnext:wrap-64", "ctrnext:carry"] +
                 ["hotp:ctr=" + c for c in CTR_CLS] + ["totp:t=" + c for c in T_CLS] + ["hotp:bad-digit", "totp:bad-digit", "totp:bad-time"] +
                 ["ocra:" + "".join(x if (i >> b) & 1 else "-" for b, x in enumerate("CPST")) for i in range(16)] +
                 ["ocra:bad-suite", "ocra:bad-qlen", "ocra:bad-time", "ocra:bad-otp-length"])


BASH_PLATFORM_CFGS = ("bash32", "sse2", "avx2", "avx512")
BASH_UNITS = ("c03:unit_bashf", "c03:unit_hash", "c03:unit_prg")


def main(run):
    js = [dict(j, cfg="asan64") for j in jobs(run.tier)]
    if run.tier != "quick":
        js += [dict(j, cfg="rel64") for j in jobs(run.tier)]
        js += [dict(j, cfg="asan32") for j in jobs(run.tier, 0.25)]
        # the platform variants of bash-f (bash_f32.c, bash_fsse2.c, bash_favx2.c, bash_favx512.c): bash units only
        plat = {c: build.config_available(c) for c in BASH_PLATFORM_CFGS}
        for c in BASH_PLATFORM_CFGS:
            if plat[c]:
                js += [dict(j, cfg=c) for j in jobs(run.tier, 0.25) if j["unit"] in BASH_UNITS]
        run.coverage_extra["bash_platform_variants"] = {c: ("run" if ok else "skipped: CPU lacks the extension") for c, ok in plat.items()}
    run.run_jobs(js)
    return run.finish(
        rule="one case = one call sequence on fresh exact-size buffers: a bash-f state; a (level, message, chunking) triple; a whole "
             "bash-prg command script (1..12 commands + final squeeze probe, replayed on the model and on a mirrored automaton that "
             "decrypts what the first encrypts); a brng (key, IV, prior buffer content, chunking); an OTP (suite/digit, key, counter/time, "
             "challenge) sequence.  Non-trivial = distinct description; every case compares at least one library output with the model",
        assumptions=[
            "belt-hash and HMAC[belt-hash] inside the brng / botp models are the library's own beltHash / beltHMAC (tied to the standard by C01)",
            "bash-prg restart with a key: commit(KEY) with the old buffer length, then r changes (text of STB 34.101.77 8; no appendix vector covers it)",
            "OCRA challenge q is an opaque octet string zero-padded to 128 octets and t is the already rounded time stamp, as botp.h profiles RFC 6287",
            "OCRA suite grammar: RFC 6287 section 6 restricted by botp.h to HBELT and 4..9 digits; time step 0H and leading-zero steps are left undecided",
            "quick tier exercises the default BASH_PLATFORM (bash_f64.c) only; thorough adds the platform variants the CPU supports",
        ],
        min_eval=1000, required_classes=REQUIRED)
