"""C05, second half -- exactness of the modular-ring layer (zm.h, gfp.h, qr.h) and of the
binary-polynomial layer (pp.h, gf2.h).

No main(): c05.py combines jobs() of this module with c05_zz.jobs().

Oracles: Python integers mod the modulus (rings), vlib/ref/gf2poly.py (bit vectors) for GF(2)[x].
Every ring is driven through the function pointers of its qr_o description, exactly as the qrXxx
macros of qr.h do.
"""
import ctypes, math

from ..core import Harness
from ..ref import gf2poly as G

LEVEL = "exploration"
SIZE_MAX = (1 << 64) - 1

# ----------------------------------------------------------------------------------------------
# qr_o mirror (qr.h, obj.h): size_t and pointers are 8 octets in every configuration
# ----------------------------------------------------------------------------------------------

_P = ctypes.c_void_p
_Z = ctypes.c_size_t


class ObjHdr(ctypes.Structure):
    _fields_ = [("keep", _Z), ("p_count", _Z), ("o_count", _Z)]


class QrO(ctypes.Structure):
    _fields_ = [("hdr", ObjHdr),
                ("mod", _P), ("unity", _P), ("params", _P),
                ("n", _Z), ("no", _Z),
                ("from_", _P), ("to", _P), ("add", _P), ("sub", _P), ("neg", _P),
                ("mul", _P), ("sqr", _P), ("inv", _P), ("div", _P),
                ("deep", _Z)]


F_FROM = ctypes.CFUNCTYPE(ctypes.c_int, _P, _P, _P, _P)      # b, a, r, stack
F_TO = ctypes.CFUNCTYPE(None, _P, _P, _P, _P)                # b, a, r, stack
F_ADD = ctypes.CFUNCTYPE(None, _P, _P, _P, _P)               # c, a, b, r
F_NEG = ctypes.CFUNCTYPE(None, _P, _P, _P)                   # b, a, r
F_MUL = ctypes.CFUNCTYPE(None, _P, _P, _P, _P, _P)           # c, a, b, r, stack
F_SQR = ctypes.CFUNCTYPE(None, _P, _P, _P, _P)               # b, a, r, stack

ZM_CREATE = {"plain": "zmCreatePlain", "crand": "zmCreateCrand", "barr": "zmCreateBarr",
             "mont": "zmCreateMont", "auto": "zmCreate", "gfp": "gfpCreate", "montR": "zmMontCreate"}


class Ring:
    """A ring description living in an exact-size heap block; operations go through its function table."""

    def __init__(self, lib, state, keep_alloc):
        if ctypes.sizeof(QrO) != 144:
            raise Harness("qr_o mirror has unexpected size")
        self.lib, self.p, self.keep_alloc = lib, state, keep_alloc
        q = QrO.from_address(state)
        self.q = q
        self.n, self.no, self.deep = q.n, q.no, q.deep
        for name, ty in (("from_", F_FROM), ("to", F_TO), ("add", F_ADD), ("sub", F_ADD), ("neg", F_NEG),
                         ("mul", F_MUL), ("sqr", F_SQR), ("inv", F_SQR), ("div", F_MUL)):
            addr = getattr(q, name)
            setattr(self, "_" + name, ty(addr) if addr else None)
        self.ret = None

    @staticmethod
    def zm(lib, kind, M, no, l=None):
        """zmCreateXxx / gfpCreate with exact state and stack; the creation stack and the octet
        string of the modulus are freed right after the call (the description must not refer to them)."""
        fn = ZM_CREATE[kind]
        keep = getattr(lib, fn + "_keep")(no)
        deep = getattr(lib, fn + "_deep")(no)
        modp = lib.mk(M.to_bytes(no, "little"))
        state = lib.alloc(keep)
        stack = lib.alloc(deep)
        if kind == "montR":
            ret = lib.zmMontCreate(state, modp, no, l, stack)
        else:
            ret = getattr(lib, fn)(state, modp, no, stack)
        lib.free_one(stack)
        lib.free_one(modp)
        if kind == "gfp" and not ret:
            return None
        r = Ring(lib, state, keep)
        r.ret = ret
        r.need = zm_need(lib, kind, r.n)
        return r

    @staticmethod
    def gf2(lib, p4):
        m = p4[0]
        keep = lib.gf2Create_keep(m)
        deep = lib.gf2Create_deep(m)
        pp = lib.mk(b"".join(int(v).to_bytes(8, "little") for v in p4))
        state = lib.alloc(keep)
        stack = lib.alloc(deep)
        ret = lib.gf2Create(state, pp, stack)
        lib.free_one(stack)
        lib.free_one(pp)
        if not ret:
            return None
        r = Ring(lib, state, keep)
        r.ret = ret
        r.need = gf2_need(lib, r.n)
        return r

    # raw views
    def unity_int(self):
        return self.lib.rdw(self.q.unity, self.n)

    def mod_int(self, n1=None):
        return self.lib.rdw(self.q.mod, n1 or self.n)

    def stack(self, exact=False):
        """Stack for the ring operations. qr.h: the depth is r->deep. On the examined tree several
        constructors under-report it (the 2n-word product / n-word quotient buffers of zmMul*, zmDivMont2,
        gf2Mul* are not counted), which the canary cases of unit_zm_edge / unit_gf2 demonstrate with the
        exact r->deep. The value cases use max(r->deep, depth recomputed from the public _deep functions
        of the callees), which is again exactly r->deep as soon as r->deep is sufficient."""
        need = 0 if exact else self.need
        if need > self.deep:
            Ring.padded += 1
        return self.lib.alloc(max(self.deep, need))

    padded = 0
    need = 0


    # operations (pointers in, nothing out)
    def from_(self, b, a, st):
        return self._from_(b, a, self.p, st)

    def to(self, b, a, st):
        self._to(b, a, self.p, st)

    def add(self, c, a, b):
        self._add(c, a, b, self.p)

    def sub(self, c, a, b):
        self._sub(c, a, b, self.p)

    def neg(self, b, a):
        self._neg(b, a, self.p)

    def mul(self, c, a, b, st):
        self._mul(c, a, b, self.p, st)

    def sqr(self, b, a, st):
        self._sqr(b, a, self.p, st)

    def inv(self, b, a, st):
        self._inv(b, a, self.p, st)

    def div(self, b, d, a, st):
        self._div(b, d, a, self.p, st)


def zm_need(lib, kind, n):
    """stack depth the zm ring functions really use, from zm.c's layout and the public zz*_deep()"""
    W = lib.W
    mul, sqr = lib.zzMul_deep(n, n), lib.zzSqr_deep(n)

    def ms(red):
        return 2 * n * W + max(mul, sqr, red)
    plain = max(ms(lib.zzRed_deep(n)), lib.zzInvMod_deep(n), lib.zzDivMod_deep(n))
    crand = max(ms(lib.zzRedCrand_deep(n)), lib.zzInvMod_deep(n), lib.zzDivMod_deep(n))
    barr = max(ms(lib.zzRedBarr_deep(n)), lib.zzInvMod_deep(n), lib.zzDivMod_deep(n))
    mm = ms(lib.zzRedMont_deep(n))
    ai = lib.zzAlmostInvMod_deep(n)
    mont = max(2 * n * W + lib.zzMod_deep(2 * n, n), mm, ai, n * W + max(ai, mm))
    montR = max(mm, ai, n * W + max(ai, mm))
    d = {"plain": plain, "crand": crand, "barr": barr, "mont": mont, "montR": montR}
    return d.get(kind, max(plain, crand, barr, mont))


def gf2_need(lib, n):
    W = lib.W
    return max(2 * n * W + lib.ppMul_deep(n, n), 2 * n * W + lib.ppSqr_deep(n),
               (n + 1) * W + lib.ppInvMod_deep(n + 1), (n + 1) * W + lib.ppDivMod_deep(n + 1))


# ----------------------------------------------------------------------------------------------
# small helpers
# ----------------------------------------------------------------------------------------------

_REPORTED = {}


def viol(ctx, key, what, detail, limit=3):
    """emit a violation, at most `limit` witnesses per key and worker (the runner counts occurrences)"""
    n = _REPORTED.get(key, 0)
    _REPORTED[key] = n + 1
    if n < limit:
        ctx.violation(key, what, detail)


def hx(v):
    return hex(v) if isinstance(v, int) else v


def bump(d, k):
    d[k] = d.get(k, 0) + 1


_SMALL_PRIMES = [2, 3, 5, 7, 11, 13, 17, 19, 23, 29, 31, 37, 41, 43, 47, 53, 59, 61, 67, 71, 73, 79, 83, 89, 97,
                 101, 103, 107, 109, 113, 127, 131, 137, 139, 149, 151, 157, 163, 167, 173, 179, 181, 191, 193, 197, 199]


def is_prime(n):
    """trial division + Miller-Rabin with 30 fixed prime bases (deterministic far beyond 2^64; for larger
    numbers the error bound 4^-30 is irrelevant for operands that are not adversarial to these bases)"""
    if n < 2:
        return False
    for p in _SMALL_PRIMES:
        if n % p == 0:
            return n == p
    d, s = n - 1, 0
    while d % 2 == 0:
        d //= 2
        s += 1
    for a in _SMALL_PRIMES[:30]:
        x = pow(a, d, n)
        if x in (1, n - 1):
            continue
        for _ in range(s - 1):
            x = x * x % n
            if x == n - 1:
                break
        else:
            return False
    return True


def next_prime(n):
    n |= 1
    while not is_prime(n):
        n += 2
    return n


def selftest_primes():
    if [p for p in range(60) if is_prime(p)] != _SMALL_PRIMES[:17]:
        raise Harness("is_prime model broken (small)")
    for c in (561, 1105, 1729, 41041, 825265, 321197185, 5394826801, 232250619601, (2 ** 61 - 1) * (2 ** 31 - 1), (2 ** 89 - 1) ** 2):
        if is_prime(c):
            raise Harness("is_prime model accepts composite %d" % c)
    for p in (2 ** 31 - 1, 2 ** 61 - 1, 2 ** 89 - 1, 2 ** 127 - 1, 2 ** 255 - 19, 2 ** 521 - 1, 2 ** 64 - 59, 2 ** 128 - 159):
        if not is_prime(p):
            raise Harness("is_prime model rejects prime %d" % p)


# ----------------------------------------------------------------------------------------------
# oracle algebras: external integers <-> internal ring elements
# ----------------------------------------------------------------------------------------------

class ZAlg:
    """Z/(M) whose elements are stored as x*R mod M (R = 1: ordinary ring; zm.h: Montgomery ring R = B^n,
    'pure' Montgomery ring R = 2^l). Everything below is the text of zm.h in Python integers."""

    def __init__(self, M, R, plain_io=False):
        self.M, self.R, self.plain_io = M, R % M, plain_io
        self.Ri = pow(self.R, -1, M) if math.gcd(self.R, M) == 1 and M > 1 else None

    def valid(self, e):
        return 0 <= e < self.M

    def enc(self, x):
        return x * self.R % self.M

    def dec(self, e):
        return e * self.Ri % self.M

    def add(self, x, y):
        return (x + y) % self.M

    def sub(self, x, y):
        return (x - y) % self.M

    def neg(self, x):
        return (-x) % self.M

    def mul(self, x, y):
        return x * y % self.M

    def inv(self, x):
        return pow(x, -1, self.M) if math.gcd(x, self.M) == 1 else None

    def pow(self, x, e):
        return pow(x, e, self.M)

    def code(self, x):
        return self.enc(x) if self.plain_io else x


def sparse_mod(a, m, taps):
    """a mod (x^m + sum x^t + 1), by the defining congruence x^m = sum x^t + 1"""
    mask = (1 << m) - 1
    while a >> m:
        h = a >> m
        a &= mask
        a ^= h
        for t in taps:
            a ^= h << t
    return a


def gsqr(a):
    """square in GF(2)[x]: a zero bit between any two bits (binary digits read as base-4 digits)"""
    return int(format(a, "b"), 4)


class FAlg:
    """GF(2)[x]/(f), f = x^m + x^k (+ x^l + x^l1) + 1; elements are stored as they are"""

    def __init__(self, p4):
        self.m = p4[0]
        self.taps = [t for t in p4[1:] if t]
        self.M = (1 << self.m) | 1
        for t in self.taps:
            self.M |= 1 << t
        self.R = 1

    def valid(self, e):
        return 0 <= e < (1 << self.m)

    def enc(self, x):
        return x

    def dec(self, e):
        return e

    def add(self, x, y):
        return x ^ y

    sub = add

    def neg(self, x):
        return x

    def code(self, x):
        return x

    def mul(self, x, y):
        return sparse_mod(G.mul(x, y), self.m, self.taps)

    def sqr(self, x):
        return sparse_mod(gsqr(x), self.m, self.taps)

    def inv(self, x):
        if x == 0:
            return None
        d, u, _ = G.exgcd(x, self.M)
        return G.mod(u, self.M) if d == 1 else None

    def pow(self, x, e):
        r = 1
        while e:
            if e & 1:
                r = self.mul(r, x)
            x = self.sqr(x)
            e >>= 1
        return r

    def trace(self, x):
        t, s = x, x
        for _ in range(self.m - 1):
            t = self.sqr(t)
            s ^= t
        return s

    def selftest(self, rng_vals):
        for a, b in rng_vals:
            if self.mul(a, b) != G.mulmod(a, b, self.M) or self.sqr(a) != G.mulmod(a, a, self.M):
                raise Harness("sparse reduction model disagrees with gf2poly.mulmod")


# ----------------------------------------------------------------------------------------------
# generic ring case: from/to, additive and multiplicative operations, aliasing, qrPower
# ----------------------------------------------------------------------------------------------

def ring_case(ctx, ring, alg, kind, x, y, e, epad, do_inv=True, direct=False, extra_rej=()):
    """Runs every operation of the ring on the external operands x, y (elements are obtained with the
    ring's own `from`), exponent e. Returns the list of observed results (external form) for the digest.
    direct=True additionally feeds x, y as *internal* elements (Montgomery-type rings)."""
    lib = ctx.lib
    W, n, no = lib.W, ring.n, ring.no
    nW = n * W
    st = ring.stack()
    out = []

    def octs(v):
        """code of the external value v (zm.h / gf2.h: the number / polynomial itself, little-endian; in a
        'pure' Montgomery ring of zmMontCreate the element as it is)"""
        return alg.code(v).to_bytes(no, "little")

    def bad(fn, cat, detail):
        d = {"mod": hx(alg.M), "kind": kind, "x": hx(x), "y": hx(y), "n": n, "no": no}
        d.update(detail)
        viol(ctx, "%s@%s:%s" % (fn, kind, cat), "%s in ring %s: %s" % (fn, kind, cat), d)

    def res(fn, p, exp_ext, variant=None, base_ok=True):
        """compare the n-word result at p with the internal image of exp_ext"""
        got = lib.rdw(p, n)
        exp = alg.enc(exp_ext)
        ok = got == exp
        if not ok and (variant is None or base_ok):
            if variant is not None:
                cat = "alias:" + variant
            elif not alg.valid(got):
                cat = "not-reduced"
            else:
                cat = "value"
            bad(fn, cat, {"got": hx(got), "expected": hx(exp), "expected_external": hx(exp_ext),
                          "congruent": (got - exp) % alg.M == 0 if isinstance(alg, ZAlg) else None})
        if variant is None:
            out.append(alg.dec(got) if alg.valid(got) else ("!", got))
        return ok

    def elem(v_int):
        return lib.mkw(v_int, n)

    # --- from: external octets -> element; in place as well (qr.h: a == b allowed)
    ex = lib.outw(n)
    r1 = ring.from_(ex, lib.mk(octs(x)), st)
    if not r1:
        bad("qrFrom", "return", {"what": "valid code rejected", "code": octs(x)})
    res("qrFrom", ex, x)
    ey = lib.outw(n)
    r2 = ring.from_(ey, lib.mk(octs(y)), st)
    if not r2:
        bad("qrFrom", "return", {"what": "valid code rejected", "code": octs(y)})
    res("qrFrom", ey, y)
    buf = lib.mk(octs(x) + bytes([lib.fill]) * (max(nW, no) - no))
    r3 = ring.from_(buf, buf, st)
    if not r3:
        bad("qrFrom", "alias:b=a", {"what": "valid code rejected in place"})
    res("qrFrom", buf, x, "b=a")
    # from here on the canonical elements (so that a broken `from` does not mask the other operations)
    ax, ay = alg.enc(x), alg.enc(y)
    ex, ey = elem(ax), elem(ay)
    # --- to
    ob = lib.alloc(no)
    ring.to(ob, ex, st)
    got = lib.rd(ob, no)
    out.append(got)
    if got != octs(x):
        bad("qrTo", "value", {"got": got, "expected": octs(x)})
    buf = lib.mk(ax.to_bytes(nW, "little") + bytes([lib.fill]) * (max(nW, no) - nW))
    ring.to(buf, buf, st)
    if lib.rd(buf, no) != octs(x):
        bad("qrTo", "alias:b=a", {"got": lib.rd(buf, no), "expected": octs(x)})
    # --- range rejection (codes that are not elements)
    for code in extra_rej:
        t = lib.outw(n)
        r = ring.from_(t, lib.mk(code), st)
        out.append(int(bool(r)))
        if r:
            bad("qrFrom", "accepts-out-of-range", {"code": code})
    # --- additive
    c = lib.outw(n)
    ring.add(c, ex, ey)
    ok = res("qrAdd", c, alg.add(x, y))
    t = elem(ax); ring.add(t, t, ey); res("qrAdd", t, alg.add(x, y), "c=a", ok)
    t = elem(ay); ring.add(t, ex, t); res("qrAdd", t, alg.add(x, y), "c=b", ok)
    c = lib.outw(n); ring.add(c, ex, ex); ok2 = res("qrAdd", c, alg.add(x, x))
    t = elem(ax); ring.add(t, t, t); res("qrAdd", t, alg.add(x, x), "c=a=b", ok2)
    c = lib.outw(n)
    ring.sub(c, ex, ey)
    ok = res("qrSub", c, alg.sub(x, y))
    t = elem(ax); ring.sub(t, t, ey); res("qrSub", t, alg.sub(x, y), "c=a", ok)
    t = elem(ay); ring.sub(t, ex, t); res("qrSub", t, alg.sub(x, y), "c=b", ok)
    t = elem(ax); ring.sub(t, t, t); res("qrSub", t, 0, "c=a=b", True)
    c = lib.outw(n)
    ring.neg(c, ex)
    ok = res("qrNeg", c, alg.neg(x))
    t = elem(ax); ring.neg(t, t); res("qrNeg", t, alg.neg(x), "b=a", ok)
    # add/sub with the ring's unity (qrAddUnity / qrSubUnity)
    c = lib.outw(n); ring.add(c, ex, ring.q.unity); res("qrAddUnity", c, alg.add(x, 1))
    # --- multiplicative
    c = lib.outw(n)
    ring.mul(c, ex, ey, st)
    ok = res("qrMul", c, alg.mul(x, y))
    ob = lib.alloc(no); ring.to(ob, c, st) if ok else None
    if ok and lib.rd(ob, no) != octs(alg.mul(x, y)):
        bad("qrTo", "value", {"element": hx(lib.rdw(c, n)), "got": lib.rd(ob, no), "expected": octs(alg.mul(x, y))})
    t = elem(ax); ring.mul(t, t, ey, st); res("qrMul", t, alg.mul(x, y), "c=a", ok)
    t = elem(ay); ring.mul(t, ex, t, st); res("qrMul", t, alg.mul(x, y), "c=b", ok)
    c = lib.outw(n); ring.mul(c, ex, ex, st); ok2 = res("qrMul", c, alg.mul(x, x))
    t = elem(ax); ring.mul(t, t, t, st); res("qrMul", t, alg.mul(x, x), "c=a=b", ok2)
    c = lib.outw(n); ring.mul(c, ex, ring.q.unity, st); res("qrMul", c, x)            # a * unity = a
    c = lib.outw(n)
    ring.sqr(c, ex, st)
    ok = res("qrSqr", c, alg.mul(x, x))
    sqr_in_ring = alg.valid(lib.rdw(c, n))
    t = elem(ax); ring.sqr(t, t, st); res("qrSqr", t, alg.mul(x, x), "b=a", ok)
    # --- inverse / quotient (invertible x only; non-invertible elements are driven by the edge unit)
    xi = alg.inv(x) if do_inv else None
    if xi is not None:
        c = lib.outw(n)
        ring.inv(c, ex, st)
        ok = res("qrInv", c, xi)
        t = elem(ax); ring.inv(t, t, st); res("qrInv", t, xi, "b=a", ok)
        q = alg.mul(y, xi)
        c = lib.outw(n)
        ring.div(c, ey, ex, st)
        ok = res("qrDiv", c, q)
        t = elem(ay); ring.div(t, t, ex, st); res("qrDiv", t, q, "b=divident", ok)
        t = elem(ax); ring.div(t, ey, t, st); res("qrDiv", t, q, "b=a", ok)
        t = elem(ax); ring.div(t, t, t, st); res("qrDiv", t, alg.mul(x, xi), "b=divident=a", ok)
    # --- qrPower (its first step is sqr(a): when the ring's own sqr has just returned a value outside the
    # ring for this very operand, the \pre "element belongs to r" of the next internal call is false by the
    # library's own doing; the defect is already reported above and the chained call is not made)
    if e is not None and not sqr_in_ring:
        bump(ctx.extra.setdefault("power_skipped_after_unreduced_sqr", {}), kind)
    if e is not None and sqr_in_ring:
        m = (e.bit_length() + lib.B - 1) // lib.B + epad
        pe = lib.mkw(e, m)
        pst = lib.alloc(lib.qrPower_deep(n, m, max(ring.deep, ring.need)))
        c = lib.outw(n)
        lib.qrPower(c, ex, pe, m, ring.p, pst)
        ok = res("qrPower", c, alg.pow(x, e))
        if ok:
            ob = lib.alloc(no); ring.to(ob, c, st)
            if lib.rd(ob, no) != octs(alg.pow(x, e)):
                bad("qrTo", "value", {"element": hx(lib.rdw(c, n)), "got": lib.rd(ob, no)})
    # --- x, y taken as internal elements (Montgomery representation: formulas of zm.h with R)
    if direct and alg.Ri is not None and alg.R != 1:
        M, R, Ri = alg.M, alg.R, alg.Ri
        dx, dy = elem(x), elem(y)

        def dres(fn, p, exp):
            got = lib.rdw(p, n)
            if got != exp:
                bad(fn, "not-reduced" if got >= M else "value", {"internal_operands": True, "got": hx(got), "expected": hx(exp), "R": hx(R)})
        c = lib.outw(n); ring.mul(c, dx, dy, st); dres("qrMul", c, x * y * Ri % M)
        c = lib.outw(n); ring.sqr(c, dx, st); dres("qrSqr", c, x * x * Ri % M)
        c = lib.outw(n); ring.add(c, dx, dy); dres("qrAdd", c, (x + y) % M)
        c = lib.outw(n); ring.sub(c, dx, dy); dres("qrSub", c, (x - y) % M)
        ob = lib.alloc(no); ring.to(ob, dx, st)
        if lib.rd(ob, no) != octs(x * Ri % M):
            bad("qrTo", "value", {"internal_operands": True, "element": hx(x), "got": lib.rd(ob, no), "expected": octs(x * Ri % M)})
        if do_inv and math.gcd(x, M) == 1:
            xi2 = pow(x, -1, M)
            c = lib.outw(n); ring.inv(c, dx, st); dres("qrInv", c, xi2 * R * R % M)
            c = lib.outw(n); ring.div(c, dy, dx, st); dres("qrDiv", c, y * xi2 * R % M)
    return out


# ----------------------------------------------------------------------------------------------
# zm / gfp: moduli, operands
# ----------------------------------------------------------------------------------------------

NO_LIST = [1, 2, 3, 4, 5, 7, 8, 9, 11, 12, 13, 15, 16, 17, 20, 23, 24, 25, 28, 31, 32, 33, 36, 40, 41, 47, 48, 49,
           56, 57, 63, 64, 65, 72]
EXPONENTS = [0, 1, 2, 3, 4, 5, 7, 8, 15, 16, 17, 31, 255, 256, 65537, 2 ** 32 - 1, 2 ** 32, 2 ** 64 - 1, 2 ** 64,
             2 ** 64 + 1, 2 ** 80 - 1, 2 ** 128 - 1]


def blen(v):
    return (v.bit_length() + 7) // 8


def crand_ok(M, W):
    """zmCreateCrand \\pre: mod == B^n - c, n >= 2, 0 < c < B"""
    no = blen(M)
    if no % W or no < 2 * W:
        return False
    B = 8 * W
    c = (1 << (8 * no)) - M
    return 0 < c < (1 << B)


def bign_moduli(lib):
    out = []
    for i, l in ((1, 128), (2, 192), (3, 256)):
        p = lib.alloc(336)
        rc = lib.bignParamsStd(p, lib.cstr("1.2.112.0.2.0.34.101.45.3.%d" % i))
        raw = lib.rd(p, 336)
        lib.release()
        if rc != 0 or int.from_bytes(raw[:8], "little") != l:
            raise Harness("bignParamsStd failed / unexpected bign_params layout")
        no = l // 4
        out.append((int.from_bytes(raw[8:8 + no], "little"), "bign-p%d" % l))
        out.append((int.from_bytes(raw[200:200 + no], "little"), "bign-q%d" % l))
    for M, name in out:
        if not is_prime(M):
            raise Harness("%s is not prime under the model" % name)
    return out


def zm_fixed(lib):
    L = []

    def add(M, cls, f=None):
        L.append({"M": M, "cls": cls, "f": f})
    for M in (2, 3, 4, 5, 6, 9, 15, 16, 251, 255):
        add(M, "tiny", {6: (2, 3), 9: (3, 3), 15: (3, 5), 255: (15, 17)}.get(M))
    for M in (256, 257, 65535, 65536, 65537):
        add(M, "small")
    for k in (32, 64, 128, 192, 256, 512):
        add(2 ** k - 1, "2^k-1")
        add(2 ** k, "2^k")
        add(2 ** k + 1, "2^k+1")
    for k in (2, 3, 4, 5, 6, 8, 9):
        for c in (1, 2, 3, 59, 2 ** 32 - 1, 2 ** 32, 2 ** 32 + 15, 2 ** 63, 2 ** 64 - 1):
            add(2 ** (64 * k) - c, "B^n-c")
    for k in (3, 5, 7):
        for c in (1, 5, 2 ** 31, 2 ** 32 - 1):
            add(2 ** (32 * k) - c, "B^n-c")
    for M in (2 ** 61 - 1, 2 ** 89 - 1, 2 ** 127 - 1, 2 ** 255 - 19, 2 ** 521 - 1, 2 ** 64 - 59, 2 ** 128 - 159):
        add(M, "prime")
    bg = bign_moduli(lib)
    for M, name in bg:
        add(M, "bign")
    p1, p2, p3 = 2 ** 61 - 1, 2 ** 89 - 1, 2 ** 127 - 1
    add(p1 * (2 ** 31 - 1), "composite-zd", (p1, 2 ** 31 - 1))
    add(p3 * p2, "composite-zd", (p3, p2))
    add(p3 * p3, "composite-zd", (p3, p3))
    add(bg[0][0] * bg[1][0], "composite-zd", (bg[0][0], bg[1][0]))
    add(bg[4][0] * 3, "composite-zd", (bg[4][0], 3))
    add(3 << 64, "even-low-word-0", (3, 1 << 64))
    add(p3 << 65, "even-low-word-0", (p3, 1 << 65))
    add((p2 * p1) << 1, "even", (p2 * p1, 2))
    return L


def rand_top(rng, no, style):
    """random integer of exactly `no` octets; style of the top octet: set / clear / any"""
    v = rng.getrandbits(8 * no)
    top = v >> (8 * (no - 1))
    low = v & ((1 << (8 * (no - 1))) - 1)
    if style == "set":
        top |= 0x80
    elif style == "clear":
        top = 1
    elif top == 0:
        top = 1 + (low & 0x7F)
    return (top << (8 * (no - 1))) | low


def zm_random(rng):
    no = rng.choice(NO_LIST)
    style = rng.choice(["odd", "odd", "even", "even", "composite", "square", "crand", "prime", "pow2mult"])
    top = rng.choice(["set", "clear", "any"])
    u = rng.getrandbits(64)
    f = None
    if style in ("odd", "even"):
        M = rand_top(rng, no, top)
        M = M | 1 if style == "odd" else M & ~1
        if M < 2:
            M = 2
    elif style == "composite":
        n1 = max(1, no // 2)
        f1 = rand_top(rng, n1, top) | 1
        f2 = (rand_top(rng, no - n1, "any") | 1) if no > n1 else 3
        f1, f2 = max(f1, 3), max(f2, 3)
        M, f = f1 * f2, (f1, f2)
    elif style == "square":
        f1 = max(3, rand_top(rng, (no + 1) // 2, top) | 1)
        M, f = f1 * f1, (f1, f1)
    elif style == "crand":
        k = 2 + u % 8
        c = [1 + (u >> 8) % 1000, 1 + (u >> 8) % (2 ** 32 - 1), 1 + (u >> 8) % (2 ** 56)][(u >> 4) % 3]
        if (u >> 3) & 1:
            M = 2 ** (64 * k) - c
        else:
            M = 2 ** (32 * (2 * k - 1)) - (c % (2 ** 32 - 1) + 1)
    elif style == "prime":
        no = min(no, 40)
        M = next_prime(rand_top(rng, no, top))
    else:
        s = [1, 8, 31, 32, 33, 63, 64, 65][u % 8]
        odd = rand_top(rng, no, top) | 1
        M, f = odd << s, (odd, 1 << s)
    cls = style if style != "composite" and style != "square" else "composite-zd"
    return {"M": M, "cls": "rnd-" + cls, "f": f}


def zm_tuples(rng, M, f, k):
    """k operand tuples (x, y, e, epad); the first ones are the fixed boundary pairs"""
    bl = M.bit_length()
    cat = [0, 1, 2 % M, M - 1, max(M - 2, 0), M // 2, (M // 2 + 1) % M, 1 << (bl - 1), (1 << (bl - 1)) - 1]
    cat = [c % M for c in cat]
    T = []
    for i in range(k):
        r = rng.getrandbits(8 * blen(M) + 64) % M
        r2 = rng.getrandbits(8 * blen(M) + 64) % M
        s = rng.getrandbits(32)
        er = rng.getrandbits(192)
        e = EXPONENTS[s % len(EXPONENTS)] if (s >> 8) % 3 else er >> [184, 128, 122, 62, 0][(s >> 10) % 5]
        epad = (s >> 16) & 1
        if i == 0:
            x, y = M - 1, M - 1
        elif i == 1:
            x, y = (0, 1) if s & 1 else (1 % M, 0)
        elif i == 2 and f:
            # zero divisors: x*y = 0 (mod M), x, y != 0 where possible
            x = f[0] * (1 + r % max(1, f[1] - 1)) % M
            y = f[1] * (1 + r2 % max(1, f[0] - 1)) % M
        else:
            x = cat[(s >> 20) % len(cat)] if (s >> 17) % 5 < 2 else r
            y = cat[(s >> 24) % len(cat)] if (s >> 28) % 5 < 2 else r2
            if (s >> 30) & 1 and (s >> 31) & 1:
                y = x
        T.append((x, y, e, epad))
    return T


def opclass(x, M):
    if x == 0:
        return "0"
    if x == 1:
        return "1"
    if x == M - 1:
        return "mod-1"
    return "other"


def zm_ring_and_alg(lib, kind, M, no, lsel, zd=False):
    """creates the ring; returns (ring, alg, label). lsel in [0,1) selects l of zmMontCreate.
    zd: the operands are zero divisors -> l = B*n (with l < B*n zmMulMont2 doubles the result of zzRedMont,
    and on the examined tree an unreduced zzRedMont result (reported by the l = B*n cases) turns into an
    ASSERT abort of zzDoubleMod; short-l rings with zero divisors are driven, in bounded number, by unit_zm_edge)"""
    W = lib.W
    n = (no + W - 1) // W
    l = None
    label = kind
    if kind == "montR":
        full = 8 * W * n
        if lsel < 0.5 or zd:
            l = full
        else:
            l = M.bit_length() + int((lsel - 0.5) * 2 * (full - M.bit_length()))
            label = "montR-short" if l < full else "montR"
    ring = Ring.zm(lib, kind, M, no, l)
    if ring is None:
        return None, None, label
    if kind in ("plain", "crand", "barr"):
        alg = ZAlg(M, 1)
    elif kind == "mont":
        alg = ZAlg(M, 1 << (8 * W * n))
    elif kind == "montR":
        alg = ZAlg(M, 1 << l, plain_io=True)
    else:
        # selector: the representation is whatever the ring says its unity is (checked by the caller)
        alg = ZAlg(M, ring.unity_int())
    return ring, alg, label


def zm_post(ctx, ring, alg, kind, M, no, prime):
    """postconditions of the constructors and the description predicates"""
    lib = ctx.lib
    W = lib.W

    def bad(fn, cat, detail):
        d = {"mod": hx(M), "no": no, "kind": kind}
        d.update(detail)
        viol(ctx, "%s@%s:%s" % (fn, kind, cat), "%s: %s" % (fn, cat), d)
    fn = ZM_CREATE[kind]
    if ring.no != no or ring.n != (no + W - 1) // W:
        bad(fn, "post", {"r.n": ring.n, "r.no": ring.no})
    if ring.q.hdr.keep > ring.keep_alloc:
        bad(fn, "keep", {"hdr.keep": ring.q.hdr.keep, "declared": ring.keep_alloc})
    if ring.mod_int() != M:
        bad(fn, "mod", {"r.mod": hx(ring.mod_int())})
    un = ring.unity_int()
    if kind in ("auto", "gfp"):
        if un not in (1, (1 << (8 * W * ring.n)) % M):
            bad(fn, "unity", {"unity": hx(un)})
    elif un != alg.enc(1):
        bad(fn, "unity", {"unity": hx(un), "expected": hx(alg.enc(1))})
    if not lib.qrIsOperable(ring.p):
        bad("qrIsOperable", "return", {})
    if not lib.zmIsValid(ring.p):
        bad("zmIsValid", "return", {})
    op = bool(lib.gfpIsOperable(ring.p))
    if op != (M % 2 == 1 and M > 1):
        bad("gfpIsOperable", "return", {"got": op})
    res = [un == 1, op]
    if prime is not None and M % 2 == 1 and M > 1:
        st = lib.alloc(lib.gfpIsValid_deep(ring.n))
        v = bool(lib.gfpIsValid(ring.p, st))
        res.append(v)
        if v != prime:
            bad("gfpIsValid", "return", {"got": v, "prime": prime})
    return res


def unit_zm(ctx):
    lib, rng, P = ctx.lib, ctx.rng, ctx.params
    W = lib.W
    selftest_primes()
    chunk, nchunks, ncases, tup = P["chunk"], P["nchunks"], P["cases"], P.get("tuples", 3)
    fixed = [m for i, m in enumerate(zm_fixed(lib)) if i % nchunks == chunk]
    words, opcls = {}, {}
    done = 0
    idx = 0
    while done < ncases:
        spec = fixed[idx] if idx < len(fixed) else zm_random(rng)
        idx += 1
        M, f = spec["M"], spec["f"]
        no = blen(M)
        prime = is_prime(M) if no <= 72 else None
        for kind in ("plain", "crand", "barr", "mont", "auto", "gfp", "montR"):
            tuples = zm_tuples(rng, M, f, tup)
            lsel = rng.random()
            if kind in ("mont", "montR", "gfp") and M % 2 == 0:
                continue
            if kind == "crand" and not crand_ok(M, W):
                continue
            if kind == "gfp" and not prime:
                # \expect of gfpCreate violated: only the predicates are judged
                if M < 3 or not ctx.case(["gfp-composite", M], "gfp:composite"):
                    continue
                ring = Ring.zm(lib, "gfp", M, no)
                r = [ring is not None]
                if ring is not None:
                    r += zm_post(ctx, ring, ZAlg(M, ring.unity_int()), "gfp", M, no, False)
                ctx.digest(r)
                lib.release()
                done += 1
                continue
            for ti, (x, y, e, epad) in enumerate(tuples):
                mcls = spec["cls"] + ("|odd" if M & 1 else "|even")
                if not ctx.case([kind, M, x, y, e, epad, lsel if kind == "montR" else None], "zm:%s:%s" % (kind, mcls)):
                    continue
                done += 1
                zd = bool((x and y and x * y % M == 0) or (x and x * x % M == 0) or (y and y * y % M == 0))
                ring, alg, label = zm_ring_and_alg(lib, kind, M, no, lsel, zd)
                if ring is None:
                    viol(ctx, "gfpCreate@gfp:return", "gfpCreate fails for an odd prime", {"p": hx(M)})
                    lib.release()
                    continue
                if alg.plain_io:
                    # 'pure' Montgomery ring: elements are used as they are -> make x, y the *internal* values
                    x, y = alg.dec(x), alg.dec(y)
                bump(words, "n=%d" % ring.n)
                bump(opcls, "x=%s,y=%s" % (opclass(x, M), opclass(y, M)))
                if f and x and y and x * y % M == 0:
                    bump(opcls, "zero-divisors")
                if math.gcd(x, M) == 1:
                    bump(opcls, "x-invertible")
                bump(opcls, "kind=" + label)
                out = []
                if ti == 0:
                    out += zm_post(ctx, ring, alg, kind, M, no, prime if kind == "gfp" or no <= 16 else None)
                # codes that must be rejected by `from`: mod, mod + 1, all-ones (where they fit and are >= mod)
                rej = []
                top = (1 << (8 * no)) - 1
                for v in (M, M + 1, top):
                    if M <= v <= top:
                        rej.append(v.to_bytes(no, "little"))
                # inv/div: zzInvMod/zzDivMod need an odd modulus -> even moduli go to the edge unit
                out += ring_case(ctx, ring, alg, label, x, y, e, epad, do_inv=bool(M & 1),
                                 direct=(alg.R != 1 and not alg.plain_io), extra_rej=rej)
                ctx.digest(out)
                lib.release()
    ctx.note("zm_words", words)
    ctx.note("zm_operands", opcls)
    ctx.note("stack_padded_calls", Ring.padded)


def unit_zm_edge(ctx):
    """Ring cases that abort on the examined tree or have an unspecified value; one library call per case so
    that every abort is attributed to exactly one call. Deliberately bounded (each abort costs a worker restart).
    NOT generated: inv/div of 0 in rings with ordinary/Crandall/Barrett reduction -- zzDivMod(a = 0) never
    returns (infinite loop), which the runner could only report as inconclusive."""
    lib = ctx.lib
    W = lib.W
    p1, p2, p3 = 2 ** 61 - 1, 2 ** 89 - 1, 2 ** 127 - 1
    E40 = ((1 << 319) | (0x1234567 << 100) | 0x9ABCDE) & ~1            # even, 40 octets
    cases = []
    # (A) declared depth r->deep, exactly
    for kind, M in (("plain", 2 ** 190 - 11), ("barr", 2 ** 300 + 7), ("crand", 2 ** 128 - 5), ("mont", 2 ** 190 - 11),
                    ("montR", 2 ** 127 - 1), ("auto", 2 ** 300 + 6), ("auto", 2 ** 190 - 11), ("gfp", 2 ** 255 - 19)):
        for op in ("mul", "sqr", "inv", "div"):
            if M % 2 == 0 and op in ("inv", "div"):
                continue
            cases.append(("deep", kind, M, op, M // 3, M // 5 | 1, None, True))
    # (B) even modulus, invertible element: the value is specified by zm.h (any natural modulus)
    cases += [("even", "plain", 10, "inv", 3, 7, None, False), ("even", "barr", 2 ** 64, "div", 2 ** 63 + 1, 5, None, False),
              ("even", "auto", E40, "inv", E40 // 2 + 2 if (E40 // 2) % 2 else E40 // 2 + 1, 9, None, False),
              ("even", "plain", 2 ** 64 - 2, "div", 2 ** 63 + 3, 12345, None, False)]
    # (C), (D) non-invertible elements: qr.h "\\expect a invertible; if not, b may be anything" -- no value verdict
    cases += [("noninv", "mont", p3 * p2, "inv", 0, 1, None, False), ("noninv", "mont", p3 * p2, "div", 0, 5, None, False),
              ("noninv", "montR", p3 * p2, "inv", 0, 1, None, False),
              ("noninv", "mont", 15, "inv", 5, 1, None, False), ("noninv", "mont", p3 * p2, "div", p3, 77, None, False),
              ("noninv", "montR", p3 * p1, "inv", 3 * p1, 1, None, False), ("noninv", "auto", p3 * p2, "inv", 2 * p2, 1, None, False),
              ("noninv", "plain", 15, "inv", 5, 1, None, False), ("noninv", "barr", p3 * p2, "div", p3, 3, None, False),
              ("noninv", "crand", 2 ** 128 - 3, "inv", 5 * 83, 1, None, False)]
    # (F) zero divisors in 'pure' Montgomery rings with l < B*n
    for M, x, y, l in ((15, 3, 10, 40), (15, 5, 6, 4), (p3 * p2, 5 * p3, 9 * p2, 217), (p3 * p3, 3 * p3, 7 * p3, 254)):
        cases.append(("montR-short-zd", "montR", M, "mul", x, y, l, False))
        cases.append(("montR-short-zd", "montR", M, "sqr", x if M != 15 else 0, y, l, False))
    for cat, kind, M, op, x, y, l, exact in cases:
        no = blen(M)
        if kind == "crand" and not crand_ok(M, W):
            continue
        if not ctx.case(["edge", cat, kind, M, op, x, y, l], "zm-edge:" + cat):
            continue
        n = (no + W - 1) // W
        if kind == "montR":
            l = l or 8 * W * n
            if l > 8 * W * n:
                l = 8 * W * n
            ring = Ring.zm(lib, kind, M, no, l)
            alg = ZAlg(M, 1 << l, plain_io=True)
        else:
            ring = Ring.zm(lib, kind, M, no)
            alg = ZAlg(M, ring.unity_int())
        if ring is None:
            raise Harness("edge: ring not created")
        R, Ri = alg.R, alg.Ri
        st = ring.stack(exact=exact)
        a, b, c = lib.mkw(x, ring.n), lib.mkw(y, ring.n), lib.outw(ring.n)
        exp = None
        if op == "mul":
            ring.mul(c, a, b, st)
            exp = x * y * Ri % M
        elif op == "sqr":
            ring.sqr(c, a, st)
            exp = x * x * Ri % M
        elif op == "inv":
            ring.inv(c, a, st)
            if math.gcd(x, M) == 1:
                exp = pow(x, -1, M) * R * R % M
        else:
            ring.div(c, b, a, st)
            if math.gcd(x, M) == 1:
                exp = y * pow(x, -1, M) * R % M
        got = lib.rdw(c, ring.n)
        if exp is not None:
            ctx.digest(got)
            if got != exp:
                viol(ctx, "qr%s@%s:%s" % (op.capitalize(), kind, "not-reduced" if got >= M else "value"),
                     "edge case %s" % cat, {"mod": hx(M), "x": hx(x), "y": hx(y), "l": l, "got": hx(got), "expected": hx(exp)})
        lib.release()
    ctx.note("stack_padded_calls", Ring.padded)


# ----------------------------------------------------------------------------------------------
# pp: binary polynomials
# ----------------------------------------------------------------------------------------------

PP_PATTERNS = ["zero", "one", "ones", "bit", "bit", "sparse", "dense", "dense", "dense", "topclear", "topbit", "degb", "degb"]


def pp_val(rng, n, B, pat=None):
    """n-word polynomial of a structural class. Random draws do not depend on B (values are masked)."""
    pat = pat or rng.choice(PP_PATTERNS)
    r = rng.getrandbits(64 * max(n, 1))
    wi, off, k = rng.randrange(max(n, 1)), rng.choice((-1, 0, 1)), rng.randrange(2, 6)
    if n == 0:
        return 0
    nb = n * B
    mask = (1 << nb) - 1
    r &= mask
    if pat == "zero":
        return 0
    if pat == "one":
        return 1
    if pat == "ones":
        return mask
    if pat == "bit":
        return 1 << min(max(wi * B + (B - 1 if off < 0 else 0 if off == 0 else 1), 0), nb - 1)
    if pat == "sparse":
        v = 0
        for j in range(k):
            v |= 1 << ((r >> (11 * j)) % nb)
        return v
    if pat == "topclear":
        return r & ((1 << (nb - B)) - 1) if n > 1 else r >> (B // 2)
    if pat == "topbit":
        return r | (1 << (nb - 1))
    if pat == "degb":
        # degree exactly at a word boundary -1 / 0 / +1
        d = min(max((wi + 1) * B - 1 + off, 0), nb - 1)
        return (r & ((1 << d) - 1)) | (1 << d)
    return r


def pp_top(rng, n, B, pat=None):
    """n-word polynomial with non-zero top word (n >= 1); classes of the top word: 1, top bit, random"""
    v = pp_val(rng, n, B, pat or rng.choice(["dense", "dense", "sparse", "ones", "topbit"]))
    c = rng.randrange(6)
    lo = v & ((1 << ((n - 1) * B)) - 1)
    top = v >> ((n - 1) * B)
    if c == 0:
        top = 1
    elif c == 1:
        top |= 1 << (B - 1)
    elif c == 2:
        top = 1 << (B - 1)
    elif c == 3:
        top = (top & 0xFF) | 2
    if top == 0:
        top = 1 + (lo & 0xFFFF)
    return (top << ((n - 1) * B)) | lo


def wlen(v, B):
    return (v.bit_length() + B - 1) // B


def pp_stack(lib, fn, *a):
    return lib.alloc(getattr(lib, fn + "_deep")(*a))


def pbad(ctx, fn, cat, detail):
    viol(ctx, "%s:%s" % (fn, cat), "%s: %s" % (fn, cat), {k: hx(v) for k, v in detail.items()})


def pp_degclass(v, B):
    if v == 0:
        return "0"
    d = v.bit_length() - 1
    return {0: "deg=kB", 1: "deg=kB+1", B - 1: "deg=kB-1"}.get(d % B, "deg=other")


def unit_pp_arith(ctx):
    """ppDeg, ppMulW, ppAddMulW, ppMul, ppSqr, ppDiv, ppMod on multi-word operands"""
    lib, rng, P = ctx.lib, ctx.rng, ctx.params
    W, B = lib.W, lib.B
    X = 1 << B
    nmax = P.get("nmax", 12)
    hist = {}
    for it in range(P["cases"]):
        fn = ("ppDeg", "ppMulW", "ppAddMulW", "ppMul", "ppMul", "ppSqr", "ppDiv", "ppDiv", "ppMod", "ppMod")[it % 10]
        big = rng.random() < 0.12
        n = rng.randint(0, 20 if big else nmax)
        m = rng.randint(0, 20 if big else nmax)
        alias = rng.randrange(4)
        sel = rng.random()
        a = pp_val(rng, n, B)
        b = pp_val(rng, m, B)
        bt = pp_top(rng, max(m, 1), B)
        w = pp_val(rng, 1, B)
        q0 = pp_val(rng, max(n - m, 0) + 1, B)
        r0 = pp_val(rng, max(m, 1), B)
        if fn == "ppDeg":
            if not ctx.case([fn, n, a], "ppDeg:" + pp_degclass(a, B)):
                continue
            got = lib.ppDeg(lib.mkw(a, n), n)
            ctx.digest(got)
            exp = a.bit_length() - 1 if a else SIZE_MAX
            if got != exp:
                pbad(ctx, fn, "value", {"a": a, "n": n, "got": got, "expected": exp})
        elif fn in ("ppMulW", "ppAddMulW"):
            inplace = alias == 0
            if not ctx.case([fn, n, a, w, b if fn == "ppAddMulW" else None, inplace], "%s:n=%s%s" % (fn, "0" if n == 0 else "1" if n == 1 else ">1", ":b=a" if inplace else "")):
                continue
            b2 = b & ((1 << (n * B)) - 1) if m >= n else b
            pa = lib.mkw(a, n)
            st = pp_stack(lib, fn, n)
            if fn == "ppMulW":
                pb = pa if inplace else lib.outw(n)
                carry = lib.ppMulW(pb, pa, n, w, st)
                exp = G.mul(a, w)
            else:
                if inplace:
                    pb, b2 = pa, a
                else:
                    pb = lib.mkw(b2, n)
                carry = lib.ppAddMulW(pb, pa, n, w, st)
                exp = b2 ^ G.mul(a, w)
            got = lib.rdw(pb, n) | (carry << (n * B))
            ctx.digest(got)
            if got != exp:
                pbad(ctx, fn, "alias:b=a" if inplace else "value", {"a": a, "b": b2, "w": w, "n": n, "got": got, "expected": exp})
        elif fn == "ppMul":
            same = alias == 0 and n == m
            if same:
                b = a
            if not ctx.case([fn, n, a, m, b, same], "ppMul:%s%s" % ("n=m" if n == m else "n<m" if n < m else "n>m", ":karatsuba" if min(n, m) > 9 else "")):
                continue
            bump(hist, "ppMul:min(n,m)=%d" % min(n, m))
            pa = lib.mkw(a, n)
            pb = pa if same else lib.mkw(b, m)
            c = lib.outw(n + m)
            lib.ppMul(c, pa, n, pb, m, pp_stack(lib, fn, n, m))
            got = lib.rdw(c, n + m)
            ctx.digest(got)
            if got != G.mul(a, b):
                pbad(ctx, fn, "alias:a=b" if same else "value", {"a": a, "n": n, "b": b, "m": m, "got": got, "expected": G.mul(a, b)})
        elif fn == "ppSqr":
            if not ctx.case([fn, n, a], "ppSqr:n=%s" % ("0" if n == 0 else "1" if n == 1 else ">1")):
                continue
            c = lib.outw(2 * n)
            lib.ppSqr(c, lib.mkw(a, n), n, pp_stack(lib, fn, n))
            got = lib.rdw(c, 2 * n)
            ctx.digest(got)
            if got != G.mul(a, a) or got != gsqr(a):
                pbad(ctx, fn, "value", {"a": a, "n": n, "got": got, "expected": G.mul(a, a)})
        else:
            # division: b with non-zero top word; b == 1 (m == 1) is driven by unit_pp_edge (aborts on the examined tree)
            m = max(m, 1)
            b = bt
            if fn == "ppDiv" and n < m:
                n = m + (n % 3)
                a = pp_val(rng, n, B) if False else (a | (q0 << (B * 0))) & ((1 << (n * B)) - 1)
            if sel < 0.25 and n >= m:
                # a = q*b + r with deg r = deg b - 1 (maximal remainder), quotient of full length
                r1 = (r0 & ((1 << (b.bit_length() - 1)) - 1)) | (1 << (b.bit_length() - 2)) if b.bit_length() > 1 else 0
                a = (G.mul(q0, b) ^ r1) & ((1 << (n * B)) - 1)
            elif sel < 0.32:
                a = b & ((1 << (n * B)) - 1)
            if b == 1 and m == 1:
                b = 3
            inplace = alias == 0 and n >= m
            rn = fn == "ppDiv" and alias == 1 and n > m          # header-literal remainder size [n]r
            cls = "%s:%s:%s" % (fn, "n<m" if n < m else "n=m" if n == m else "n>m",
                                "top=1" if b >> ((m - 1) * B) == 1 else "topbit" if b >> (m * B - 1) else "top-other")
            if not ctx.case([fn, n, a, m, b, inplace, rn], cls + (":r=a" if inplace else "")):
                continue
            bump(hist, "%s:deg(a)%sdeg(b)" % (fn, "<" if a.bit_length() < b.bit_length() else ">="))
            q_exp, r_exp = G.divmod_(a, b)
            pa, pb = lib.mkw(a, n), lib.mkw(b, m)
            st = pp_stack(lib, fn, n, m)
            if fn == "ppDiv":
                pq = lib.outw(n - m + 1)
                pr = pa if inplace else lib.outw(n if rn else m)
                lib.ppDiv(pq, pr, pa, n, pb, m, st)
                gq, gr = lib.rdw(pq, n - m + 1), lib.rdw(pr, m)
                ctx.digest(gq, gr)
                if gq != q_exp or gr != r_exp:
                    pbad(ctx, fn, "alias:r=a" if inplace else "value", {"a": a, "n": n, "b": b, "m": m, "q": gq, "r": gr, "q_expected": q_exp, "r_expected": r_exp})
                elif rn and lib.rdw(pr, n) != r_exp:
                    # pp.h declares the remainder of ppDiv as [n]r; the function writes m words only
                    pbad(ctx, fn, "size:r-declared-[n]-only-[m]-words-written", {"n": n, "m": m, "a": a, "b": b, "r_as_n_words": lib.rdw(pr, n), "expected": r_exp})
            else:
                pr = pa if inplace else lib.outw(m)
                lib.ppMod(pr, pa, n, pb, m, st)
                gr = lib.rdw(pr, m)
                ctx.digest(gr)
                if gr != r_exp:
                    pbad(ctx, fn, "alias:r=a" if inplace else "value", {"a": a, "n": n, "b": b, "m": m, "r": gr, "r_expected": r_exp})
        lib.release()
    ctx.note("pp_arith", hist)


def jobs(tier, scale=1.0):
    q = tier == "quick"
    J = []

    def sc(v):
        return max(1, int(v * scale))
    nz = 6 if q else 16
    for k in range(nz):
        J.append({"unit": "c05_pp:unit_zm", "params": {"chunk": k, "nchunks": nz, "cases": sc(1500 if q else 12000), "tuples": 3 if q else 5}})
    J.append({"unit": "c05_pp:unit_zm_edge", "params": {}})
    for k in range(2 if q else 4):
        J.append({"unit": "c05_pp:unit_pp_arith", "params": {"chunk": k, "cases": sc(6000 if q else 60000)}})
    return J
