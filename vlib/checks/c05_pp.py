"""C05, second half -- exactness of the modular-ring layer (zm.h, gfp.h, qr.h) and of the
binary-polynomial layer (pp.h, gf2.h).

No main(): c05.py combines jobs() of this module with c05_zz.jobs().

Oracles: Python integers mod the modulus (rings), vlib/ref/gf2poly.py (bit vectors) for GF(2)[x].
Every ring is driven through the function pointers of its qr_o description, exactly as the qrXxx
macros of qr.h do.
"""
import ctypes, math

from ..core import Harness
from ..ref import gf2poly as G

LEVEL = "exploration"
SIZE_MAX = (1 << 64) - 1

# ----------------------------------------------------------------------------------------------
# qr_o mirror (qr.h, obj.h): size_t and pointers are 8 octets in every configuration
# ----------------------------------------------------------------------------------------------

_P = ctypes.c_void_p
_Z = ctypes.c_size_t


class ObjHdr(ctypes.Structure):
    _fields_ = [("keep", _Z), ("p_count", _Z), ("o_count", _Z)]


class QrO(ctypes.Structure):
    _fields_ = [("hdr", ObjHdr),
                ("mod", _P), ("unity", _P), ("params", _P),
                ("n", _Z), ("no", _Z),
                ("from_", _P), ("to", _P), ("add", _P), ("sub", _P), ("neg", _P),
                ("mul", _P), ("sqr", _P), ("inv", _P), ("div", _P),
                ("deep", _Z)]


F_FROM = ctypes.CFUNCTYPE(ctypes.c_int, _P, _P, _P, _P)      # b, a, r, stack
F_TO = ctypes.CFUNCTYPE(None, _P, _P, _P, _P)                # b, a, r, stack
F_ADD = ctypes.CFUNCTYPE(None, _P, _P, _P, _P)               # c, a, b, r
F_NEG = ctypes.CFUNCTYPE(None, _P, _P, _P)                   # b, a, r
F_MUL = ctypes.CFUNCTYPE(None, _P, _P, _P, _P, _P)           # c, a, b, r, stack
F_SQR = ctypes.CFUNCTYPE(None, _P, _P, _P, _P)               # b, a, r, stack

ZM_CREATE = {"plain": "zmCreatePlain", "crand": "zmCreateCrand", "barr": "zmCreateBarr",
             "mont": "zmCreateMont", "auto": "zmCreate", "gfp": "gfpCreate", "montR": "zmMontCreate"}


class Ring:
    """A ring description living in an exact-size heap block; operations go through its function table."""

    def __init__(self, lib, state, keep_alloc):
        if ctypes.sizeof(QrO) != 144:
            raise Harness("qr_o mirror has unexpected size")
        self.lib, self.p, self.keep_alloc = lib, state, keep_alloc
        q = QrO.from_address(state)
        self.q = q
        self.n, self.no, self.deep = q.n, q.no, q.deep
        for name, ty in (("from_", F_FROM), ("to", F_TO), ("add", F_ADD), ("sub", F_ADD), ("neg", F_NEG),
                         ("mul", F_MUL), ("sqr", F_SQR), ("inv", F_SQR), ("div", F_MUL)):
            addr = getattr(q, name)
            setattr(self, "_" + name, ty(addr) if addr else None)
        self.ret = None

    @staticmethod
    def zm(lib, kind, M, no, l=None):
        """zmCreateXxx / gfpCreate with exact state and stack; the creation stack and the octet
        string of the modulus are freed right after the call (the description must not refer to them)."""
        fn = ZM_CREATE[kind]
        keep = getattr(lib, fn + "_keep")(no)
        deep = getattr(lib, fn + "_deep")(no)
        modp = lib.mk(M.to_bytes(no, "little"))
        state = lib.alloc(keep)
        stack = lib.alloc(deep)
        if kind == "montR":
            ret = lib.zmMontCreate(state, modp, no, l, stack)
        else:
            ret = getattr(lib, fn)(state, modp, no, stack)
        lib.free_one(stack)
        lib.free_one(modp)
        if kind == "gfp" and not ret:
            return None
        r = Ring(lib, state, keep)
        r.ret = ret
        return r

    @staticmethod
    def gf2(lib, p4):
        m = p4[0]
        keep = lib.gf2Create_keep(m)
        deep = lib.gf2Create_deep(m)
        pp = lib.mk(b"".join(int(v).to_bytes(8, "little") for v in p4))
        state = lib.alloc(keep)
        stack = lib.alloc(deep)
        ret = lib.gf2Create(state, pp, stack)
        lib.free_one(stack)
        lib.free_one(pp)
        if not ret:
            return None
        r = Ring(lib, state, keep)
        r.ret = ret
        return r

    # raw views
    def unity_int(self):
        return self.lib.rdw(self.q.unity, self.n)

    def mod_int(self, n1=None):
        return self.lib.rdw(self.q.mod, n1 or self.n)

    def stack(self):
        return self.lib.alloc(self.deep)

    # operations (pointers in, nothing out)
    def from_(self, b, a, st):
        return self._from_(b, a, self.p, st)

    def to(self, b, a, st):
        self._to(b, a, self.p, st)

    def add(self, c, a, b):
        self._add(c, a, b, self.p)

    def sub(self, c, a, b):
        self._sub(c, a, b, self.p)

    def neg(self, b, a):
        self._neg(b, a, self.p)

    def mul(self, c, a, b, st):
        self._mul(c, a, b, self.p, st)

    def sqr(self, b, a, st):
        self._sqr(b, a, self.p, st)

    def inv(self, b, a, st):
        self._inv(b, a, self.p, st)

    def div(self, b, d, a, st):
        self._div(b, d, a, self.p, st)
