"""C05, second half -- exactness of the modular-ring layer (zm.h, gfp.h, qr.h) and of the
binary-polynomial layer (pp.h, gf2.h).

No main(): c05.py combines jobs() of this module with c05_zz.jobs().

Oracles: Python integers mod the modulus (rings), vlib/ref/gf2poly.py (bit vectors) for GF(2)[x].
Every ring is driven through the function pointers of its qr_o description, exactly as the qrXxx
macros of qr.h do.
"""
import ctypes, math

from ..core import Harness
from ..ref import gf2poly as G

LEVEL = "exploration"
SIZE_MAX = (1 << 64) - 1

# Input classes on which the snapshot tree aborted (ASan report / live ASSERT) although the headers admit them.
# All of these defects have been repaired in /repo (commit in the comment), so every flag is False and the classes are
# part of the bulk streams; each keeps literal regression cases (class labels "regress:...") in unit_zm_edge /
# unit_pp_edge / unit_gf2. Setting a flag to True keeps the bulk generators away from that class again (useful when a
# mutant re-introduces the defect: every abort costs a worker restart and the runner gives up after 25 per job).
AVOID = {
    "ppDiv:deg(b)=k*B": False,       # ppDiv wrote q[n - m + 1] when the top word of b is 1 (71b001a)
    "pp:division-by-1": False,       # ppDiv / ppMod / ppRed with b = 1 (m = 1): out-of-bounds accesses (71b001a)
    "ppExGCD:even-cofactor": False,  # ASSERT pp_gcd.c / wrong Bezout coefficients unless a/x^s, b/x^s both odd (8531296)
    "ppExGCD:n<m": False,            # m words copied into [min(n, m)]d (8531296)
    "ppMinPoly:a-size": False,       # 2*W_OF_B(l) words of a were read, pp.h declares W_OF_B(2l) (dd93304)
    "zm:even-modulus-inv": False,    # zmInv / zmDiv -> zzDivMod requires an odd modulus (48de5f3)
    "zm:montR-short-zd": False,      # zero divisors with l < B*n aborted in zzDoubleMod before zzRedMont was repaired
    "gf2:aligned-inv": False,        # gf2Inv / gf2Div read n + 1 words of an n-word element when B | m (1b74953)
}

# ----------------------------------------------------------------------------------------------
# qr_o mirror (qr.h, obj.h): size_t and pointers are 8 octets in every configuration
# ----------------------------------------------------------------------------------------------

_P = ctypes.c_void_p
_Z = ctypes.c_size_t


class ObjHdr(ctypes.Structure):
    _fields_ = [("keep", _Z), ("p_count", _Z), ("o_count", _Z)]


class QrO(ctypes.Structure):
    _fields_ = [("hdr", ObjHdr),
                ("mod", _P), ("unity", _P), ("params", _P),
                ("n", _Z), ("no", _Z),
                ("from_", _P), ("to", _P), ("add", _P), ("sub", _P), ("neg", _P),
                ("mul", _P), ("sqr", _P), ("inv", _P), ("div", _P),
                ("deep", _Z)]


F_FROM = ctypes.CFUNCTYPE(ctypes.c_int, _P, _P, _P, _P)      # b, a, r, stack
F_TO = ctypes.CFUNCTYPE(None, _P, _P, _P, _P)                # b, a, r, stack
F_ADD = ctypes.CFUNCTYPE(None, _P, _P, _P, _P)               # c, a, b, r
F_NEG = ctypes.CFUNCTYPE(None, _P, _P, _P)                   # b, a, r
F_MUL = ctypes.CFUNCTYPE(None, _P, _P, _P, _P, _P)           # c, a, b, r, stack
F_SQR = ctypes.CFUNCTYPE(None, _P, _P, _P, _P)               # b, a, r, stack

ZM_CREATE = {"plain": "zmCreatePlain", "crand": "zmCreateCrand", "barr": "zmCreateBarr",
             "mont": "zmCreateMont", "auto": "zmCreate", "gfp": "gfpCreate", "montR": "zmMontCreate"}


class Ring:
    """A ring description living in an exact-size heap block; operations go through its function table."""

    def __init__(self, lib, state, keep_alloc):
        if ctypes.sizeof(QrO) != 144:
            raise Harness("qr_o mirror has unexpected size")
        self.lib, self.p, self.keep_alloc = lib, state, keep_alloc
        q = QrO.from_address(state)
        self.q = q
        self.n, self.no, self.deep = q.n, q.no, q.deep
        for name, ty in (("from_", F_FROM), ("to", F_TO), ("add", F_ADD), ("sub", F_ADD), ("neg", F_NEG),
                         ("mul", F_MUL), ("sqr", F_SQR), ("inv", F_SQR), ("div", F_MUL)):
            addr = getattr(q, name)
            setattr(self, "_" + name, ty(addr) if addr else None)
        self.ret = None

    @staticmethod
    def zm(lib, kind, M, no, l=None):
        """zmCreateXxx / gfpCreate with exact state and stack; the creation stack and the octet
        string of the modulus are freed right after the call (the description must not refer to them)."""
        fn = ZM_CREATE[kind]
        keep = getattr(lib, fn + "_keep")(no)
        deep = getattr(lib, fn + "_deep")(no)
        modp = lib.mk(M.to_bytes(no, "little"))
        state = lib.alloc(keep)
        stack = lib.alloc(deep)
        if kind == "montR":
            ret = lib.zmMontCreate(state, modp, no, l, stack)
        else:
            ret = getattr(lib, fn)(state, modp, no, stack)
        lib.free_one(stack)
        lib.free_one(modp)
        if kind == "gfp" and not ret:
            return None
        r = Ring(lib, state, keep)
        r.ret = ret
        return r

    @staticmethod
    def gf2(lib, p4):
        m = p4[0]
        keep = lib.gf2Create_keep(m)
        deep = lib.gf2Create_deep(m)
        pp = lib.mk(b"".join(int(v).to_bytes(8, "little") for v in p4))
        state = lib.alloc(keep)
        stack = lib.alloc(deep)
        ret = lib.gf2Create(state, pp, stack)
        lib.free_one(stack)
        lib.free_one(pp)
        if not ret:
            return None
        r = Ring(lib, state, keep)
        r.ret = ret
        return r

    # raw views
    def unity_int(self):
        return self.lib.rdw(self.q.unity, self.n)

    def mod_int(self, n1=None):
        return self.lib.rdw(self.q.mod, n1 or self.n)

    def stack(self, exact=True):
        """stack for the ring operations: exactly r->deep (qr.h)"""
        return self.lib.alloc(self.deep)

    # operations (pointers in, nothing out)
    def from_(self, b, a, st):
        return self._from_(b, a, self.p, st)

    def to(self, b, a, st):
        self._to(b, a, self.p, st)

    def add(self, c, a, b):
        self._add(c, a, b, self.p)

    def sub(self, c, a, b):
        self._sub(c, a, b, self.p)

    def neg(self, b, a):
        self._neg(b, a, self.p)

    def mul(self, c, a, b, st):
        self._mul(c, a, b, self.p, st)

    def sqr(self, b, a, st):
        self._sqr(b, a, self.p, st)

    def inv(self, b, a, st):
        self._inv(b, a, self.p, st)

    def div(self, b, d, a, st):
        self._div(b, d, a, self.p, st)


# ----------------------------------------------------------------------------------------------
# small helpers
# ----------------------------------------------------------------------------------------------

_REPORTED = {}


def viol(ctx, key, what, detail, limit=3):
    """emit a violation, at most `limit` witnesses per key and worker (the runner counts occurrences)"""
    n = _REPORTED.get(key, 0)
    _REPORTED[key] = n + 1
    if n < limit:
        ctx.violation(key, what, detail)


def hx(v):
    return hex(v) if isinstance(v, int) else v


def bump(d, k):
    d[k] = d.get(k, 0) + 1


_SMALL_PRIMES = [2, 3, 5, 7, 11, 13, 17, 19, 23, 29, 31, 37, 41, 43, 47, 53, 59, 61, 67, 71, 73, 79, 83, 89, 97,
                 101, 103, 107, 109, 113, 127, 131, 137, 139, 149, 151, 157, 163, 167, 173, 179, 181, 191, 193, 197, 199]


def is_prime(n):
    """trial division + Miller-Rabin with 30 fixed prime bases (deterministic far beyond 2^64; for larger
    numbers the error bound 4^-30 is irrelevant for operands that are not adversarial to these bases)"""
    if n < 2:
        return False
    for p in _SMALL_PRIMES:
        if n % p == 0:
            return n == p
    d, s = n - 1, 0
    while d % 2 == 0:
        d //= 2
        s += 1
    for a in _SMALL_PRIMES[:30]:
        x = pow(a, d, n)
        if x in (1, n - 1):
            continue
        for _ in range(s - 1):
            x = x * x % n
            if x == n - 1:
                break
        else:
            return False
    return True


def next_prime(n):
    n |= 1
    while not is_prime(n):
        n += 2
    return n


def selftest_primes():
    if [p for p in range(60) if is_prime(p)] != _SMALL_PRIMES[:17]:
        raise Harness("is_prime model broken (small)")
    for c in (561, 1105, 1729, 41041, 825265, 321197185, 5394826801, 232250619601, (2 ** 61 - 1) * (2 ** 31 - 1), (2 ** 89 - 1) ** 2):
        if is_prime(c):
            raise Harness("is_prime model accepts composite %d" % c)
    for p in (2 ** 31 - 1, 2 ** 61 - 1, 2 ** 89 - 1, 2 ** 127 - 1, 2 ** 255 - 19, 2 ** 521 - 1, 2 ** 64 - 59, 2 ** 128 - 159):
        if not is_prime(p):
            raise Harness("is_prime model rejects prime %d" % p)


# ----------------------------------------------------------------------------------------------
# oracle algebras: external integers <-> internal ring elements
# ----------------------------------------------------------------------------------------------

class ZAlg:
    """Z/(M) whose elements are stored as x*R mod M (R = 1: ordinary ring; zm.h: Montgomery ring R = B^n,
    'pure' Montgomery ring R = 2^l). Everything below is the text of zm.h in Python integers."""

    def __init__(self, M, R, plain_io=False):
        self.M, self.R, self.plain_io = M, R % M, plain_io
        self.Ri = pow(self.R, -1, M) if math.gcd(self.R, M) == 1 and M > 1 else None

    def valid(self, e):
        return 0 <= e < self.M

    def enc(self, x):
        return x * self.R % self.M

    def dec(self, e):
        return e * self.Ri % self.M

    def add(self, x, y):
        return (x + y) % self.M

    def sub(self, x, y):
        return (x - y) % self.M

    def neg(self, x):
        return (-x) % self.M

    def mul(self, x, y):
        return x * y % self.M

    def inv(self, x):
        return pow(x, -1, self.M) if math.gcd(x, self.M) == 1 else None

    def pow(self, x, e):
        return pow(x, e, self.M)

    def code(self, x):
        return self.enc(x) if self.plain_io else x


def sparse_mod(a, m, taps):
    """a mod (x^m + sum x^t + 1), by the defining congruence x^m = sum x^t + 1"""
    mask = (1 << m) - 1
    while a >> m:
        h = a >> m
        a &= mask
        a ^= h
        for t in taps:
            a ^= h << t
    return a


def gsqr(a):
    """square in GF(2)[x]: a zero bit between any two bits (binary digits read as base-4 digits)"""
    return int(format(a, "b"), 4)


class FAlg:
    """GF(2)[x]/(f), f = x^m + x^k (+ x^l + x^l1) + 1; elements are stored as they are"""

    def __init__(self, p4):
        self.m = p4[0]
        self.taps = [t for t in p4[1:] if t]
        self.M = (1 << self.m) | 1
        for t in self.taps:
            self.M |= 1 << t
        self.R = 1

    def valid(self, e):
        return 0 <= e < (1 << self.m)

    def enc(self, x):
        return x

    def dec(self, e):
        return e

    def add(self, x, y):
        return x ^ y

    sub = add

    def neg(self, x):
        return x

    def code(self, x):
        return x

    def mul(self, x, y):
        return sparse_mod(G.mul(x, y), self.m, self.taps)

    def sqr(self, x):
        return sparse_mod(gsqr(x), self.m, self.taps)

    def inv(self, x):
        if x == 0:
            return None
        d, u, _ = G.exgcd(x, self.M)
        return G.mod(u, self.M) if d == 1 else None

    def pow(self, x, e):
        r = 1
        while e:
            if e & 1:
                r = self.mul(r, x)
            x = self.sqr(x)
            e >>= 1
        return r

    def trace(self, x):
        t, s = x, x
        for _ in range(self.m - 1):
            t = self.sqr(t)
            s ^= t
        return s

    def selftest(self, rng_vals):
        for a, b in rng_vals:
            if self.mul(a, b) != G.mulmod(a, b, self.M) or self.sqr(a) != G.mulmod(a, a, self.M):
                raise Harness("sparse reduction model disagrees with gf2poly.mulmod")


# ----------------------------------------------------------------------------------------------
# generic ring case: from/to, additive and multiplicative operations, aliasing, qrPower
# ----------------------------------------------------------------------------------------------

def ring_case(ctx, ring, alg, kind, x, y, e, epad, do_inv=True, direct=False, extra_rej=()):
    """Runs every operation of the ring on the external operands x, y (elements are obtained with the
    ring's own `from`), exponent e. Returns the list of observed results (external form) for the digest.
    direct=True additionally feeds x, y as *internal* elements (Montgomery-type rings)."""
    lib = ctx.lib
    W, n, no = lib.W, ring.n, ring.no
    nW = n * W
    st = ring.stack()
    out = []

    def octs(v):
        """code of the external value v (zm.h / gf2.h: the number / polynomial itself, little-endian; in a
        'pure' Montgomery ring of zmMontCreate the element as it is)"""
        return alg.code(v).to_bytes(no, "little")

    def bad(fn, cat, detail):
        d = {"mod": hx(alg.M), "kind": kind, "x": hx(x), "y": hx(y), "n": n, "no": no}
        d.update(detail)
        viol(ctx, "%s@%s:%s" % (fn, kind, cat), "%s in ring %s: %s" % (fn, kind, cat), d)

    def res(fn, p, exp_ext, variant=None, base_ok=True):
        """compare the n-word result at p with the internal image of exp_ext"""
        got = lib.rdw(p, n)
        exp = alg.enc(exp_ext)
        ok = got == exp
        if not ok and (variant is None or base_ok):
            if variant is not None:
                cat = "alias:" + variant
            elif not alg.valid(got):
                cat = "not-reduced"
            else:
                cat = "value"
            bad(fn, cat, {"got": hx(got), "expected": hx(exp), "expected_external": hx(exp_ext),
                          "congruent": (got - exp) % alg.M == 0 if isinstance(alg, ZAlg) else None})
        if variant is None:
            out.append(alg.dec(got) if alg.valid(got) else ("!", got))
        return ok

    def elem(v_int):
        return lib.mkw(v_int, n)

    # --- from: external octets -> element; in place as well (qr.h: a == b allowed)
    ex = lib.outw(n)
    r1 = ring.from_(ex, lib.mk(octs(x)), st)
    if not r1:
        bad("qrFrom", "return", {"what": "valid code rejected", "code": octs(x)})
    res("qrFrom", ex, x)
    ey = lib.outw(n)
    r2 = ring.from_(ey, lib.mk(octs(y)), st)
    if not r2:
        bad("qrFrom", "return", {"what": "valid code rejected", "code": octs(y)})
    res("qrFrom", ey, y)
    buf = lib.mk(octs(x) + bytes([lib.fillbyte]) * (max(nW, no) - no))
    r3 = ring.from_(buf, buf, st)
    if not r3:
        bad("qrFrom", "alias:b=a", {"what": "valid code rejected in place"})
    res("qrFrom", buf, x, "b=a")
    # from here on the canonical elements (so that a broken `from` does not mask the other operations)
    ax, ay = alg.enc(x), alg.enc(y)
    ex, ey = elem(ax), elem(ay)
    # --- to
    ob = lib.alloc(no)
    ring.to(ob, ex, st)
    got = lib.rd(ob, no)
    out.append(got)
    if got != octs(x):
        bad("qrTo", "value", {"got": got, "expected": octs(x)})
    buf = lib.mk(ax.to_bytes(nW, "little") + bytes([lib.fillbyte]) * (max(nW, no) - nW))
    ring.to(buf, buf, st)
    if lib.rd(buf, no) != octs(x):
        bad("qrTo", "alias:b=a", {"got": lib.rd(buf, no), "expected": octs(x)})
    # --- range rejection (codes that are not elements)
    for code in extra_rej:
        t = lib.outw(n)
        r = ring.from_(t, lib.mk(code), st)
        out.append(int(bool(r)))
        if r:
            bad("qrFrom", "accepts-out-of-range", {"code": code})
    # --- additive
    c = lib.outw(n)
    ring.add(c, ex, ey)
    ok = res("qrAdd", c, alg.add(x, y))
    t = elem(ax); ring.add(t, t, ey); res("qrAdd", t, alg.add(x, y), "c=a", ok)
    t = elem(ay); ring.add(t, ex, t); res("qrAdd", t, alg.add(x, y), "c=b", ok)
    c = lib.outw(n); ring.add(c, ex, ex); ok2 = res("qrAdd", c, alg.add(x, x))
    t = elem(ax); ring.add(t, t, t); res("qrAdd", t, alg.add(x, x), "c=a=b", ok2)
    c = lib.outw(n)
    ring.sub(c, ex, ey)
    ok = res("qrSub", c, alg.sub(x, y))
    t = elem(ax); ring.sub(t, t, ey); res("qrSub", t, alg.sub(x, y), "c=a", ok)
    t = elem(ay); ring.sub(t, ex, t); res("qrSub", t, alg.sub(x, y), "c=b", ok)
    t = elem(ax); ring.sub(t, t, t); res("qrSub", t, 0, "c=a=b", True)
    c = lib.outw(n)
    ring.neg(c, ex)
    ok = res("qrNeg", c, alg.neg(x))
    t = elem(ax); ring.neg(t, t); res("qrNeg", t, alg.neg(x), "b=a", ok)
    # add/sub with the ring's unity (qrAddUnity / qrSubUnity)
    c = lib.outw(n); ring.add(c, ex, ring.q.unity); res("qrAddUnity", c, alg.add(x, 1))
    # --- multiplicative
    c = lib.outw(n)
    ring.mul(c, ex, ey, st)
    ok = res("qrMul", c, alg.mul(x, y))
    ob = lib.alloc(no); ring.to(ob, c, st) if ok else None
    if ok and lib.rd(ob, no) != octs(alg.mul(x, y)):
        bad("qrTo", "value", {"element": hx(lib.rdw(c, n)), "got": lib.rd(ob, no), "expected": octs(alg.mul(x, y))})
    t = elem(ax); ring.mul(t, t, ey, st); res("qrMul", t, alg.mul(x, y), "c=a", ok)
    t = elem(ay); ring.mul(t, ex, t, st); res("qrMul", t, alg.mul(x, y), "c=b", ok)
    c = lib.outw(n); ring.mul(c, ex, ex, st); ok2 = res("qrMul", c, alg.mul(x, x))
    t = elem(ax); ring.mul(t, t, t, st); res("qrMul", t, alg.mul(x, x), "c=a=b", ok2)
    c = lib.outw(n); ring.mul(c, ex, ring.q.unity, st); res("qrMul", c, x)            # a * unity = a
    c = lib.outw(n)
    ring.sqr(c, ex, st)
    ok = res("qrSqr", c, alg.mul(x, x))
    sqr_in_ring = alg.valid(lib.rdw(c, n))
    t = elem(ax); ring.sqr(t, t, st); res("qrSqr", t, alg.mul(x, x), "b=a", ok)
    # --- inverse / quotient (invertible x only; non-invertible elements are driven by the edge unit)
    xi = alg.inv(x) if do_inv else None
    if xi is not None:
        c = lib.outw(n)
        ring.inv(c, ex, st)
        ok = res("qrInv", c, xi)
        t = elem(ax); ring.inv(t, t, st); res("qrInv", t, xi, "b=a", ok)
        q = alg.mul(y, xi)
        c = lib.outw(n)
        ring.div(c, ey, ex, st)
        ok = res("qrDiv", c, q)
        t = elem(ay); ring.div(t, t, ex, st); res("qrDiv", t, q, "b=divident", ok)
        t = elem(ax); ring.div(t, ey, t, st); res("qrDiv", t, q, "b=a", ok)
        t = elem(ax); ring.div(t, t, t, st); res("qrDiv", t, alg.mul(x, xi), "b=divident=a", ok)
    # --- qrPower (its first step is sqr(a): when the ring's own sqr has just returned a value outside the
    # ring for this very operand, the \pre "element belongs to r" of the next internal call is false by the
    # library's own doing; the defect is already reported above and the chained call is not made)
    if e is not None and not sqr_in_ring:
        bump(ctx.extra.setdefault("power_skipped_after_unreduced_sqr", {}), kind)
    if e is not None and sqr_in_ring:
        m = (e.bit_length() + lib.B - 1) // lib.B + epad
        pe = lib.mkw(e, m)
        pst = lib.alloc(lib.qrPower_deep(n, m, ring.deep))
        c = lib.outw(n)
        lib.qrPower(c, ex, pe, m, ring.p, pst)
        ok = res("qrPower", c, alg.pow(x, e))
        if ok:
            ob = lib.alloc(no); ring.to(ob, c, st)
            if lib.rd(ob, no) != octs(alg.pow(x, e)):
                bad("qrTo", "value", {"element": hx(lib.rdw(c, n)), "got": lib.rd(ob, no)})
    # --- x, y taken as internal elements (Montgomery representation: formulas of zm.h with R)
    if direct and alg.Ri is not None and alg.R != 1:
        M, R, Ri = alg.M, alg.R, alg.Ri
        dx, dy = elem(x), elem(y)

        def dres(fn, p, exp):
            got = lib.rdw(p, n)
            if got != exp:
                bad(fn, "not-reduced" if got >= M else "value", {"internal_operands": True, "got": hx(got), "expected": hx(exp), "R": hx(R)})
        c = lib.outw(n); ring.mul(c, dx, dy, st); dres("qrMul", c, x * y * Ri % M)
        c = lib.outw(n); ring.sqr(c, dx, st); dres("qrSqr", c, x * x * Ri % M)
        c = lib.outw(n); ring.add(c, dx, dy); dres("qrAdd", c, (x + y) % M)
        c = lib.outw(n); ring.sub(c, dx, dy); dres("qrSub", c, (x - y) % M)
        ob = lib.alloc(no); ring.to(ob, dx, st)
        if lib.rd(ob, no) != octs(x * Ri % M):
            bad("qrTo", "value", {"internal_operands": True, "element": hx(x), "got": lib.rd(ob, no), "expected": octs(x * Ri % M)})
        if do_inv and math.gcd(x, M) == 1:
            xi2 = pow(x, -1, M)
            c = lib.outw(n); ring.inv(c, dx, st); dres("qrInv", c, xi2 * R * R % M)
            c = lib.outw(n); ring.div(c, dy, dx, st); dres("qrDiv", c, y * xi2 * R % M)
    return out


# ----------------------------------------------------------------------------------------------
# zm / gfp: moduli, operands
# ----------------------------------------------------------------------------------------------

NO_LIST = [1, 2, 3, 4, 5, 7, 8, 9, 11, 12, 13, 15, 16, 17, 20, 23, 24, 25, 28, 31, 32, 33, 36, 40, 41, 47, 48, 49,
           56, 57, 63, 64, 65, 72]
EXPONENTS = [0, 1, 2, 3, 4, 5, 7, 8, 15, 16, 17, 31, 255, 256, 65537, 2 ** 32 - 1, 2 ** 32, 2 ** 64 - 1, 2 ** 64,
             2 ** 64 + 1, 2 ** 80 - 1, 2 ** 128 - 1]


def blen(v):
    return (v.bit_length() + 7) // 8


def crand_ok(M, W):
    """zmCreateCrand \\pre: mod == B^n - c, n >= 2, 0 < c < B"""
    no = blen(M)
    if no % W or no < 2 * W:
        return False
    B = 8 * W
    c = (1 << (8 * no)) - M
    return 0 < c < (1 << B)


def bign_moduli(lib):
    out = []
    for i, l in ((1, 128), (2, 192), (3, 256)):
        p = lib.alloc(336)
        rc = lib.bignParamsStd(p, lib.cstr("1.2.112.0.2.0.34.101.45.3.%d" % i))
        raw = lib.rd(p, 336)
        lib.release()
        if rc != 0 or int.from_bytes(raw[:8], "little") != l:
            raise Harness("bignParamsStd failed / unexpected bign_params layout")
        no = l // 4
        out.append((int.from_bytes(raw[8:8 + no], "little"), "bign-p%d" % l))
        out.append((int.from_bytes(raw[200:200 + no], "little"), "bign-q%d" % l))
    for M, name in out:
        if not is_prime(M):
            raise Harness("%s is not prime under the model" % name)
    return out


def zm_fixed(lib):
    L = []

    def add(M, cls, f=None):
        L.append({"M": M, "cls": cls, "f": f})
    for M in (2, 3, 4, 5, 6, 9, 15, 16, 251, 255):
        add(M, "tiny", {6: (2, 3), 9: (3, 3), 15: (3, 5), 255: (15, 17)}.get(M))
    for M in (256, 257, 65535, 65536, 65537):
        add(M, "small")
    for k in (32, 64, 128, 192, 256, 512):
        add(2 ** k - 1, "2^k-1")
        add(2 ** k, "2^k")
        add(2 ** k + 1, "2^k+1")
    for k in (2, 3, 4, 5, 6, 8, 9):
        for c in (1, 2, 3, 59, 2 ** 32 - 1, 2 ** 32, 2 ** 32 + 15, 2 ** 63, 2 ** 64 - 1):
            add(2 ** (64 * k) - c, "B^n-c")
    for k in (3, 5, 7):
        for c in (1, 5, 2 ** 31, 2 ** 32 - 1):
            add(2 ** (32 * k) - c, "B^n-c")
    for M in (2 ** 61 - 1, 2 ** 89 - 1, 2 ** 127 - 1, 2 ** 255 - 19, 2 ** 521 - 1, 2 ** 64 - 59, 2 ** 128 - 159):
        add(M, "prime")
    bg = bign_moduli(lib)
    for M, name in bg:
        add(M, "bign")
    # generalised Mersenne (Solinas) shapes: long runs of ones and zeros in the modulus drive the quotient
    # estimates of Barrett / ordinary reduction to their correction limits
    for M in (2 ** 128 - 2 ** 64 + 1, 2 ** 192 - 2 ** 64 - 1, 2 ** 224 - 2 ** 96 + 1, 2 ** 256 - 2 ** 224 + 2 ** 192 + 2 ** 96 - 1,
              2 ** 384 - 2 ** 128 - 2 ** 96 + 2 ** 32 - 1, 2 ** 128 - 2 ** 97 - 1, 2 ** 160 - 2 ** 31 - 1, 2 ** 96 - 2 ** 32 + 1,
              2 ** 255 + 2 ** 64 + 2, 2 ** 320 - 2 ** 288 + 2, 2 ** 127 + 2 ** 64 - 1, 2 ** 191 + 1,
              2 ** 256 - 2 ** 128 + 1, 2 ** 192 - 2 ** 96 + 1, 2 ** 384 - 2 ** 192 + 1, 2 ** 96 - 2 ** 32 - 1, 2 ** 192 - 2 ** 64 + 1,
              2 ** 512 - 2 ** 256 + 1, 2 ** 256 - 2 ** 192 + 2 ** 64 - 1):
        add(M, "solinas")
    p1, p2, p3 = 2 ** 61 - 1, 2 ** 89 - 1, 2 ** 127 - 1
    add(p1 * (2 ** 31 - 1), "composite-zd", (p1, 2 ** 31 - 1))
    add(p3 * p2, "composite-zd", (p3, p2))
    add(p3 * p3, "composite-zd", (p3, p3))
    add(bg[0][0] * bg[1][0], "composite-zd", (bg[0][0], bg[1][0]))
    add(bg[4][0] * 3, "composite-zd", (bg[4][0], 3))
    add(3 << 64, "even-low-word-0", (3, 1 << 64))
    add(p3 << 65, "even-low-word-0", (p3, 1 << 65))
    add((p2 * p1) << 1, "even", (p2 * p1, 2))
    return L


def rand_top(rng, no, style):
    """random integer of exactly `no` octets; style of the top octet: set / clear / any"""
    v = rng.getrandbits(8 * no)
    top = v >> (8 * (no - 1))
    low = v & ((1 << (8 * (no - 1))) - 1)
    if style == "set":
        top |= 0x80
    elif style == "clear":
        top = 1
    elif top == 0:
        top = 1 + (low & 0x7F)
    return (top << (8 * (no - 1))) | low


def zm_random(rng):
    no = rng.choice(NO_LIST)
    style = rng.choice(["odd", "odd", "even", "even", "composite", "square", "crand", "prime", "pow2mult", "solinas", "solinas"])
    top = rng.choice(["set", "clear", "any"])
    u = rng.getrandbits(64)
    f = None
    if style in ("odd", "even"):
        M = rand_top(rng, no, top)
        M = M | 1 if style == "odd" else M & ~1
        if M < 2:
            M = 2
    elif style == "composite":
        n1 = max(1, no // 2)
        f1 = rand_top(rng, n1, top) | 1
        f2 = (rand_top(rng, no - n1, "any") | 1) if no > n1 else 3
        f1, f2 = max(f1, 3), max(f2, 3)
        M, f = f1 * f2, (f1, f2)
    elif style == "square":
        f1 = max(3, rand_top(rng, (no + 1) // 2, top) | 1)
        M, f = f1 * f1, (f1, f1)
    elif style == "crand":
        k = 2 + u % 8
        c = [1 + (u >> 8) % 1000, 1 + (u >> 8) % (2 ** 32 - 1), 1 + (u >> 8) % (2 ** 56)][(u >> 4) % 3]
        if (u >> 3) & 1:
            M = 2 ** (64 * k) - c
        else:
            M = 2 ** (32 * (2 * k - 1)) - (c % (2 ** 32 - 1) + 1)
    elif style == "prime":
        no = min(no, 40)
        M = next_prime(rand_top(rng, no, top))
    elif style == "solinas":
        # 2^(8 no) - 2^a +- 2^b +- 1 (or 2^(8 no - 1) + ...), a, b at / near multiples of 32
        nb = 8 * no
        a_ = 32 * ((u >> 8) % max(1, nb // 32)) + (u >> 20) % 3 - 1
        b_ = 32 * ((u >> 24) % max(1, nb // 32)) + (u >> 36) % 3 - 1
        a_, b_ = min(max(a_, 1), nb - 2), min(max(b_, 1), nb - 2)
        M = (1 << nb) - (1 << a_) + (1 if (u >> 40) & 1 else -1) * (1 << b_) + (1 if (u >> 41) & 1 else -1)
        if (u >> 42) % 4 == 0:
            M = (1 << (nb - 1)) + (1 << a_) - (1 << b_) + ((u >> 44) & 3) - 1
        if M < 2 or blen(M) != no:
            M = (1 << nb) - 1 - (u >> 44) % 1000 if nb > 10 else 251
    else:
        s = [1, 8, 31, 32, 33, 63, 64, 65][u % 8]
        odd = rand_top(rng, no, top) | 1
        M, f = odd << s, (odd, 1 << s)
    cls = style if style != "composite" and style != "square" else "composite-zd"
    return {"M": M, "cls": "rnd-" + cls, "f": f}


def zm_tuples(rng, M, f, k):
    """k operand tuples (x, y, e, epad); the first ones are the fixed boundary pairs"""
    bl = M.bit_length()
    cat = [0, 1, 2 % M, M - 1, max(M - 2, 0), M // 2, (M // 2 + 1) % M, 1 << (bl - 1), (1 << (bl - 1)) - 1]
    cat = [c % M for c in cat]
    T = []
    for i in range(k):
        r = rng.getrandbits(8 * blen(M) + 64) % M
        r2 = rng.getrandbits(8 * blen(M) + 64) % M
        s = rng.getrandbits(32)
        # operands just below the modulus: mod - 1 - (number of up to half the modulus length)
        hb = bl // 2 + 6
        nr1, nr2, sh = rng.getrandbits(hb), rng.getrandbits(hb), rng.getrandbits(16)
        near1, near2 = (M - 1 - (nr1 >> (sh & 0xFF) % hb)) % M, (M - 1 - (nr2 >> (sh >> 8) % hb)) % M
        cat_i = cat + [near1, near2] * 3
        er = rng.getrandbits(192)
        e = EXPONENTS[s % len(EXPONENTS)] if (s >> 8) % 3 else er >> [184, 128, 122, 62, 0][(s >> 10) % 5]
        epad = (s >> 16) & 1
        if i == 2:
            e = er | 1 << 150          # one long exponent per (modulus, kind): > 200 chained products
        if i == 0:
            x, y = M - 1, M - 1
        elif i == 1:
            x, y = (0, 1) if s & 1 else (1 % M, 0)
        elif i == 2 and f:
            # zero divisors: x*y = 0 (mod M), x, y != 0 where possible
            x = f[0] * (1 + r % max(1, f[1] - 1)) % M
            y = f[1] * (1 + r2 % max(1, f[0] - 1)) % M
        elif i == 2:
            x, y = near1, near2
        else:
            x = cat_i[(s >> 20) % len(cat_i)] if (s >> 17) % 5 < 2 else r
            y = cat_i[(s >> 24) % len(cat_i)] if (s >> 28) % 5 < 2 else r2
            if (s >> 30) & 1 and (s >> 31) & 1:
                y = x
        T.append((x, y, e, epad))
    return T


def opclass(x, M):
    if x == 0:
        return "0"
    if x == 1:
        return "1"
    if x == M - 1:
        return "mod-1"
    return "other"


def zm_ring_and_alg(lib, kind, M, no, lsel, zd=False):
    """creates the ring; returns (ring, alg, label). lsel in [0,1) selects l of zmMontCreate.
    zd: force l = B*n (only used while AVOID["zm:montR-short-zd"] is set: with l < B*n zmMulMont2 doubles the
    result of zzRedMont, and an unreduced zzRedMont result -- reported by the l = B*n cases -- becomes an ASSERT
    abort of zzDoubleMod)"""
    W = lib.W
    n = (no + W - 1) // W
    l = None
    label = kind
    if kind == "montR":
        full = 8 * W * n
        if lsel < 0.5 or zd:
            l = full
        else:
            l = M.bit_length() + int((lsel - 0.5) * 2 * (full - M.bit_length()))
            label = "montR-short" if l < full else "montR"
    ring = Ring.zm(lib, kind, M, no, l)
    if ring is None:
        return None, None, label
    if kind in ("plain", "crand", "barr"):
        alg = ZAlg(M, 1)
    elif kind == "mont":
        alg = ZAlg(M, 1 << (8 * W * n))
    elif kind == "montR":
        alg = ZAlg(M, 1 << l, plain_io=True)
    else:
        # selector: the representation is whatever the ring says its unity is (checked by the caller)
        alg = ZAlg(M, ring.unity_int())
    return ring, alg, label


def zm_post(ctx, ring, alg, kind, M, no, prime):
    """postconditions of the constructors and the description predicates"""
    lib = ctx.lib
    W = lib.W

    def bad(fn, cat, detail):
        d = {"mod": hx(M), "no": no, "kind": kind}
        d.update(detail)
        viol(ctx, "%s@%s:%s" % (fn, kind, cat), "%s: %s" % (fn, cat), d)
    fn = ZM_CREATE[kind]
    if ring.no != no or ring.n != (no + W - 1) // W:
        bad(fn, "post", {"r.n": ring.n, "r.no": ring.no})
    if ring.q.hdr.keep > ring.keep_alloc:
        bad(fn, "keep", {"hdr.keep": ring.q.hdr.keep, "declared": ring.keep_alloc})
    if ring.mod_int() != M:
        bad(fn, "mod", {"r.mod": hx(ring.mod_int())})
    un = ring.unity_int()
    if kind in ("auto", "gfp"):
        if un not in (1, (1 << (8 * W * ring.n)) % M):
            bad(fn, "unity", {"unity": hx(un)})
    elif un != alg.enc(1):
        bad(fn, "unity", {"unity": hx(un), "expected": hx(alg.enc(1))})
    if not lib.qrIsOperable(ring.p):
        bad("qrIsOperable", "return", {})
    if not lib.zmIsValid(ring.p):
        bad("zmIsValid", "return", {})
    op = bool(lib.gfpIsOperable(ring.p))
    if op != (M % 2 == 1 and M > 1):
        bad("gfpIsOperable", "return", {"got": op})
    res = [un == 1, op]
    if prime is not None and M % 2 == 1 and M > 1:
        st = lib.alloc(lib.gfpIsValid_deep(ring.n))
        v = bool(lib.gfpIsValid(ring.p, st))
        res.append(v)
        if v != prime:
            bad("gfpIsValid", "return", {"got": v, "prime": prime})
    return res


def unit_zm(ctx):
    lib, rng, P = ctx.lib, ctx.rng, ctx.params
    W = lib.W
    selftest_primes()
    chunk, nchunks, ncases, tup = P["chunk"], P["nchunks"], P["cases"], P.get("tuples", 3)
    fixed = [m for i, m in enumerate(zm_fixed(lib)) if i % nchunks == chunk]
    words, opcls = {}, {}
    done = 0
    idx = 0
    while done < ncases:
        spec = fixed[idx] if idx < len(fixed) else zm_random(rng)
        idx += 1
        M, f = spec["M"], spec["f"]
        no = blen(M)
        prime = is_prime(M) if no <= 72 else None
        for kind in ("plain", "crand", "barr", "mont", "auto", "gfp", "montR"):
            tuples = zm_tuples(rng, M, f, tup)
            lsel = rng.random()
            if kind in ("mont", "montR", "gfp") and M % 2 == 0:
                continue
            if kind == "crand" and not crand_ok(M, W):
                continue
            if kind == "gfp" and not prime:
                # \expect of gfpCreate violated: only the predicates are judged
                if M < 3 or not ctx.case(["gfp-composite", M], "gfp:composite"):
                    continue
                ring = Ring.zm(lib, "gfp", M, no)
                r = [ring is not None]
                if ring is not None:
                    r += zm_post(ctx, ring, ZAlg(M, ring.unity_int()), "gfp", M, no, False)
                ctx.digest(r)
                lib.release()
                done += 1
                continue
            for ti, (x, y, e, epad) in enumerate(tuples):
                mcls = spec["cls"] + ("|odd" if M & 1 else "|even")
                if not ctx.case([kind, M, x, y, e, epad, lsel if kind == "montR" else None], "zm:%s:%s" % (kind, mcls)):
                    continue
                done += 1
                zd = bool((x and y and x * y % M == 0) or (x and x * x % M == 0) or (y and y * y % M == 0))
                ring, alg, label = zm_ring_and_alg(lib, kind, M, no, lsel, zd and AVOID["zm:montR-short-zd"])
                if ring is None:
                    viol(ctx, "gfpCreate@gfp:return", "gfpCreate fails for an odd prime", {"p": hx(M)})
                    lib.release()
                    continue
                if alg.plain_io:
                    # 'pure' Montgomery ring: elements are used as they are -> make x, y the *internal* values
                    x, y = alg.dec(x), alg.dec(y)
                bump(words, "n=%d" % ring.n)
                bump(opcls, "x=%s,y=%s" % (opclass(x, M), opclass(y, M)))
                if f and x and y and x * y % M == 0:
                    bump(opcls, "zero-divisors")
                if math.gcd(x, M) == 1:
                    bump(opcls, "x-invertible")
                    if M % 2 == 0 and not AVOID["zm:even-modulus-inv"]:
                        bump(opcls, "even-modulus:x-invertible(inv/div judged)")
                bump(opcls, "kind=" + label)
                out = []
                if ti == 0:
                    out += zm_post(ctx, ring, alg, kind, M, no, prime if kind == "gfp" or no <= 16 else None)
                # codes that must be rejected by `from`: mod, mod + 1, all-ones (where they fit and are >= mod)
                rej = []
                top = (1 << (8 * no)) - 1
                for v in (M, M + 1, top):
                    if M <= v <= top:
                        rej.append(v.to_bytes(no, "little"))
                # inv/div of invertible x are judged by value for every modulus (even ones too, unless avoided)
                out += ring_case(ctx, ring, alg, label, x, y, e, epad, do_inv=bool(M & 1) or not AVOID["zm:even-modulus-inv"],
                                 direct=(alg.R != 1 and not alg.plain_io), extra_rej=rej)
                ctx.digest(out)
                lib.release()
    ctx.note("zm_words", words)
    ctx.note("zm_operands", opcls)


def unit_zm_edge(ctx):
    """Literal regression cases of the ring layer, one library call per case (so that an abort is attributed to
    exactly one call), class labels "regress:zm:<defect>": every case aborted, hung or gave a wrong value on the
    snapshot tree. Non-invertible elements have an unspecified value (qr.h) and are run for termination only.
    zzDivMod(a = 0) of the snapshot never returned: the jobs of this unit carry "timeout"."""
    lib = ctx.lib
    W = lib.W
    p1, p2, p3 = 2 ** 61 - 1, 2 ** 89 - 1, 2 ** 127 - 1
    E40 = ((1 << 319) | (0x1234567 << 100) | 0x9ABCDE) & ~1            # even, 40 octets
    cases = []
    part = ctx.params.get("part", 0)
    # (A) declared depth r->deep, exactly
    for kind, M, ops in (("plain", 2 ** 190 - 11, ("mul", "sqr", "inv", "div")), ("barr", 2 ** 300 + 7, ("mul", "sqr", "inv", "div")),
                         ("crand", 2 ** 128 - 5, ("mul", "sqr")), ("mont", 2 ** 190 - 11, ("mul", "sqr", "inv", "div")),
                         ("montR", 2 ** 127 - 1, ("mul", "sqr", "inv", "div")), ("auto", 2 ** 190 - 11, ("mul", "div")),
                         ("gfp", 2 ** 255 - 19, ("mul", "div"))):
        for op in ops:
            cases.append(("deep", kind, M, op, M // 3, M // 5 | 1, None, True))
    # (B) even modulus, invertible element: the value is specified by zm.h (any natural modulus)
    cases += [("even", "plain", 10, "inv", 3, 7, None, False), ("even", "barr", 2 ** 64, "div", 2 ** 63 + 1, 5, None, False),
              ("even", "auto", E40, "inv", E40 // 2 + 2 if (E40 // 2) % 2 else E40 // 2 + 1, 9, None, False)]
    # (C), (D) non-invertible elements: qr.h "\\expect a invertible; if not, b may be anything" -- no value verdict
    cases += [("noninv", "mont", p3 * p2, "inv", 0, 1, None, False), ("noninv", "mont", p3 * p2, "div", 0, 5, None, False),
              ("noninv", "montR", p3 * p2, "inv", 0, 1, None, False),
              ("noninv", "mont", 15, "inv", 5, 1, None, False), ("noninv", "mont", p3 * p2, "div", p3, 77, None, False),
              ("noninv", "montR", p3 * p1, "inv", 3 * p1, 1, None, False),
              ("noninv", "plain", 15, "inv", 5, 1, None, False), ("noninv", "barr", p3 * p2, "div", p3, 3, None, False),
              ("noninv", "crand", 2 ** 128 - 3, "inv", 5 * 83, 1, None, False),
              # element 0 (zzDivMod(a = 0) of the snapshot never returned; the job carries a watchdog for this)
              ("noninv", "plain", 2 ** 190 - 11, "inv", 0, 1, None, False), ("noninv", "barr", p3 * p2, "div", 0, 3, None, False),
              ("noninv", "crand", 2 ** 128 - 3, "div", 0, 9, None, False), ("noninv", "plain", 15, "div", 0, 7, None, False)]
    # (F) zero divisors in 'pure' Montgomery rings with l < B*n
    for M, x, y, l in ((15, 3, 10, 40), (15, 5, 6, 4), (p3 * p2, 5 * p3, 9 * p2, 217), (p3 * p3, 3 * p3, 7 * p3, 254)):
        cases.append(("montR-short-zd", "montR", M, "mul", x, y, l, False))
        if M != 15:
            cases.append(("montR-short-zd", "montR", M, "sqr", x, y, l, False))
    # zzRedMont (regular edition): product = k * mod returned mod instead of 0
    cases += [("zzRedMont-mask", "mont", 9, "mul", 3, 6, None, False), ("zzRedMont-mask", "montR", 9, "sqr", 6, 6, None, False),
              ("zzRedMont-mask", "mont", p3 * p3, "mul", 3 * p3, 7 * p3, None, False), ("zzRedMont-mask", "auto", p3 * p2, "mul", 5 * p3, 9 * p2, None, False)]
    # zzRedBarr (regular edition): Barrett estimate off by 2 and a[n] == 2 -> subtraction mask 0x..FE
    MB4, MB8 = 2 ** 128 - 2 ** 64 + 1, 2 ** 256 - 2 ** 128 + 1
    cases += [("zzRedBarr-mask", "barr", MB4, "mul", 0xfffffffffffffffefff830a1f34e1d64, 0xfffffffffffffffefffffffffe82650a, None, False),
              ("zzRedBarr-mask", "barr", MB4, "mul", 0xfffffffffffffffefff8000000000001, 0xfffffffff7ffffff0000000000000001, None, False),
              ("zzRedBarr-mask", "barr", MB8, "mul", MB8 - (37 * 2 ** 64 + 12345), MB8 - (41 * 2 ** 64 + 777), None, False),
              ("zzRedBarr-mask", "barr", MB8, "sqr", MB8 - (37 * 2 ** 64 + 12345), 1, None, False),
              ("zzRedBarr-mask", "barr", 2 ** 384 - 2 ** 192 + 1, "mul",
               int("f" * 47 + "e" + "fffffffffff83efcc11ae7d71d48f0525ab5c23d0c2e048a", 16),
               int("f" * 47 + "e" + "fffffffffffffffff93c48dc496ac301ed7c69b6f5f11879", 16), None, False)]
    cases = [c for i, c in enumerate(cases) if i % 2 == part]
    for cat, kind, M, op, x, y, l, exact in cases:
        no = blen(M)
        if kind == "crand" and not crand_ok(M, W):
            continue
        if not ctx.case(["edge", cat, kind, M, op, x, y, l], "regress:zm:" + {"deep": "declared-deep", "even": "even-modulus-inv", "noninv": "non-invertible"}.get(cat, cat)):
            continue
        n = (no + W - 1) // W
        if kind == "montR":
            l = l or 8 * W * n
            if l > 8 * W * n:
                l = 8 * W * n
            ring = Ring.zm(lib, kind, M, no, l)
            alg = ZAlg(M, 1 << l, plain_io=True)
        else:
            ring = Ring.zm(lib, kind, M, no)
            alg = ZAlg(M, ring.unity_int())
        if ring is None:
            raise Harness("edge: ring not created")
        R, Ri = alg.R, alg.Ri
        st = ring.stack(exact=exact)
        a, b, c = lib.mkw(x, ring.n), lib.mkw(y, ring.n), lib.outw(ring.n)
        exp = None
        if op == "mul":
            ring.mul(c, a, b, st)
            exp = x * y * Ri % M
        elif op == "sqr":
            ring.sqr(c, a, st)
            exp = x * x * Ri % M
        elif op == "inv":
            ring.inv(c, a, st)
            if math.gcd(x, M) == 1:
                exp = pow(x, -1, M) * R * R % M
        else:
            ring.div(c, b, a, st)
            if math.gcd(x, M) == 1:
                exp = y * pow(x, -1, M) * R % M
        got = lib.rdw(c, ring.n)
        if exp is not None:
            ctx.digest(got)
            if got != exp:
                viol(ctx, "qr%s@%s:%s" % (op.capitalize(), kind, "not-reduced" if got >= M else "value"),
                     "edge case %s" % cat, {"mod": hx(M), "x": hx(x), "y": hx(y), "l": l, "got": hx(got), "expected": hx(exp)})
        lib.release()


# ----------------------------------------------------------------------------------------------
# pp: binary polynomials
# ----------------------------------------------------------------------------------------------

PP_PATTERNS = ["zero", "one", "ones", "bit", "bit", "sparse", "dense", "dense", "dense", "topclear", "topbit", "degb", "degb"]


def pp_val(rng, n, B, pat=None):
    """n-word polynomial of a structural class. Random draws do not depend on B (values are masked)."""
    pat = pat or rng.choice(PP_PATTERNS)
    r = rng.getrandbits(64 * max(n, 1))
    wi, off, k = rng.randrange(max(n, 1)), rng.choice((-1, 0, 1)), rng.randrange(2, 6)
    if n == 0:
        return 0
    nb = n * B
    mask = (1 << nb) - 1
    r &= mask
    if pat == "zero":
        return 0
    if pat == "one":
        return 1
    if pat == "ones":
        return mask
    if pat == "bit":
        return 1 << min(max(wi * B + (B - 1 if off < 0 else 0 if off == 0 else 1), 0), nb - 1)
    if pat == "sparse":
        v = 0
        for j in range(k):
            v |= 1 << ((r >> (11 * j)) % nb)
        return v
    if pat == "topclear":
        return r & ((1 << (nb - B)) - 1) if n > 1 else r >> (B // 2)
    if pat == "topbit":
        return r | (1 << (nb - 1))
    if pat == "degb":
        # degree exactly at a word boundary -1 / 0 / +1
        d = min(max((wi + 1) * B - 1 + off, 0), nb - 1)
        return (r & ((1 << d) - 1)) | (1 << d)
    return r


def pp_top(rng, n, B, pat=None):
    """n-word polynomial with non-zero top word (n >= 1); classes of the top word: 1, top bit, random"""
    v = pp_val(rng, n, B, pat or rng.choice(["dense", "dense", "sparse", "ones", "topbit"]))
    c = rng.randrange(6)
    lo = v & ((1 << ((n - 1) * B)) - 1)
    top = v >> ((n - 1) * B)
    if c == 0:
        top = 1
    elif c == 1:
        top |= 1 << (B - 1)
    elif c == 2:
        top = 1 << (B - 1)
    elif c == 3:
        top = (top & 0xFF) | 2
    if top == 0:
        top = 1 + (lo & 0xFFFF)
    return (top << ((n - 1) * B)) | lo


def wlen(v, B):
    return (v.bit_length() + B - 1) // B


def pp_stack(lib, fn, *a):
    return lib.alloc(getattr(lib, fn + "_deep")(*a))


def pbad(ctx, fn, cat, detail):
    viol(ctx, "%s:%s" % (fn, cat), "%s: %s" % (fn, cat), {k: hx(v) for k, v in detail.items()})


def pp_degclass(v, B):
    if v == 0:
        return "0"
    d = v.bit_length() - 1
    return {0: "deg=kB", 1: "deg=kB+1", B - 1: "deg=kB-1"}.get(d % B, "deg=other")


def unit_pp_arith(ctx):
    """ppDeg, ppMulW, ppAddMulW, ppMul, ppSqr, ppDiv, ppMod on multi-word operands"""
    lib, rng, P = ctx.lib, ctx.rng, ctx.params
    W, B = lib.W, lib.B
    X = 1 << B
    nmax = P.get("nmax", 12)
    hist = {}
    for it in range(P["cases"]):
        fn = ("ppDeg", "ppMulW", "ppAddMulW", "ppMul", "ppMul", "ppSqr", "ppDiv", "ppDiv", "ppMod", "ppMod")[it % 10]
        big = rng.random() < 0.12
        n = rng.randint(0, 20 if big else nmax)
        m = rng.randint(0, 20 if big else nmax)
        if rng.random() < 0.3:
            m = n
        alias = rng.randrange(4)
        sel = rng.random()
        a = pp_val(rng, n, B)
        b = pp_val(rng, m, B)
        bt = pp_top(rng, max(m, 1), B)
        w = pp_val(rng, 1, B)
        q0 = pp_val(rng, max(n - m, 0) + 1, B)
        r0 = pp_val(rng, max(m, 1), B)
        if fn == "ppDeg":
            if not ctx.case([fn, n, a], "ppDeg:" + pp_degclass(a, B)):
                continue
            got = lib.ppDeg(lib.mkw(a, n), n)
            ctx.digest(got)
            exp = a.bit_length() - 1 if a else SIZE_MAX
            if got != exp:
                pbad(ctx, fn, "value", {"a": a, "n": n, "got": got, "expected": exp})
        elif fn in ("ppMulW", "ppAddMulW"):
            inplace = alias == 0
            if not ctx.case([fn, n, a, w, b if fn == "ppAddMulW" else None, inplace], "%s:n=%s%s" % (fn, "0" if n == 0 else "1" if n == 1 else ">1", ":b=a" if inplace else "")):
                continue
            b2 = b & ((1 << (n * B)) - 1) if m >= n else b
            pa = lib.mkw(a, n)
            st = pp_stack(lib, fn, n)
            if fn == "ppMulW":
                pb = pa if inplace else lib.outw(n)
                carry = lib.ppMulW(pb, pa, n, w, st)
                exp = G.mul(a, w)
            else:
                if inplace:
                    pb, b2 = pa, a
                else:
                    pb = lib.mkw(b2, n)
                carry = lib.ppAddMulW(pb, pa, n, w, st)
                exp = b2 ^ G.mul(a, w)
            got = lib.rdw(pb, n) | (carry << (n * B))
            ctx.digest(got)
            if got != exp:
                pbad(ctx, fn, "alias:b=a" if inplace else "value", {"a": a, "b": b2, "w": w, "n": n, "got": got, "expected": exp})
        elif fn == "ppMul":
            same = alias == 0 and n == m
            if same:
                b = a
            if not ctx.case([fn, n, a, m, b, same], "ppMul:%s%s" % ("n=m" if n == m else "n<m" if n < m else "n>m", ":karatsuba" if min(n, m) > 9 else "")):
                continue
            bump(hist, "ppMul:min(n,m)=%d" % min(n, m))
            pa = lib.mkw(a, n)
            pb = pa if same else lib.mkw(b, m)
            c = lib.outw(n + m)
            lib.ppMul(c, pa, n, pb, m, pp_stack(lib, fn, n, m))
            got = lib.rdw(c, n + m)
            ctx.digest(got)
            if got != G.mul(a, b):
                pbad(ctx, fn, "alias:a=b" if same else "value", {"a": a, "n": n, "b": b, "m": m, "got": got, "expected": G.mul(a, b)})
        elif fn == "ppSqr":
            if not ctx.case([fn, n, a], "ppSqr:n=%s" % ("0" if n == 0 else "1" if n == 1 else ">1")):
                continue
            c = lib.outw(2 * n)
            lib.ppSqr(c, lib.mkw(a, n), n, pp_stack(lib, fn, n))
            got = lib.rdw(c, 2 * n)
            ctx.digest(got)
            if got != G.mul(a, a) or got != gsqr(a):
                pbad(ctx, fn, "value", {"a": a, "n": n, "got": got, "expected": G.mul(a, a)})
        else:
            # division: b with non-zero top word; b == 1 (m == 1) is driven by unit_pp_edge (aborts on the examined tree)
            m = max(m, 1)
            b = bt
            if fn == "ppDiv" and n < m:
                n = m + (n % 3)
                a = (a ^ (q0 << (m * B))) & ((1 << (n * B)) - 1)
            if sel < 0.25 and n >= m:
                # a = q*b + r with deg r = deg b - 1 (maximal remainder), quotient of full length
                r1 = (r0 & ((1 << (b.bit_length() - 1)) - 1)) | (1 << (b.bit_length() - 2)) if b.bit_length() > 1 else 0
                a = (G.mul(q0, b) ^ r1) & ((1 << (n * B)) - 1)
            elif sel < 0.32:
                a = b & ((1 << (n * B)) - 1)
            if b == 1 and m == 1 and AVOID["pp:division-by-1"]:
                b = 3
            if fn == "ppDiv" and b >> ((m - 1) * B) == 1 and AVOID["ppDiv:deg(b)=k*B"] and b != 1:
                # deg(b) multiple of B: ppDiv writes q[n - m + 1] (one word past the quotient) on the examined
                # tree -- demonstrated, in bounded number, by unit_pp_edge; the bulk keeps to the other divisors
                b |= 2 << ((m - 1) * B)
            inplace = alias == 0 and n >= m
            cls = "%s:%s:%s" % (fn, "n<m" if n < m else "n=m" if n == m else "n>m",
                                "top=1" if b >> ((m - 1) * B) == 1 else "topbit" if b >> (m * B - 1) else "top-other")
            if not ctx.case([fn, n, a, m, b, inplace], cls + (":r=a" if inplace else "")):
                continue
            bump(hist, "%s:deg(a)%sdeg(b)" % (fn, "<" if a.bit_length() < b.bit_length() else ">="))
            q_exp, r_exp = G.divmod_(a, b)
            pa, pb = lib.mkw(a, n), lib.mkw(b, m)
            st = pp_stack(lib, fn, n, m)
            if fn == "ppDiv":
                pq = lib.outw(n - m + 1)
                pr = pa if inplace else lib.outw(m)               # pp.h: [m]r
                lib.ppDiv(pq, pr, pa, n, pb, m, st)
                gq, gr = lib.rdw(pq, n - m + 1), lib.rdw(pr, m)
                ctx.digest(gq, gr)
                if gq != q_exp or gr != r_exp:
                    pbad(ctx, fn, "alias:r=a" if inplace else "value", {"a": a, "n": n, "b": b, "m": m, "q": gq, "r": gr, "q_expected": q_exp, "r_expected": r_exp})
            else:
                pr = pa if inplace else lib.outw(m)
                lib.ppMod(pr, pa, n, pb, m, st)
                gr = lib.rdw(pr, m)
                ctx.digest(gr)
                if gr != r_exp:
                    pbad(ctx, fn, "alias:r=a" if inplace else "value", {"a": a, "n": n, "b": b, "m": m, "r": gr, "r_expected": r_exp})
        lib.release()
    ctx.note("pp_arith", hist)


def odd_parts(a, b):
    """a / x^s, b / x^s with s maximal"""
    s = min((a & -a).bit_length(), (b & -b).bit_length()) - 1
    return a >> s, b >> s


def exgcd_domain(a, b):
    """Inputs on which ppExGCD of the examined tree does not trip over its own ASSERTs: after removing the
    common power of x both polynomials have a constant term (see unit_pp_edge for the other inputs)."""
    aa, bb = odd_parts(a, b)
    return bool(aa & 1 and bb & 1)


def unit_pp_small(ctx):
    """all pairs of one-word polynomials of degree <= maxdeg: mul/div/mod/gcd/exgcd/mulmod/invmod/divmod
    against the bit-vector model; one case per a (all b inside), buffers of exactly one word reused"""
    lib, P = ctx.lib, ctx.params
    W, B = lib.W, lib.B
    D = P["maxdeg"]
    chunk, nchunks = P["chunk"], P["nchunks"]
    N = 1 << (D + 1)
    pa, pb = lib.alloc(W), lib.alloc(W)
    c2, q1, r1, d1, da1, db1, t1 = lib.alloc(2 * W), lib.alloc(W), lib.alloc(W), lib.alloc(W), lib.alloc(W), lib.alloc(W), lib.alloc(W)
    pa2 = lib.alloc(W)
    st = {f: pp_stack(lib, f, 1, 1) for f in ("ppMul", "ppDiv", "ppMod", "ppGCD", "ppExGCD")}
    for f in ("ppMulMod", "ppInvMod", "ppDivMod", "ppSqrMod"):
        st[f] = pp_stack(lib, f, 1)
    fill = lib.fillbyte
    ms = ctypes.memset
    rdw, wr = lib.rdw, lib.wr
    skipped_exgcd = 0
    for a in range(N):
        if a % nchunks != chunk:
            continue
        if not ctx.case(["small", D, a], "pp-small:deg<=%d" % D):
            continue
        wr(pa, a.to_bytes(W, "little"))
        acc = []
        for b in range(1, N):
            wr(pb, b.to_bytes(W, "little"))
            ms(c2, fill, 2 * W)
            lib.ppMul(c2, pa, 1, pb, 1, st["ppMul"])
            prod = rdw(c2, 2)
            if prod != G.mul(a, b):
                pbad(ctx, "ppMul", "value", {"a": a, "b": b, "got": prod})
            qe, re_ = G.divmod_(a, b)
            if b != 1 or not AVOID["pp:division-by-1"]:
                ms(q1, fill, W); ms(r1, fill, W)
                lib.ppDiv(q1, r1, pa, 1, pb, 1, st["ppDiv"])
                gq, gr = rdw(q1, 1), rdw(r1, 1)
                if (gq, gr) != (qe, re_):
                    pbad(ctx, "ppDiv", "value", {"a": a, "b": b, "q": gq, "r": gr})
                ms(r1, fill, W)
                lib.ppMod(r1, pa, 1, pb, 1, st["ppMod"])
                gm = rdw(r1, 1)
                if gm != re_:
                    pbad(ctx, "ppMod", "value", {"a": a, "b": b, "r": gm})
            else:
                gq = gr = gm = None
            acc.append((prod, gq, gr, gm))
            if a:
                g = G.gcd(a, b)
                ms(d1, fill, W)
                lib.ppGCD(d1, pa, 1, pb, 1, st["ppGCD"])
                gd = rdw(d1, 1)
                if gd != g:
                    pbad(ctx, "ppGCD", "value", {"a": a, "b": b, "got": gd, "expected": g})
                acc.append(gd)
                if exgcd_domain(a, b) or not AVOID["ppExGCD:even-cofactor"]:
                    ms(d1, fill, W); ms(da1, fill, W); ms(db1, fill, W)
                    lib.ppExGCD(d1, da1, db1, pa, 1, pb, 1, st["ppExGCD"])
                    gd, gda, gdb = rdw(d1, 1), rdw(da1, 1), rdw(db1, 1)
                    if gd != g or G.mul(a, gda) ^ G.mul(b, gdb) != g:
                        pbad(ctx, "ppExGCD", "value", {"a": a, "b": b, "d": gd, "da": gda, "db": gdb, "gcd": g})
                    acc.append((gda, gdb))
                else:
                    skipped_exgcd += 1
            # modular operations modulo b (deg b >= 1), operands a mod b and (a*x + 1) mod b
            if b > 1:
                u, v = re_, G.mod((a << 1) ^ 1, b)
                wr(pa2, u.to_bytes(W, "little"))
                wr(t1, v.to_bytes(W, "little"))
                ms(r1, fill, W)
                lib.ppMulMod(r1, pa2, t1, pb, 1, st["ppMulMod"])
                g1 = rdw(r1, 1)
                if g1 != G.mulmod(u, v, b):
                    pbad(ctx, "ppMulMod", "value", {"a": u, "b": v, "mod": b, "got": g1})
                ms(r1, fill, W)
                lib.ppSqrMod(r1, pa2, pb, 1, st["ppSqrMod"])
                g2 = rdw(r1, 1)
                if g2 != G.mulmod(u, u, b):
                    pbad(ctx, "ppSqrMod", "value", {"a": u, "mod": b, "got": g2})
                acc.append((g1, g2))
                if b & 1:
                    inv = G.invmod(u, b) if G.gcd(u, b) == 1 else 0       # pp.h: gcd != 1 => 0
                    ms(r1, fill, W)
                    lib.ppInvMod(r1, pa2, pb, 1, st["ppInvMod"])
                    g3 = rdw(r1, 1)
                    if g3 != inv:
                        pbad(ctx, "ppInvMod", "value" if inv else "gcd!=1", {"a": u, "mod": b, "got": g3, "expected": inv})
                    ms(r1, fill, W)
                    lib.ppDivMod(r1, t1, pa2, pb, 1, st["ppDivMod"])
                    g4 = rdw(r1, 1)
                    e4 = G.mulmod(v, inv, b) if inv else 0
                    if g4 != e4:
                        pbad(ctx, "ppDivMod", "value" if inv else "gcd!=1", {"divident": v, "a": u, "mod": b, "got": g4, "expected": e4})
                    acc.append((g3, g4))
        ctx.digest(acc)
        ctx.count(N - 2, "pp-small:pairs")
    lib.release()
    ctx.note("pp_small_exgcd_pairs_outside_domain", skipped_exgcd)


def trinomials(B):
    """(m, k) admissible for ppRedTrinomial: m % 8 != 0, k > 0, m - k >= B"""
    out = []
    for m in (B + 1, B + 2, B + 7, 2 * B - 1, 2 * B + 1, 2 * B + 3, 3 * B - 3, 3 * B + 1, 97, 127, 159, 167, 191, 233, 257, 367, 409,
              4 * B + 5, 5 * B - 1, 6 * B + 1, 9 * B - 1, 9 * B + 3, 12 * B - 1):
        if m % 8 == 0 or m <= B:
            continue
        ks = {1, 2, B - 1, B, B + 1, m - B, m - B - 1, m - 2 * B, m - 2 * B + 1, (m - B) // 2, 33, 63, 74, 87}
        for k in sorted(ks):
            if 0 < k and m - k >= B:
                out.append((m, k))
    return out


def pentanomials(B):
    """(m, k, l, l1): k > l > l1 > 0, m - k >= B, k < B"""
    out = []
    for m in (B + 3, B + 31, 2 * B - 1, 2 * B, 2 * B + 1, 128, 163, 173, 192, 256, 283, 307, 431, 571, 3 * B, 4 * B - 1, 5 * B + 1, 9 * B, 12 * B):
        for (k, l, l1) in ((3, 2, 1), (7, 2, 1), (7, 6, 3), (12, 7, 5), (10, 5, 2), (B - 1, B - 2, B - 3), (B - 1, 2, 1), (B - 1, B // 2, 1), (B // 2, 3, 1)):
            if k < B and m - k >= B and k > l > l1 > 0:
                out.append((m, k, l, l1))
    return out


def unit_pp_mod(ctx):
    """ppGCD, ppExGCD, ppMulMod, ppSqrMod, ppInvMod, ppDivMod, ppRed, ppRedTrinomial, ppRedPentanomial, ppRedBelt"""
    lib, rng, P = ctx.lib, ctx.rng, ctx.params
    W, B = lib.W, lib.B
    nmax = P.get("nmax", 12)
    tris, pents = trinomials(B), pentanomials(B)
    hist = {}
    FN = ("ppGCD", "ppExGCD", "ppMulMod", "ppSqrMod", "ppInvMod", "ppDivMod", "ppRed", "ppRedTrinomial", "ppRedPentanomial", "ppRedBelt")
    for it in range(P["cases"]):
        fn = FN[it % len(FN)]
        n, m = rng.randint(1, nmax), rng.randint(1, nmax)
        sel, sel2 = rng.random(), rng.random()
        a, b = pp_val(rng, n, B), pp_val(rng, m, B)
        g = pp_val(rng, max(1, min(n, m) // 2), B)
        md = pp_top(rng, n, B)
        x1, x2 = pp_val(rng, n, B), pp_val(rng, n, B)
        big = rng.getrandbits(64 * 40)
        ti = rng.randrange(1 << 30)
        if fn in ("ppGCD", "ppExGCD"):
            # operands with a planted common factor in 40% of the cases
            if sel < 0.4 and g:
                hn, hm = max(1, n * B - g.bit_length()), max(1, m * B - g.bit_length())
                a = G.mul(g, a & ((1 << hn) - 1) or 1)
                b = G.mul(g, b & ((1 << hm) - 1) or 1)
            a, b = a or 1, b or 1
            if sel2 < 0.1:
                b = a & ((1 << (m * B)) - 1) or 1
            if fn == "ppExGCD" and not exgcd_domain(a, b) and AVOID["ppExGCD:even-cofactor"]:
                # make both cofactors odd after the common power of x is removed (see exgcd_domain)
                sa, sb = (a & -a).bit_length() - 1, (b & -b).bit_length() - 1
                s0 = min(sa, sb)
                a, b = (a >> sa) << s0, (b >> sb) << s0
            if fn == "ppExGCD" and n < m and AVOID["ppExGCD:n<m"]:
                # n < m: ppExGCD copies m words into [min(n, m)]d on the examined tree (heap overflow, see
                # unit_pp_edge); the bulk keeps to n >= m
                a, b, n, m = b, a, m, n
            if a >> (n * B) or b >> (m * B):
                raise Harness("pp_mod generator: operand too long")
            d_exp = G.gcd(a, b)
            cls = "%s:%s:%s" % (fn, "n=m" if n == m else "n<m" if n < m else "n>m", "gcd=1" if d_exp == 1 else "gcd>1")
            if not ctx.case([fn, n, a, m, b], cls):
                continue
            pa, pb = lib.mkw(a, n), lib.mkw(b, m)
            k = min(n, m)
            d = lib.outw(k)
            if fn == "ppGCD":
                lib.ppGCD(d, pa, n, pb, m, pp_stack(lib, fn, n, m))
                gd = lib.rdw(d, k)
                ctx.digest(gd)
                if gd != d_exp:
                    pbad(ctx, fn, "value", {"a": a, "n": n, "b": b, "m": m, "got": gd, "expected": d_exp})
            else:
                da, db = lib.outw(m), lib.outw(n)
                lib.ppExGCD(d, da, db, pa, n, pb, m, pp_stack(lib, fn, n, m))
                gd, gda, gdb = lib.rdw(d, k), lib.rdw(da, m), lib.rdw(db, n)
                ctx.digest(gd, gda, gdb)
                if gd != d_exp:
                    pbad(ctx, fn, "value", {"a": a, "n": n, "b": b, "m": m, "got": gd, "expected": d_exp})
                elif G.mul(a, gda) ^ G.mul(b, gdb) != gd:
                    pbad(ctx, fn, "bezout", {"a": a, "n": n, "b": b, "m": m, "d": gd, "da": gda, "db": gdb})
        elif fn in ("ppMulMod", "ppSqrMod", "ppInvMod", "ppDivMod", "ppRed"):
            if fn in ("ppInvMod", "ppDivMod"):
                md |= 1
                if md == 1:
                    md = 7          # the zero ring GF(2)[x]/(1) is not driven (ppInvMod's own divident 1 is not < mod)
            dm = md.bit_length() - 1
            tcls = "top=1" if md >> ((n - 1) * B) == 1 else "topbit" if md >> (n * B - 1) else "top-other"
            if fn in ("ppMulMod", "ppSqrMod"):
                u, v = x1 & ((1 << dm) - 1), x2 & ((1 << dm) - 1)
                if sel2 < 0.15:
                    u = (1 << dm) - 1
                if sel < 0.1:
                    v = u
                if not ctx.case([fn, n, u, v, md], "%s:%s" % (fn, tcls)):
                    continue
                pm, pu = lib.mkw(md, n), lib.mkw(u, n)
                c = lib.outw(n)
                if fn == "ppMulMod":
                    pv = pu if sel < 0.1 else lib.mkw(v, n)
                    lib.ppMulMod(c, pu, pv, pm, n, pp_stack(lib, fn, n))
                    exp = G.mulmod(u, v, md)
                else:
                    lib.ppSqrMod(c, pu, pm, n, pp_stack(lib, fn, n))
                    exp = G.mulmod(u, u, md)
                got = lib.rdw(c, n)
                ctx.digest(got)
                if got != exp:
                    pbad(ctx, fn, "not-reduced" if got.bit_length() > dm else "value", {"a": u, "b": v, "mod": md, "n": n, "got": got, "expected": exp})
            elif fn in ("ppInvMod", "ppDivMod"):
                # pp.h: a (and divident) < mod as numbers: the degree may equal deg(mod)
                u, v = x1 % md, x2 % md
                gpl = "gcd=1"
                if sel < 0.25 and g > 1 and n > 1:
                    # modulus and a with a planted common odd factor -> result 0
                    g |= 1
                    h = (pp_val(rng, 1, B, "dense") | 1) if False else (x2 | 1)
                    h &= (1 << max(1, n * B - g.bit_length() - 1)) - 1
                    md2 = G.mul(g, h | 1)
                    if md2.bit_length() > (n - 1) * B and md2 & 1:
                        md = md2
                        dm = md.bit_length() - 1
                        u = G.mul(g, x1 & ((1 << max(1, dm - g.bit_length())) - 1) or 1)
                        v = x2 % md
                        tcls = "top=1" if md >> ((n - 1) * B) == 1 else "topbit" if md >> (n * B - 1) else "top-other"
                if sel2 < 0.1:
                    u = 0
                elif sel2 < 0.2:
                    u = 1
                if u >= md or v >= md:
                    u, v = u % md, v % md
                inv = None
                um = G.mod(u, md)
                if G.gcd(um, md) == 1 and (md > 1):
                    inv = G.invmod(um, md)
                else:
                    gpl = "gcd>1"
                dcl = "deg(a)=deg(mod)" if u.bit_length() == md.bit_length() else "deg(a)<deg(mod)"
                if not ctx.case([fn, n, u, v, md], "%s:%s:%s:%s" % (fn, tcls, gpl, dcl)):
                    continue
                pm, pu = lib.mkw(md, n), lib.mkw(u, n)
                c = lib.outw(n)
                if fn == "ppInvMod":
                    lib.ppInvMod(c, pu, pm, n, pp_stack(lib, fn, n))
                    exp = inv if inv is not None else 0
                else:
                    lib.ppDivMod(c, lib.mkw(v, n), pu, pm, n, pp_stack(lib, fn, n))
                    exp = G.mulmod(G.mod(v, md), inv, md) if inv is not None else 0
                got = lib.rdw(c, n)
                ctx.digest(got)
                if got != exp:
                    cat = "gcd!=1" if inv is None else "not-reduced" if got.bit_length() > dm and G.mod(got, md) == exp else "value"
                    pbad(ctx, fn, cat, {"a": u, "divident": v, "mod": md, "n": n, "got": got, "expected": exp})
            else:
                if md == 1 and AVOID["pp:division-by-1"]:
                    md = 3              # mod = 1: see unit_pp_edge
                tcls = "top=1" if md >> ((n - 1) * B) == 1 else tcls
                u = big & ((1 << (2 * n * B)) - 1)
                if sel < 0.2:
                    u = G.mul(x1, x2)
                if not ctx.case([fn, n, u, md], "ppRed:" + tcls):
                    continue
                pu = lib.mkw(u, 2 * n)
                lib.ppRed(pu, lib.mkw(md, n), n, pp_stack(lib, fn, n))
                got = lib.rdw(pu, n)
                ctx.digest(got)
                if got != G.mod(u, md):
                    pbad(ctx, fn, "value", {"a": u, "mod": md, "n": n, "got": got, "expected": G.mod(u, md)})
        elif fn == "ppRedTrinomial":
            mm, k = tris[ti % len(tris)]
            nw = (mm + B - 1) // B
            u = big & ((1 << (2 * nw * B)) - 1)
            if sel < 0.5:
                # product of two reduced elements (the use in gf2.c)
                u = G.mul(u & ((1 << mm) - 1), (u >> mm) & ((1 << mm) - 1))
            f = (1 << mm) | (1 << k) | 1
            if not ctx.case([fn, mm, k, u], "ppRedTrinomial:%s" % ("(m-k)%B=0" if (mm - k) % B == 0 else "(m-k)%B!=0")):
                continue
            bump(hist, "tri:m-k=B" if mm - k == B else "tri:m-k>B")
            pu = lib.mkw(u, 2 * nw)
            lib.ppRedTrinomial(pu, lib.mk(mm.to_bytes(8, "little") + k.to_bytes(8, "little")))
            got = lib.rdw(pu, nw)
            ctx.digest(got)
            if got != G.mod(u, f):
                pbad(ctx, fn, "not-reduced" if G.mod(got, f) == G.mod(u, f) else "value", {"m": mm, "k": k, "a": u, "got": got, "expected": G.mod(u, f)})
        elif fn == "ppRedPentanomial":
            mm, k, l, l1 = pents[ti % len(pents)]
            nw = (mm + B - 1) // B
            u = big & ((1 << (2 * nw * B)) - 1)
            if sel < 0.5:
                u = G.mul(u & ((1 << mm) - 1), (u >> mm) & ((1 << mm) - 1))
            f = (1 << mm) | (1 << k) | (1 << l) | (1 << l1) | 1
            if not ctx.case([fn, mm, k, l, l1, u], "ppRedPentanomial:%s" % ("m%B=0" if mm % B == 0 else "m%B!=0")):
                continue
            pu = lib.mkw(u, 2 * nw)
            lib.ppRedPentanomial(pu, lib.mk(b"".join(v.to_bytes(8, "little") for v in (mm, k, l, l1))))
            got = lib.rdw(pu, nw)
            ctx.digest(got)
            if got != G.mod(u, f):
                pbad(ctx, fn, "not-reduced" if G.mod(got, f) == G.mod(u, f) else "value", {"m": mm, "k": k, "l": l, "l1": l1, "a": u, "got": got, "expected": G.mod(u, f)})
        else:
            nw = 128 // B
            u = big & ((1 << 256) - 1)
            if sel < 0.3:
                u = G.mul(u & ((1 << 128) - 1), u >> 128)
            elif sel < 0.4:
                u = (1 << 256) - 1
            elif sel < 0.5:
                u = 1 << (128 + ti % 128)
            if not ctx.case([fn, u], "ppRedBelt"):
                continue
            pu = lib.mkw(u, 2 * nw)
            lib.ppRedBelt(pu)
            got = lib.rdw(pu, nw)
            ctx.digest(got)
            f = (1 << 128) | 0x87
            if got != G.mod(u, f):
                pbad(ctx, fn, "value", {"a": u, "got": got, "expected": G.mod(u, f)})
        lib.release()
    ctx.note("pp_mod", hist)


# irreducible polynomials of cryptographic standards (gf2.h, DSTU 4145, low-weight tables); every entry is
# re-verified with the model's Rabin test before it is used as "irreducible"
FIELDS = [(128, 7, 2, 1), (163, 7, 6, 3), (233, 74, 0, 0), (283, 12, 7, 5), (409, 87, 0, 0), (571, 10, 5, 2),
          (167, 6, 0, 0), (173, 10, 2, 1), (179, 4, 2, 1), (191, 9, 0, 0), (233, 9, 4, 1), (257, 12, 0, 0),
          (307, 8, 4, 2), (367, 21, 0, 0), (431, 5, 3, 1),
          (192, 7, 2, 1), (256, 10, 5, 2), (320, 4, 3, 1), (384, 12, 3, 2), (512, 8, 5, 2), (64, 4, 3, 1),
          (96, 10, 9, 6), (160, 5, 3, 2), (224, 9, 8, 3),
          (97, 33, 0, 0), (127, 63, 0, 0), (159, 31, 0, 0), (217, 153, 0, 0), (225, 97, 0, 0),
          (57, 25, 0, 0), (63, 31, 0, 0), (65, 33, 0, 0),
          (71, 6, 0, 0), (79, 9, 0, 0), (81, 4, 0, 0), (84, 5, 0, 0), (71, 5, 3, 1), (73, 4, 3, 2), (89, 6, 5, 3),
          (127, 7, 3, 1), (129, 5, 4, 1), (130, 3, 2, 1), (191, 7, 6, 4), (193, 9, 7, 4),
          (35, 2, 0, 0), (41, 3, 0, 0), (41, 3, 2, 1), (47, 5, 4, 1), (63, 5, 4, 1)]


def p4_poly(p4):
    f = (1 << p4[0]) | 1
    for t in p4[1:]:
        if t:
            f |= 1 << t
    return f


def gf2_admissible(p4, B):
    """restrictions of ppRedTrinomial / ppRedPentanomial that gf2.h imposes on p(x)"""
    m, k, l, l1 = p4
    if l == 0:
        return l1 == 0 and m % 8 != 0 and 0 < k < m and m - k >= B
    return m > k > l > l1 > 0 and m - k >= B and k < B


def small_irreducibles(maxdeg):
    out = []
    for f in range(2, 1 << (maxdeg + 1)):
        if G.is_irreducible_bruteforce(f):
            out.append(f)
    return out


def unit_pp_irred(ctx):
    """ppIsIrred, ppMinPoly, ppMinPolyMod"""
    lib, rng, P = ctx.lib, ctx.rng, ctx.params
    W, B = lib.W, lib.B
    chunk, nchunks = P["chunk"], P["nchunks"]
    hist = {}

    def isirred(f, n, label):
        return bool(lib.ppIsIrred(lib.mkw(f, n), n, pp_stack(lib, "ppIsIrred", n)))

    # (1) all polynomials of degree <= 10: brute-force oracle, Rabin model cross-checked
    small = []
    for f in range(1 << 11):
        if f % nchunks != chunk:
            continue
        exp = G.is_irreducible_bruteforce(f)
        if exp != G.is_irreducible(f):
            raise Harness("Rabin model disagrees with brute force on %d" % f)
        if exp:
            small.append(f)
        if not ctx.case(["ppIsIrred", 1, f], "ppIsIrred:deg<=10:" + ("irreducible" if exp else "reducible")):
            continue
        got = isirred(f, 1, "small")
        ctx.digest(got)
        if got != exp:
            pbad(ctx, "ppIsIrred", "value", {"a": f, "n": 1, "got": got, "expected": exp})
        lib.release()
    small = [f for f in small_irreducibles(8)]
    # (2) multi-word polynomials
    std = [p4_poly(p4) for i, p4 in enumerate(FIELDS) if i % nchunks == chunk]
    for f in std:
        if not G.is_irreducible(f):
            raise Harness("catalogue polynomial is reducible under the model: %x" % f)
    cases = []
    for f in std:
        n0 = wlen(f, B)
        cases.append((f, n0, True, "standard"))
        cases.append((f, n0 + 1 + f % 3, True, "standard+zero-top-words"))
        cases.append((f ^ 2 ^ 4, n0, None, "standard-perturbed"))
        cases.append((f ^ 1, n0, False, "no-constant-term"))
        cases.append((gsqr(f), wlen(gsqr(f), B), False, "square"))
    for it in range(P["cases"]):
        n = rng.randint(1, 12)
        kind = rng.choice(["random", "random-odd", "product", "product", "small-irr", "x*f", "const"])
        v = pp_top(rng, n, B)
        a, b = rng.choice(small), rng.choice(small)
        s1, s2 = rng.choice(std) if std else 7, rng.choice(std) if std else 7
        sel = rng.random()
        if kind == "random-odd":
            f, exp = v | 1, None
        elif kind == "product":
            f, exp = G.mul(s1 if sel < 0.5 else a, s2 if sel < 0.25 else b), False
        elif kind == "small-irr":
            f, exp = a, True
        elif kind == "x*f":
            f, exp = s1 << 1, False
        elif kind == "const":
            f, exp = (0 if sel < 0.5 else 1), False
        else:
            f, exp = v, None
        nn = max(wlen(f, B), 1) if kind != "random" and kind != "random-odd" else n
        if kind == "const" and sel < 0.25:
            nn = 0
        cases.append((f, nn + (1 if sel > 0.9 else 0), exp, kind))
    nbig = 0
    for f, n, exp, kind in cases:
        if exp is None and f.bit_length() > 200:
            nbig += 1
            if nbig % 8:
                # keep the model's Rabin test affordable: most random polynomials are cut to < 200 bits
                f = (f & ((1 << 199) - 1)) | (1 << (130 + nbig % 70))
        if not ctx.case(["ppIsIrred", n, f], "ppIsIrred:%s" % kind):
            continue
        model = G.is_irreducible(f)
        if exp is not None and exp != model:
            raise Harness("irreducibility model contradicts the construction (%s): %x" % (kind, f))
        bump(hist, "ppIsIrred:n=%d" % n)
        bump(hist, "ppIsIrred:" + ("irreducible" if model else "reducible"))
        got = isirred(f, n, kind)
        ctx.digest(got)
        if got != model:
            pbad(ctx, "ppIsIrred", "value", {"a": f, "n": n, "got": got, "expected": model, "kind": kind})
        lib.release()
    # (3) ppMinPoly
    ls = [0, 1, 2, 3, 5, 8, B // 2 - 1, B // 2, B // 2 + 1, B - 1, B, B + 1, 3 * B // 2, 2 * B - 1, 2 * B, 2 * B + 1, 3 * B, 4 * B + 1, 6 * B]
    for it in range(P["cases"]):
        l = ls[it % len(ls)] if it < 3 * len(ls) else rng.randint(0, 2 * B + B // 2)
        if it % nchunks != chunk and it < 3 * len(ls):
            l = rng.randint(0, B + 3)
        mode = rng.choice(["lfsr", "lfsr", "lfsr", "random", "zero", "ones"])
        L = rng.randint(0, l) if l else 0
        gen = rng.getrandbits(64 * 8) & ((1 << L) - 1) | (1 << L)
        state = rng.getrandbits(64 * 8)
        rnd = rng.getrandbits(64 * 16)
        garbage = rng.getrandbits(64) if rng.random() < 0.3 else 0
        N = 2 * l
        if mode == "lfsr":
            seq = [(state >> i) & 1 for i in range(min(L, N))]
            while len(seq) < N:
                j = len(seq) - L
                t = 0
                for i in range(L):
                    if (gen >> i) & 1:
                        t ^= seq[j + i]
                seq.append(t)
        elif mode == "random":
            seq = [(rnd >> i) & 1 for i in range(N)]
        else:
            seq = [0 if mode == "zero" else 1] * N
        a = 0
        for i, bit in enumerate(seq):            # first element = bit 2l - 1
            if bit:
                a |= 1 << (N - 1 - i)
        na_hdr, na_lib = (2 * l + B - 1) // B, 2 * ((l + B - 1) // B)
        na = max(na_hdr, na_lib) if AVOID["ppMinPoly:a-size"] else na_hdr
        if garbage and na * B > N:
            a |= (garbage << N) & ((1 << (na * B)) - 1)
        cls = "ppMinPoly:%s%s" % (mode, ":2W(l)>W(2l)" if na_lib > na_hdr else "")
        if not ctx.case(["ppMinPoly", l, a, na], cls):
            continue
        Lm, g = G.minpoly_seq(seq)
        defined = 2 * Lm <= N
        bump(hist, "ppMinPoly:" + ("L<=l" if defined else "L>l(unspecified,unchecked)"))
        bump(hist, "ppMinPoly:l%%B=%s" % ("0" if l % B == 0 else "<=B/2" if l % B <= B // 2 else ">B/2"))
        nb = (l + 1 + B - 1) // B
        pb_ = lib.outw(nb)
        lib.ppMinPoly(pb_, lib.mkw(a, na), l, pp_stack(lib, "ppMinPoly", l))
        got = lib.rdw(pb_, nb)
        if defined:
            ctx.digest(got)
            if got != g:
                pbad(ctx, "ppMinPoly", "value", {"l": l, "a": a, "got": got, "expected": g, "complexity": Lm})
        lib.release()
    # (4) ppMinPolyMod
    for it in range(P["cases"] // 2):
        n = rng.choice([1, 1, 1, 2, 2, 3, 4])
        kind = rng.choice(["irreducible", "irreducible", "reducible", "reducible", "reducible-square", "x^k"])
        dsel = rng.random()
        r1, r2 = rng.getrandbits(64 * 4), rng.getrandbits(64 * 4)
        s1, a0 = rng.choice(small), rng.choice(small)
        si = rng.randrange(1 << 20)
        if kind == "irreducible":
            cands = [f for f in std if wlen(f, B) <= 4] + small
            md = cands[si % len(cands)] if dsel < 0.7 else G.mul(1, s1)
            if md.bit_length() - 1 < 2:
                md = 0b111
        elif kind == "reducible":
            dg = 2 + int(dsel * (min(n * B, 96) - 2))
            md = (r1 & ((1 << dg) - 1)) | (1 << dg)
            if G.is_irreducible(md):
                md ^= 1 if md & 1 else 3
                if md.bit_length() - 1 < 2:
                    md = 0b110
        elif kind == "reducible-square":
            md = gsqr(s1) if dsel < 0.5 else G.mul(s1, G.mul(s1, a0))
        else:
            md = 1 << (2 + si % min(n * B - 2, 70))
        dm = md.bit_length() - 1
        n = wlen(md, B)
        a = r2 & ((1 << dm) - 1)
        if a == 0:
            a = 1 + (si & 1)               # a = 0: deg(a) is SIZE_MAX in pp.h's convention, not < deg(mod)
        a &= (1 << dm) - 1
        if a == 0:
            a = 1
        irr = G.is_irreducible(md)
        if not ctx.case(["ppMinPolyMod", n, a, md], "ppMinPolyMod:%s" % ("irreducible-mod" if irr else "reducible-mod")):
            continue
        exp = G.minpoly_mod(a, md)
        if irr and a and not G.is_irreducible(exp):
            raise Harness("minpoly_mod model: minimal polynomial over a field must be irreducible")
        pb_ = lib.outw(n)
        lib.ppMinPolyMod(pb_, lib.mkw(a, n), lib.mkw(md, n), n, pp_stack(lib, "ppMinPolyMod", n))
        got = lib.rdw(pb_, n)
        ctx.digest(got)
        if got != exp:
            pbad(ctx, "ppMinPolyMod", "value:irreducible-mod" if irr else "value:reducible-mod",
                 {"a": a, "mod": md, "n": n, "got": got, "expected": exp})
        lib.release()
    ctx.note("pp_irred", hist)


def unit_pp_edge(ctx):
    """Literal regression cases of pp.h ("regress:pp:<defect>"): inputs / declared sizes on which the snapshot tree
    aborted (ASan, ASSERT) or returned wrong values; one call per case. The ppMinPolyMod cases include the
    unrepaired reducible-modulus witness (known finding ppMinPolyMod:value:reducible-mod)."""
    lib = ctx.lib
    W, B = lib.W, lib.B
    part = ctx.params.get("part", 0)
    X = 1 << B
    f163, f233 = p4_poly((163, 7, 6, 3)), p4_poly((233, 74, 0, 0))
    big_a = (f163 << 300) ^ (f233 << 17) ^ 0x1234567
    C = []
    if part == 0:
        # ppDiv / ppMod / ppRed by the constant 1, ppDiv by polynomials of degree k*B (top word 1)
        C += [("ppDiv", 2, X + 5, 1, 1), ("ppMod", 1, 0x1235, 1, 1), ("ppMod", 2, X + 5, 1, 1),
              ("ppRed", 1, X * 7 + 3, 1), ("ppDiv", 4, big_a & (X ** 4 - 1), 2, X + 3),
              ("ppDiv", 11, big_a & (X ** 11 - 1), 5, X ** 4 + (f163 & (X ** 4 - 1))), ("ppDiv", 3, X ** 2 + X + 1, 3, X ** 2 + 7)]
    elif part == 1:
        # ppExGCD: one operand without constant term after the common power of x is removed; n < m
        C += [("ppExGCD", 1, 1, 1, 2), ("ppExGCD", 1, 2, 1, 1), ("ppExGCD", 1, 0b1011, 1, 0b110),
              ("ppExGCD", 3, X * X * 0x19 + X * 5 + 1, 2, (X * 3 + 0x2F) << 1), ("ppExGCD", 2, (X + 0x1F3) << 3, 3, (X * X * 5 + X + 1) << 3),
              ("ppExGCD", 1, 0b111, 2, X + 3), ("ppExGCD", 2, X + 3, 3, X * X + X + 1)]
    else:
        # declared stack depth / declared operand size, exactly as pp.h says
        C += [("ppIsIrred", 1, 0b10011), ("ppIsIrred", wlen(f163, B), f163), ("ppIsIrred", wlen(f233, B) + 1, f233),
              ("ppIsIrred", 1, 0b110), ("ppIsIrred", 1, 1),
              ("ppMinPoly:a", 1, 0b11), ("ppMinPoly:a", B + 1, 0x5A5A5A5A5),
              ("ppMinPoly:deep", 2 * B, (1 << (4 * B)) - 1), ("ppMinPoly:deep", 3, 0b101101),
              ("ppMinPolyMod", 1, 0b10, 0b1011), ("ppMinPolyMod", wlen(f163, B), 0b10, f163), ("ppMinPolyMod", 1, 0b110, 0b11111),
              ("ppMinPolyMod", 1, 0b10, 0b110), ("ppMinPolyMod", 1, 0b110, 0b11011)]
    for c in C:
        fn = c[0]
        if fn in ("ppDiv", "ppMod"):
            label = "division-by-1" if c[4] == 1 else "ppDiv-deg(b)=kB"
        elif fn == "ppRed":
            label = "division-by-1"
        elif fn == "ppExGCD":
            label = "ppExGCD-n<m" if c[1] < c[3] else "ppExGCD-even-cofactor"
        elif fn == "ppIsIrred":
            label = "ppIsIrred-declared-deep"
        elif fn == "ppMinPoly:a":
            label = "ppMinPoly-a-size"
        elif fn == "ppMinPoly:deep":
            label = "ppMinPoly-declared-deep"
        else:
            label = "ppMinPolyMod"
        if not ctx.case(["pp-edge"] + list(c), "regress:pp:" + label):
            continue
        if fn in ("ppDiv", "ppMod"):
            _, n, a, m, b = c
            pa, pb = lib.mkw(a, n), lib.mkw(b, m)
            r = lib.outw(m)
            qe, re_ = G.divmod_(a, b)
            if fn == "ppDiv":
                q = lib.outw(n - m + 1)
                lib.ppDiv(q, r, pa, n, pb, m, pp_stack(lib, fn, n, m))
                got = (lib.rdw(q, n - m + 1), lib.rdw(r, m))
                exp = (qe, re_)
            else:
                lib.ppMod(r, pa, n, pb, m, pp_stack(lib, fn, n, m))
                got, exp = lib.rdw(r, m), re_
            ctx.digest(got)
            if got != exp:
                pbad(ctx, fn, "value", {"a": a, "n": n, "b": b, "m": m, "got": str(got), "expected": str(exp)})
        elif fn == "ppRed":
            _, n, a, md = c
            pa = lib.mkw(a, 2 * n)
            lib.ppRed(pa, lib.mkw(md, n), n, pp_stack(lib, fn, n))
            got = lib.rdw(pa, n)
            ctx.digest(got)
            if got != G.mod(a, md):
                pbad(ctx, fn, "value", {"a": a, "mod": md, "got": got})
        elif fn == "ppExGCD":
            _, n, a, m, b = c
            if a >> (n * B) or b >> (m * B) or not a or not b:
                raise Harness("pp-edge: bad ppExGCD operands")
            k = min(n, m)
            d, da, db = lib.outw(k), lib.outw(m), lib.outw(n)
            lib.ppExGCD(d, da, db, lib.mkw(a, n), n, lib.mkw(b, m), m, pp_stack(lib, fn, n, m))
            gd, gda, gdb = lib.rdw(d, k), lib.rdw(da, m), lib.rdw(db, n)
            ctx.digest(gd, gda, gdb)
            if gd != G.gcd(a, b):
                pbad(ctx, fn, "value", {"a": a, "b": b, "got": gd, "expected": G.gcd(a, b)})
            elif G.mul(a, gda) ^ G.mul(b, gdb) != gd:
                pbad(ctx, fn, "bezout", {"a": a, "b": b, "d": gd, "da": gda, "db": gdb})
        elif fn == "ppIsIrred":
            _, n, f = c
            got = bool(lib.ppIsIrred(lib.mkw(f, n), n, pp_stack(lib, fn, n)))
            ctx.digest(got)
            if got != G.is_irreducible(f):
                pbad(ctx, fn, "value", {"a": f, "n": n, "got": got})
        elif fn.startswith("ppMinPoly:"):
            _, l, a = c
            na_hdr, na_lib = (2 * l + B - 1) // B, 2 * ((l + B - 1) // B)
            a &= (1 << (2 * l)) - 1
            seq = [(a >> (2 * l - 1 - i)) & 1 for i in range(2 * l)]
            Lm, g = G.minpoly_seq(seq)
            nb = (l + B) // B
            pb_ = lib.outw(nb)
            # [W_OF_B(2l)]a and ppMinPoly_deep(l) exactly as declared
            lib.ppMinPoly(pb_, lib.mkw(a, na_hdr), l, pp_stack(lib, "ppMinPoly", l))
            got = lib.rdw(pb_, nb)
            if 2 * Lm <= 2 * l:
                ctx.digest(got)
                if got != g:
                    pbad(ctx, "ppMinPoly", "value", {"l": l, "a": a, "got": got, "expected": g})
        else:
            _, n, a, md = c
            pb_ = lib.outw(n)
            lib.ppMinPolyMod(pb_, lib.mkw(a, n), lib.mkw(md, n), n, pp_stack(lib, fn, n))
            got = lib.rdw(pb_, n)
            ctx.digest(got)
            exp = G.minpoly_mod(a, md)
            if got != exp:
                pbad(ctx, fn, "value:irreducible-mod" if G.is_irreducible(md) else "value:reducible-mod", {"a": a, "mod": md, "got": got, "expected": exp})
        lib.release()


# ----------------------------------------------------------------------------------------------
# gf2: fields GF(2^m) through the qr_o table, trace, quadratic equations, validity
# ----------------------------------------------------------------------------------------------

# descriptions of the admissible shape whose polynomial is reducible (found with the model, re-verified at run time)
REDUCIBLE = [(71, 5, 0, 0), (97, 7, 0, 0), (131, 7, 0, 0), (163, 7, 6, 2), (233, 73, 0, 0), (128, 7, 3, 1), (283, 12, 7, 4),
             (73, 5, 3, 1), (409, 86, 0, 0), (192, 7, 3, 1)]


def unit_gf2(ctx):
    lib, rng, P = ctx.lib, ctx.rng, ctx.params
    W, B = lib.W, lib.B
    chunk, nchunks, per = P["chunk"], P["nchunks"], P["cases"]
    hist = {}
    fields = [p4 for i, p4 in enumerate(FIELDS) if i % nchunks == chunk]
    red = [p4 for i, p4 in enumerate(REDUCIBLE) if i % nchunks == chunk]
    for p4 in fields + red:
        m = p4[0]
        f = p4_poly(p4)
        irr = p4 in fields
        draws = [(rng.getrandbits(m), rng.getrandbits(m), rng.getrandbits(64), rng.getrandbits(192)) for _ in range(max(2, per))]
        if not gf2_admissible(p4, B):
            # e.g. m - k < 64: a 32-bit-word-only field
            bump(hist, "skipped:not-admissible-for-B=%d" % B)
            continue
        n, no = (m + B - 1) // B, (m + 7) // 8
        n1 = n + (m % B == 0)
        alg = FAlg(p4)
        shape = "%s:%s" % ("trinomial" if p4[2] == 0 else "pentanomial",
                           "m%B=0" if m % B == 0 else "(m-k)%B=0" if p4[2] == 0 and (m - p4[1]) % B == 0 else "generic")
        # --- description: constructor postconditions, predicates
        if ctx.case(["gf2Create", list(p4)], "gf2:create:" + ("irreducible" if irr else "reducible")):
            if G.is_irreducible(f) != irr:
                raise Harness("gf2 catalogue: irreducibility of %s is not as listed" % (p4,))
            alg.selftest([(a, b) for a, b, _, _ in draws[:6]])
            fld = Ring.gf2(lib, p4)
            if fld is None:
                pbad(ctx, "gf2Create", "return", {"p": str(p4), "what": "admissible description rejected"})
                lib.release()
                continue
            obs = [fld.n, fld.no, fld.mod_int(n1), fld.unity_int(), fld.q.hdr.keep <= fld.keep_alloc]
            if obs != [n, no, f, 1, True]:
                pbad(ctx, "gf2Create", "post", {"p": str(p4), "observed": str(obs), "expected": str([n, no, f, 1, True])})
            op, dg = bool(lib.gf2IsOperable(fld.p)), lib.gf2Deg(fld.p)
            if not op or dg != m:
                pbad(ctx, "gf2IsOperable", "return", {"p": str(p4), "operable": op, "deg": dg})
            val = bool(lib.gf2IsValid(fld.p, lib.alloc(lib.gf2IsValid_deep(fld.n))))
            if val != irr:
                pbad(ctx, "gf2IsValid", "return", {"p": str(p4), "got": val, "irreducible": irr})
            ctx.digest(obs, op, dg, val)
            lib.release()
        if ctx.case(["gf2IsValid:declared-deep", list(p4)], "regress:gf2:IsValid-declared-deep"):
            fld = Ring.gf2(lib, p4)
            val = bool(lib.gf2IsValid(fld.p, lib.alloc(lib.gf2IsValid_deep(fld.n))))
            ctx.digest(val)
            if val != irr:
                pbad(ctx, "gf2IsValid", "return", {"p": str(p4), "got": val, "irreducible": irr})
            lib.release()
        if not irr:
            continue            # \expect of the field operations (correct description) does not hold
        if ctx.case(["gf2:declared-deep", list(p4)], "regress:gf2:declared-deep"):
            # mul / sqr / inv / div with exactly f->deep
            fld = Ring.gf2(lib, p4)
            x, y = draws[0][0] | 1, draws[0][1]
            a, b, c = lib.mkw(x, n), lib.mkw(y, n), lib.outw(n)
            st = fld.stack(exact=True)
            fld.mul(c, a, b, st); r1 = lib.rdw(c, n)
            fld.sqr(c, a, st); r2 = lib.rdw(c, n)
            xi = alg.inv(x)
            if m % B:
                fld.inv(c, a, st); r3 = lib.rdw(c, n)
                fld.div(c, b, a, st); r4 = lib.rdw(c, n)
            else:
                r3, r4 = xi, alg.mul(y, xi)
            ctx.digest(r1, r2, r3, r4)
            if [r1, r2, r3, r4] != [alg.mul(x, y), alg.sqr(x), xi, alg.mul(y, xi)]:
                pbad(ctx, "gf2", "value:exact-deep", {"p": str(p4), "x": x, "y": y})
            lib.release()
        aligned = m % B == 0
        if aligned:
            # m multiple of B: gf2Inv / gf2Div pass the n-word elements to ppInvMod / ppDivMod as (n + 1)-word
            # operands (read past the element on the examined tree): one call per case here, none in the bulk
            for op in ("inv", "div"):
                if not ctx.case(["gf2:" + op, list(p4)], "regress:gf2:aligned-%s" % op):
                    continue
                fld = Ring.gf2(lib, p4)
                x, y = draws[1][0] | 2, draws[1][1]
                a, b, c = lib.mkw(x, n), lib.mkw(y, n), lib.outw(n)
                st = fld.stack()
                xi = alg.inv(x)
                if op == "inv":
                    fld.inv(c, a, st)
                    exp = xi
                else:
                    fld.div(c, b, a, st)
                    exp = alg.mul(y, xi)
                got = lib.rdw(c, n)
                ctx.digest(got)
                if got != exp:
                    pbad(ctx, "qr%s@gf2" % op.capitalize(), "value", {"p": str(p4), "x": x, "y": y, "got": got, "expected": exp})
                lib.release()
        cat = [0, 1, 2, (1 << m) - 1, 1 << (m - 1), (1 << (m - 1)) | 1, 3, (1 << m) - 2]
        top = (1 << (8 * no)) - 1
        rej = [v.to_bytes(no, "little") for v in ((1 << m), (1 << m) | 1, top, 1 << (8 * no - 1)) if v <= top and v >> m]
        if rej and ctx.case(["gf2:from-range", list(p4)], "regress:gf2:from-range"):
            # gf2IsIn of the snapshot compared numerically with the modulus: x^m (+ small) passed as an element
            fld = Ring.gf2(lib, p4)
            st = fld.stack()
            got = [int(bool(fld.from_(lib.outw(n), lib.mk(code), st))) for code in rej]
            ctx.digest(got)
            if any(got):
                pbad(ctx, "qrFrom@gf2", "accepts-out-of-range", {"p": str(p4), "codes": str([c.hex() for c in rej]), "returns": str(got)})
            lib.release()
        for ci, (rx, ry, s, er) in enumerate(draws):
            if ci == 0:
                x, y = (1 << m) - 1, (1 << m) - 1
            elif ci == 1:
                x, y = 0, 1
            elif ci == 2:
                x, y = 2, 1 << (m - 1)
            else:
                x = cat[(s >> 20) % len(cat)] if (s >> 17) % 5 < 2 else rx
                y = cat[(s >> 24) % len(cat)] if (s >> 28) % 5 < 2 else ry
                if (s >> 40) % 11 == 0:
                    y = x
            e = EXPONENTS[s % len(EXPONENTS)] if (s >> 8) % 3 else er >> [184, 128, 122, 62, 0][(s >> 10) % 5]
            if (s >> 44) % 23 == 0:
                e = (1 << m) - 1 - ((s >> 50) & 1)          # Fermat exponent 2^m - 1, inverse exponent 2^m - 2
            epad = (s >> 16) & 1
            if not ctx.case(["gf2", list(p4), x, y, e, epad], "gf2:%s" % shape):
                continue
            bump(hist, "m=%d" % m)
            fld = Ring.gf2(lib, p4)
            out = ring_case(ctx, fld, alg, "gf2", x, y, e, epad, do_inv=not (aligned and AVOID["gf2:aligned-inv"]), direct=False, extra_rej=rej)
            # trace
            tdeep = lib.gf2Tr_deep(n, fld.deep)
            tr = lib.gf2Tr(lib.mkw(x, n), fld.p, lib.alloc(tdeep))
            te = alg.trace(x)
            if te not in (0, 1):
                raise Harness("trace model: value outside GF(2)")
            out.append(tr)
            if int(bool(tr)) != te:
                pbad(ctx, "gf2Tr", "value", {"p": str(p4), "a": x, "got": tr, "expected": te})
            # z^2 + x z + y = 0 (m odd)
            if m % 2 == 1:
                z = lib.outw(n)
                ret = lib.gf2QSolve(z, lib.mkw(x, n), lib.mkw(y, n), fld.p, lib.alloc(lib.gf2QSolve_deep(n, fld.deep)))
                if x == 0 or y == 0:
                    exists = True
                else:
                    exists = alg.trace(alg.mul(y, alg.inv(alg.sqr(x)))) == 0
                out.append(bool(ret))
                bump(hist, "qsolve:" + ("a=0" if x == 0 else "b=0" if y == 0 else "solvable" if exists else "unsolvable"))
                if bool(ret) != exists:
                    pbad(ctx, "gf2QSolve", "existence", {"p": str(p4), "a": x, "b": y, "got": bool(ret), "expected": exists})
                elif ret:
                    zz = lib.rdw(z, n)
                    out.append(zz)
                    if zz >> m or alg.sqr(zz) ^ alg.mul(x, zz) ^ y:
                        pbad(ctx, "gf2QSolve", "root", {"p": str(p4), "a": x, "b": y, "root": zz})
                    elif x == 0 and y and alg.sqr(zz) != y:
                        pbad(ctx, "gf2QSolve", "root", {"p": str(p4), "a": x, "b": y, "root": zz})
            ctx.digest(out)
            lib.release()
    ctx.note("gf2", hist)


def jobs(tier, scale=1.0):
    """jobs of this half of C05 (no cfg: the caller attaches the configuration)"""
    q = tier == "quick"
    J = []

    def sc(v):
        return max(1, int(v * scale))

    def add(unit, n, **params):
        for k in range(n):
            J.append({"unit": "c05_pp:" + unit, "params": dict(params, chunk=k, nchunks=n)})
    add("unit_zm", 6 if q else 16, cases=sc(4000 if q else 60000), tuples=3 if q else 5)
    add("unit_pp_small", 4 if q else 16, maxdeg=(7 if q else 10) if scale >= 1 else 6)
    add("unit_pp_arith", 2 if q else 6, cases=sc(20000 if q else 150000))
    add("unit_pp_mod", 2 if q else 8, cases=sc(8000 if q else 60000))
    add("unit_pp_irred", 4 if q else 12, cases=sc(250 if q else 1500))
    add("unit_gf2", 4 if q else 12, cases=sc(30 if q else 250))
    for part in range(2):
        J.append({"unit": "c05_pp:unit_zm_edge", "params": {"part": part}, "timeout": 600})
    for part in range(3):
        J.append({"unit": "c05_pp:unit_pp_edge", "params": {"part": part}})
    return J
