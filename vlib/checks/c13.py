"""C13 — bels threshold secret sharing (STB 34.101.60).

Oracles: partial secrets = model (ref/bels.py, k taken from the generator tape);
recover o share = id for every subset of >= threshold partial secrets in several
orders; model CRT recovery = secret (model self-consistency); generated keys =
minimal-polynomial model, valid (belsValM and the model's irreducibility test),
deterministic.

Every recovery case is self-contained: it is fed the partial secrets the
*model* defines (the share case of the same deal checks that the library
produces exactly these), so a case can be replayed alone.  belsShare3 (the
experimental deterministic k) has no model for k: its partial secrets are
checked to lie on some c = (x^l + m0)k + s with deg k < (threshold-1)l (CRT over
all of them), and its recovery cases call belsShare3 themselves.
"""
import ctypes, itertools
from ..core import Harness
from ..ref import bels_tables
from ..bee2 import errname
from ..ref import bels as M

LEVEL = "exploration"

GENF = ctypes.CFUNCTYPE(None, ctypes.c_void_p, ctypes.c_size_t, ctypes.c_void_p)
APIS = ("share-std", "share2", "share3", "share-gen")
PAIRS = [(c, t) for c in range(1, 17) for t in range(1, c + 1)]


class Tape:
    """gen_i that serves a Python octet string; records the requests"""

    def __init__(self, data):
        self.data, self.pos, self.reqs, self.short = bytes(data), 0, [], False
        self.cb = GENF(self._gen)
        self.addr = ctypes.cast(self.cb, ctypes.c_void_p).value

    def _gen(self, buf, count, state):
        self.reqs.append(count)
        chunk = self.data[self.pos:self.pos + count]
        if len(chunk) < count:
            self.short = True
            chunk += bytes(count - len(chunk))
        self.pos += count
        if count:
            ctypes.memmove(buf, chunk, count)


def brng_pair(lib, key, iv):
    """(gen address, state) of the library's brngCTR started on (key, iv)"""
    st = lib.alloc(lib.brngCTR_keep())
    lib.brngCTRStart(st, lib.mk(key), lib.mk(iv))
    return lib.addr("brngCTRStepR"), st


def brng_tape(lib, key, iv, n):
    """the n octets one brngCTRStepR call on a zeroed buffer yields (bels passes a zeroed blob)"""
    if n == 0:
        return b""
    _, st = brng_pair(lib, key, iv)
    buf = lib.mk(bytes(n))
    lib.brngCTRStepR(buf, n, st)
    return lib.rd(buf, n)


def selftest(lib, ctx=None):
    bad = M.selftest(lib)
    # the model takes the standard public keys from the library (tables A.1 - A.4 are data of the standard): if those are not
    # 17 distinct irreducible polynomials it is the library's table that is wrong, not the model
    tbl = [b for b in bad if b.startswith("std keys")]
    if tbl and ctx is not None:
        ctx.case(["belsStdM-table"] + tbl, "stdm:table")
        ctx.violation("belsStdM:standard-keys-not-distinct-irreducible", "the standard public keys the library supplies are not 17 distinct "
                      "irreducible polynomials of the right degree", {"selftest": tbl})
    if bad:
        raise Harness("ref/bels.py self-test failed: %s" % bad[:5])


def mark(ctx, *labels):
    for l in labels:
        ctx.classes[l] += 1


def secret_of(kind, ln, rng):
    if kind == "zero":
        return bytes(ln)
    if kind == "ones":
        return b"\xff" * ln
    return rng.randbytes(ln)


# ---------------------------------------------------------------------------------
# key generation
# ---------------------------------------------------------------------------------

def val(lib, m):
    p = lib.mk(m)
    r = lib.belsValM(p, len(m))
    return r


def check_key(ctx, fn, cls, m, m0, detail):
    """a generated key must be valid for the library and for the model, and differ from m0"""
    lib = ctx.lib
    r = val(lib, m)
    if r != 0:
        ctx.violation("%s:invalid-key:belsValM-rejects:%s" % (fn, cls), "generated key rejected by belsValM (%s)" % errname(r),
                      dict(detail, key=m))
    if not M.is_valid(m):
        ctx.violation("%s:invalid-key:reducible:%s" % (fn, cls), "generated key is not an irreducible polynomial", dict(detail, key=m))
    if m0 is not None and m == m0:
        ctx.violation("%s:invalid-key:equals-m0:%s" % (fn, cls), "generated user key equals the common key", dict(detail, key=m))
    return r


def run_genmi(ctx, ln, m0, tape_bytes, cls, gen="tape", brng=None):
    """one belsGenMi case against the model; returns the key the model defines"""
    lib = ctx.lib
    want, used = M.genmi(m0, tape_bytes)
    if want is None:
        raise Harness("generator produced a tape on which the model's genmi fails")
    if not ctx.case(["belsGenMi", ln, m0, gen, tape_bytes if gen == "tape" else brng], cls):
        return want
    out = lib.alloc(ln)
    if gen == "tape":
        tp = Tape(tape_bytes)
        r = lib.belsGenMi(out, ln, lib.mk(m0), tp.addr, 0)
        reqs = tp.reqs
    else:
        g, st = brng_pair(lib, *brng)
        r = lib.belsGenMi(out, ln, lib.mk(m0), g, st)
        reqs = None
    got = lib.rd(out, ln)
    ctx.digest(r, got if r == 0 else b"")
    det = {"len": ln, "m0": m0, "tape": tape_bytes, "want": want, "got": got, "ret": errname(r)}
    if r != 0:
        ctx.violation("belsGenMi:ret:%s:%s" % (errname(r), cls), "belsGenMi fails on a valid common key", det)
    else:
        if got != want:
            ctx.violation("belsGenMi:value:%s" % cls, "belsGenMi output is not the minimal polynomial of the candidate", det)
        check_key(ctx, "belsGenMi", cls, got, m0, det)
        if reqs is not None and reqs != [ln] * (used // ln):
            ctx.extra["gen_requests_unexpected"] = ctx.extra.get("gen_requests_unexpected", 0) + 1
    lib.release()
    return want


def run_genmid(ctx, ln, m0, ident, cls):
    lib = ctx.lib
    h = M.belt_hash(lib, ident)
    want = M.genmid(m0, h)
    if want is None:
        raise Harness("model genmid fails")
    if not ctx.case(["belsGenMid", ln, m0, ident], cls):
        return want
    outs = []
    for rep in range(2):
        out = lib.alloc(ln)
        r = lib.belsGenMid(out, ln, lib.mk(m0), lib.mk(ident), len(ident))
        outs.append((r, lib.rd(out, ln)))
    r, got = outs[0]
    ctx.digest(r, got if r == 0 else b"")
    det = {"len": ln, "m0": m0, "id": ident, "want": want, "got": got, "ret": errname(r)}
    if outs[0] != outs[1]:
        ctx.violation("belsGenMid:nondeterministic:%s" % cls, "two calls with the same identifier differ", dict(det, second=outs[1][1]))
    if r != 0:
        ctx.violation("belsGenMid:ret:%s:%s" % (errname(r), cls), "belsGenMid fails on a valid common key", det)
    else:
        if got != want:
            ctx.violation("belsGenMid:value:%s" % cls, "belsGenMid output differs from the model", det)
        check_key(ctx, "belsGenMid", cls, got, m0, det)
    lib.release()
    return want


def reducible_blocks(ln, rng):
    """candidates a correct belsGenM0 must skip"""
    l = 8 * ln
    out = [bytes(ln)]                                           # x^l
    e = rng.getrandbits(l) & ~1
    out.append(e.to_bytes(ln, "little"))                        # divisible by x
    w = rng.getrandbits(l) | 1
    if bin(w).count("1") % 2 == 0:                              # x^l + w has even weight iff w has odd weight
        w ^= 2
    out.append(w.to_bytes(ln, "little"))                        # divisible by x + 1
    # product of two random polynomials of degree l/2 with constant term 1 and odd weight-ish
    while True:
        a = rng.getrandbits(l // 2) | 1 | (1 << (l // 2))
        b = rng.getrandbits(l // 2) | 1 | (1 << (l // 2))
        p = M.gf.mul(a, b)
        if M.gf.deg(p) == l:
            out.append((p ^ (1 << l)).to_bytes(ln, "little"))
            break
    return out


def run_genm0_constructed(ctx, ln, good, rng, cls):
    """tape = reducible candidates, then a known irreducible one, then junk"""
    lib = ctx.lib
    bad = reducible_blocks(ln, rng)
    rng.shuffle(bad)
    bad = bad[:rng.randrange(0, len(bad) + 1)]
    tape_bytes = b"".join(bad) + good + rng.randbytes(ln)
    if any(M.is_valid(b) for b in bad):
        raise Harness("constructed reducible candidate is irreducible")
    if not ctx.case(["belsGenM0", ln, tape_bytes], cls):
        return
    mark(ctx, "genm0:skipped=%d" % len(bad))
    tp = Tape(tape_bytes)
    out = lib.alloc(ln)
    r = lib.belsGenM0(out, ln, tp.addr, 0)
    got = lib.rd(out, ln)
    ctx.digest(r, got if r == 0 else b"", tp.pos)
    det = {"len": ln, "tape": tape_bytes, "want": good, "got": got, "ret": errname(r), "consumed": tp.pos}
    if r != 0:
        ctx.violation("belsGenM0:ret:%s:%s" % (errname(r), cls), "belsGenM0 fails although the tape holds an irreducible candidate", det)
    else:
        if got != good:
            ctx.violation("belsGenM0:value:%s" % cls, "belsGenM0 does not return the first irreducible candidate of the tape", det)
        check_key(ctx, "belsGenM0", cls, got, None, det)
    lib.release()


def run_genm0_random(ctx, ln, rng, cls, gen):
    """random candidates: the model scans the tape for the first irreducible block"""
    lib = ctx.lib
    ncand = 40 * ln          # 5 l candidates: P(no irreducible) ~ e^-5; such tapes are redrawn
    if gen == "tape":
        seed = None
        while True:
            tape_bytes = rng.randbytes(ncand * ln)
            want, idx = M.genm0(tape_bytes, ln)
            if want is not None:
                break
        desc = ["belsGenM0", ln, "tape", tape_bytes[:(idx + 1) * ln]]
    else:
        while True:
            seed = (rng.randbytes(32), rng.randbytes(32))
            # belsGenM0 asks len octets per candidate into the same (not re-zeroed) buffer: replay that
            g, st = brng_pair(lib, *seed)
            buf = lib.mk(bytes(ln + lib.W))          # f0 has n + 1 words; ang writes the first len octets
            blocks = []
            for i in range(ncand):
                lib.brngCTRStepR(buf, ln, st)
                blocks.append(lib.rd(buf, ln))
            lib.release()
            tape_bytes = b"".join(blocks)
            want, idx = M.genm0(tape_bytes, ln)
            if want is not None:
                break
        desc = ["belsGenM0", ln, "brngCTR", seed[0], seed[1]]
    if not ctx.case(desc, cls):
        return
    out = lib.alloc(ln)
    if gen == "tape":
        tp = Tape(tape_bytes)
        r = lib.belsGenM0(out, ln, tp.addr, 0)
        consumed = tp.pos
    else:
        g, st = brng_pair(lib, *seed)
        r = lib.belsGenM0(out, ln, g, st)
        consumed = None
    got = lib.rd(out, ln)
    ctx.digest(r, got if r == 0 else b"", consumed)
    det = {"len": ln, "gen": gen, "seed": seed, "candidates_before": idx, "want": want, "got": got, "ret": errname(r)}
    if r != 0:
        ctx.violation("belsGenM0:ret:%s:%s" % (errname(r), cls), "belsGenM0 fails although the generator yields an irreducible candidate", det)
    else:
        if got != want:
            ctx.violation("belsGenM0:value:%s" % cls, "belsGenM0 does not return the first irreducible candidate", det)
        check_key(ctx, "belsGenM0", cls, got, None, det)
    mark(ctx, "genm0:candidates>=%d" % (1 << max(0, idx.bit_length() - 1)) if idx else "genm0:candidates=0")
    lib.release()


def subfield_element(m0, rng):
    """non-trivial element of the subfield of index 2 of GF(2)[x]/(x^l + m0): v + v^(2^(l/2));
    its minimal polynomial has degree <= l/2, so belsGenMi must go on to the next candidate"""
    f = M.poly(m0)
    l = M.gf.deg(f)
    while True:
        v = rng.getrandbits(l)
        t = v
        for _ in range(l // 2):
            t = M.gf.mulmod(t, t, f)
        u = v ^ t
        if u > 1:
            return u.to_bytes(l // 8, "little")


def unit_keys(ctx):
    """belsStdM / belsValM on the tables, belsGenM0 / belsGenMi / belsGenMid against the model"""
    lib, rng = ctx.lib, ctx.rng
    selftest(lib, ctx)
    ln, n = ctx.params["len"], ctx.params["n"]
    std = M.std_keys(lib, ln)
    if ctx.params.get("chunk", 0) == 0:
        for num in range(17):
            if not ctx.case(["belsStdM+belsValM", ln, num], "stdm"):
                continue
            p = lib.alloc(ln)
            r = lib.belsStdM(p, ln, num)
            m = lib.rd(p, ln)
            rv = lib.belsValM(p, ln)
            ctx.digest(r, m, rv)
            if r != 0 or rv != 0:
                ctx.violation("belsStdM:ret:stdm", "standard key not loaded / not valid", {"len": ln, "num": num, "ret": errname(r), "val": errname(rv)})
            elif m != bels_tables.std_key(ln, num):
                ctx.violation("belsStdM:value:differs-from-the-standard-table", "belsStdM does not return the key of STB 34.101.60 tables A.1-A.3",
                              {"len": ln, "num": num, "got": m, "expected": bels_tables.std_key(ln, num)})
            lib.release()
        # the 17 standard keys of a length are pairwise distinct (sharing needs distinct moduli: with two equal ones the
        # shares of those users coincide and recovery from both is refused)
        if ctx.case(["belsStdM-distinct", ln], "stdm:distinct"):
            dup = sorted({(i, j) for i in range(17) for j in range(i + 1, 17) if std[i] == std[j]})
            ctx.digest(len(dup))
            if dup:
                ctx.violation("belsStdM:duplicate-standard-keys", "two standard public keys of one length are equal",
                              {"len": ln, "pairs": dup, "key": std[dup[0][0]]})
            if not all(M.is_valid(k) for k in std):
                ctx.violation("belsStdM:reducible-standard-key", "a standard public key is not irreducible of degree 8 len", {"len": ln})
    for it in range(n):
        # a "generated" common key, defined by the model: minimal polynomial over the standard field
        m0 = run_genmi(ctx, ln, std[0], rng.randbytes(ln), "genmi:std-m0")
        # belsGenM0 must find it behind reducible candidates
        run_genm0_constructed(ctx, ln, m0, rng, "genm0:constructed")
        run_genm0_constructed(ctx, ln, std[rng.randrange(17)], rng, "genm0:constructed")
        base = m0 if it % 2 else std[0]
        tag = "gen-m0" if it % 2 else "std-m0"
        # rejection inside belsGenMi: 0 -> minimal polynomial of degree <= 1; 1 -> x + 1; x -> f0 itself; subfield
        rej = [bytes(ln), b"\x01" + bytes(ln - 1), b"\x02" + bytes(ln - 1), subfield_element(base, rng)]
        a, b = rng.sample(range(4), 2)
        run_genmi(ctx, ln, base, rej[a] + rng.randbytes(ln), "genmi:reject1:" + tag)
        run_genmi(ctx, ln, base, rej[a] + rej[b] + rng.randbytes(ln), "genmi:reject2:" + tag)
        run_genmi(ctx, ln, base, rej[3] + rng.randbytes(ln), "genmi:reject-subfield:" + tag)
        run_genmi(ctx, ln, base, rng.randbytes(3 * ln), "genmi:random:" + tag)
        # candidates of small degree: x + 1 is rejected (degree of the minimal polynomial), x^3 + x + 1 / one word / half
        # the words with the top ones zero are ordinary field elements whose powers fill all words
        for small in (b"\x0b", b"\x09", b"\x21", b"\x05", b"\x11", bytes([rng.randrange(4, 256)]), b"\x01\x01", rng.randbytes(8),
                      rng.randbytes(ln // 2), rng.randbytes(ln - 8)):
            run_genmi(ctx, ln, base, (small + bytes(ln))[:ln] + rng.randbytes(2 * ln), "genmi:short-candidate:" + tag)
        seed = (rng.randbytes(32), rng.randbytes(32))
        bt = brng_tape(lib, seed[0], seed[1], ln)
        lib.release()
        # (first attempt only is modelled for the library generator; a rejection has probability ~2^-l/2)
        run_genmi(ctx, ln, base, bt + bytes(2 * ln), "genmi:brng:" + tag, gen="brng", brng=seed)
        for ident in (b"", b"Alice", rng.randbytes(rng.choice((1, 7, 31, 32, 33, 64, 100)))):
            run_genmid(ctx, ln, base, ident, "genmid:" + tag)
        # identifiers differing in one bit give different keys (both equal to the model, so this is a model fact too)
    for it in range(ctx.params.get("n_m0", 0)):
        run_genm0_random(ctx, ln, rng, "genm0:random-" + ("tape" if it % 2 == 0 else "brng"), "tape" if it % 2 == 0 else "brng")


# ---------------------------------------------------------------------------------
# share / recover
# ---------------------------------------------------------------------------------

def gen_keyset(ctx, ln, std):
    """common key + 16 user keys defined by the model and confirmed as library outputs (cases)"""
    lib, rng = ctx.lib, ctx.rng
    m0 = run_genmi(ctx, ln, std[0], rng.randbytes(ln), "genmi:std-m0")
    run_genm0_constructed(ctx, ln, m0, rng, "genm0:constructed")
    keys = []
    i = 0
    while len(keys) < 16:
        if i % 2 == 0:
            k = run_genmi(ctx, ln, m0, rng.randbytes(3 * ln), "genmi:random:gen-m0")
        else:
            k = run_genmid(ctx, ln, m0, b"user-%d-" % i + rng.randbytes(i % 5), "genmid:gen-m0")
        i += 1
        if k not in keys and k != m0:
            keys.append(k)
    for k in [m0] + keys:
        if not M.is_valid(k):
            raise Harness("model produced a reducible key")
    return m0, keys


def call_share(ctx, api, ln, count, t, s, m0, mis, genkind, tape_bytes, seed):
    """-> (ret, list of partial secrets incl. number octet for the '2' forms, requests)"""
    lib = ctx.lib
    tp = None
    if api != "share3":
        if genkind == "brng":
            g, st = brng_pair(lib, *seed)
        else:
            tp = Tape(tape_bytes)
            g, st = tp.addr, 0
    if api in ("share-std", "share-gen"):
        si = lib.alloc(count * ln)
        r = lib.belsShare(si, count, t, ln, lib.mk(s), lib.mk(m0), lib.mk(b"".join(mis)), g, st)
        raw = lib.rd(si, count * ln)
        out = [raw[i * ln:(i + 1) * ln] for i in range(count)]
    elif api == "share2":
        si = lib.alloc(count * (ln + 1))
        r = lib.belsShare2(si, count, t, ln, lib.mk(s), g, st)
        raw = lib.rd(si, count * (ln + 1))
        out = [raw[i * (ln + 1):(i + 1) * (ln + 1)] for i in range(count)]
    else:
        si = lib.alloc(count * (ln + 1))
        r = lib.belsShare3(si, count, t, ln, lib.mk(s))
        raw = lib.rd(si, count * (ln + 1))
        out = [raw[i * (ln + 1):(i + 1) * (ln + 1)] for i in range(count)]
    return r, out, (tp.reqs if tp else None)


def call_recover(ctx, form, ln, shares, m0, mis, nums):
    """form 'explicit': belsRecover(shares, m0, mis); form 'numbered': belsRecover2(num || share)"""
    lib = ctx.lib
    out = lib.alloc(ln)
    cnt = len(shares)
    if form == "explicit":
        r = lib.belsRecover(out, cnt, ln, lib.mk(b"".join(shares)), lib.mk(m0), lib.mk(b"".join(mis)))
    else:
        r = lib.belsRecover2(out, cnt, ln, lib.mk(b"".join(bytes([n]) + x for n, x in zip(nums, shares))))
    return r, lib.rd(out, ln)


def orderings(sub, rng, nrand=3):
    s = sorted(sub)
    out = [("sorted", tuple(s))]
    seen = {tuple(s)}
    r = tuple(reversed(s))
    if r not in seen:
        seen.add(r)
        out.append(("reversed", r))
    for _ in range(nrand):
        p = s[:]
        rng.shuffle(p)
        p = tuple(p)
        if p not in seen:
            seen.add(p)
            out.append(("random", p))
    return out


def subsets_for(count, t, exh, nrnd, rng):
    """(kind, subset) list: all subsets of size >= t when count <= exh, else nrnd random ones
    (always containing one of size t and the full set)"""
    if count <= exh:
        return [("exh", c) for k in range(t, count + 1) for c in itertools.combinations(range(count), k)]
    out, seen = [], set()
    sizes = [t, count] + [rng.randint(t, count) for _ in range(max(0, nrnd - 2))]
    for k in sizes[:max(nrnd, 1)]:
        c = tuple(sorted(rng.sample(range(count), k)))
        if c not in seen:
            seen.add(c)
            out.append(("rnd", c))
    return out


def unit_deals(ctx):
    lib, rng = ctx.lib, ctx.rng
    selftest(lib, ctx)
    P = ctx.params
    ln, api = P["len"], P["api"]
    exh, nrnd = P["exh"], P["rnd"]
    std = M.std_keys(lib, ln)
    if api == "share-gen":
        m0, pool = gen_keyset(ctx, ln, std)
        numbers = None
    else:
        m0, pool = std[0], std[1:]
        numbers = list(range(1, 17))
    pairs = PAIRS[P["chunk"]::P["nchunks"]]
    kinds_all = ("zero", "ones", "random")
    # low / word / block: blinding polynomials of small degree (1, below 64, below l): the product with m0 then stays short
    tapekinds = ("random", "random", "zero", "ones", "brng", "random", "top", "low", "word", "block")
    fn = {"share-std": "belsShare", "share-gen": "belsShare", "share2": "belsShare2", "share3": "belsShare3"}[api]
    for pi, (count, t) in enumerate(pairs):
        # all three secrets on the exhaustively enumerated part, rotating above it
        kinds = kinds_all if (P.get("all_secrets") or count <= exh) else (kinds_all[(count + t + pi) % 3],)
        for kind in kinds:
            s = secret_of(kind, ln, rng)
            # users' keys: '2'/'3' forms use standard keys 1..count; belsShare gets a random selection in random order
            if api in ("share2", "share3"):
                idx = list(range(count))
            else:
                idx = rng.sample(range(16), count)
            mis = [pool[i] for i in idx]
            nums = [numbers[i] for i in idx] if numbers else None
            need = (t - 1) * ln
            tk = tapekinds[rng.randrange(len(tapekinds))]
            seed = (rng.randbytes(32), rng.randbytes(32))
            if tk == "zero":
                tape_bytes = bytes(need)
            elif tk == "ones":
                tape_bytes = b"\xff" * need
            elif tk == "top":
                tape_bytes = bytes(max(0, need - 1)) + (b"\x80" if need else b"")
            elif tk in ("low", "word", "block"):
                head = {"low": bytes([rng.choice([1, 2, 3, 0x21])]), "word": rng.randbytes(8), "block": rng.randbytes(ln)}[tk]
                tape_bytes = (head + bytes(need))[:need]
            else:
                tape_bytes = rng.randbytes(need)
            junk = rng.randbytes(8)
            cls = "share:%s" % api
            model_shares = None
            if api != "share3":
                if tk == "brng":
                    tape_bytes = brng_tape(lib, seed[0], seed[1], need)
                    lib.release()
                model_shares = M.share(s, m0, mis, t, tape_bytes)
            desc = ["share", api, ln, count, t, kind, s, m0 if api == "share-gen" else "std", nums or mis,
                    tk, seed if tk == "brng" else tape_bytes]
            if ctx.case(desc, cls):
                mark(ctx, "secret:" + kind, "len=%d" % ln)
                if api != "share3":
                    mark(ctx, "k:" + tk)
                if t == 1:
                    mark(ctx, "share:t=1")
                if t == count:
                    mark(ctx, "share:t=count")
                if count == 16:
                    mark(ctx, "share:count=16")
                r, got, reqs = call_share(ctx, api, ln, count, t, s, m0, mis, tk, tape_bytes + junk, seed)
                ctx.digest(r, b"".join(got) if r == 0 else b"")
                det = {"len": ln, "count": count, "threshold": t, "secret": s, "m0": m0, "mi": mis, "k_tape": tape_bytes,
                       "ret": errname(r)}
                sgn = "threshold=1" if t == 1 else "threshold>1"
                if r != 0:
                    ctx.violation("%s:ret:%s:%s" % (fn, errname(r), sgn), "share fails on valid input", det)
                else:
                    body = got
                    if api in ("share2", "share3"):
                        if [g[0] for g in got] != list(range(1, count + 1)):
                            ctx.violation("%s:number-octet:%s" % (fn, sgn), "first octets of the blocks are not 1..count",
                                          dict(det, got=[g[0] for g in got]))
                        body = [g[1:] for g in got]
                    if api != "share3":
                        if body != model_shares:
                            bad = [i for i in range(count) if body[i] != model_shares[i]]
                            ctx.violation("%s:value:%s" % (fn, sgn), "partial secret differs from c mod (x^l + m_i)",
                                          dict(det, users=bad, got=body[bad[0]], want=model_shares[bad[0]]))
                        if reqs is not None and reqs != [need]:
                            ctx.extra["gen_requests_unexpected"] = ctx.extra.get("gen_requests_unexpected", 0) + 1
                    else:
                        ok, k = M.consistent(body, s, m0, mis, t)
                        if not ok:
                            ctx.violation("%s:value:%s" % (fn, sgn),
                                          "partial secrets do not lie on any (x^l + m0)k + s with deg k < (threshold-1)l",
                                          dict(det, got=body))
                        # deterministic
                        r2, got2, _ = call_share(ctx, api, ln, count, t, s, m0, mis, tk, b"", seed)
                        if (r2, got2) != (r, got):
                            ctx.violation("%s:nondeterministic:%s" % (fn, sgn), "two calls differ", det)
                lib.release()
            # model self-consistency: CRT recovery from the model's own shares
            if model_shares is not None:
                sub = sorted(rng.sample(range(count), rng.randint(t, count)))
                rng.shuffle(sub)
                if M.recover([model_shares[i] for i in sub], m0, [mis[i] for i in sub]) != s:
                    raise Harness("model: recover(share(s)) != s")
                ctx.extra["model_recoveries"] = ctx.extra.get("model_recoveries", 0) + 1
            # recoveries
            for skind, sub in subsets_for(count, t, exh, nrnd, rng):
                for okind, order in orderings(sub, rng):
                    # which recover entry point
                    if api in ("share2", "share3"):
                        form = "explicit" if (api == "share2" and rng.randrange(4) == 0) else "numbered"
                    elif api == "share-std":
                        form = "numbered" if rng.randrange(4) == 0 else "explicit"
                    else:
                        form = "explicit"
                    rfn = "belsRecover" if form == "explicit" else "belsRecover2"
                    rcls = "recover:%s:%s:%s" % (api, rfn, skind)
                    sub_mis = [mis[i] for i in order]
                    sub_nums = [nums[i] for i in order] if nums else None
                    sub_sh = [model_shares[i] for i in order] if model_shares is not None else None
                    desc = ["recover", api, rfn, ln, count, t, [i + 1 for i in order], s,
                            m0 if api == "share-gen" else "std", sub_nums or sub_mis, sub_sh]
                    if not ctx.case(desc, rcls):
                        continue
                    mark(ctx, "order:" + okind,
                         "size=threshold" if len(order) == t else ("size=count" if len(order) == count else "threshold<size<count"))
                    if len(order) == 1:
                        mark(ctx, "recover:single")
                    if len(order) == 16:
                        mark(ctx, "recover:16-shares")
                    if api == "share3":
                        r0, got0, _ = call_share(ctx, api, ln, count, t, s, m0, mis, None, b"", None)
                        if r0 != 0:
                            lib.release()
                            continue        # reported by the share case
                        sub_sh = [got0[i][1:] for i in order]
                    r, rec = call_recover(ctx, form, ln, sub_sh, m0, sub_mis, sub_nums)
                    ctx.digest(r, rec if r == 0 else b"")
                    if r != 0 or rec != s:
                        det = {"len": ln, "count": count, "threshold": t, "users_in_order": [i + 1 for i in order],
                               "secret": s, "m0": m0, "mi": sub_mis, "numbers": sub_nums, "shares": sub_sh,
                               "ret": errname(r), "recovered": rec}
                        # signature: how many CRT steps the recovery makes (1 share: none, 2: one, 3+: several)
                        sgn = "shares=%s" % ("1" if len(order) == 1 else "2" if len(order) == 2 else "3+")
                        if r != 0:
                            ctx.violation("%s:ret:%s:%s" % (rfn, errname(r), sgn), "recovery fails on valid partial secrets", det)
                        else:
                            ctx.violation("%s:value:%s" % (rfn, sgn),
                                          "recovery from >= threshold partial secrets does not return the secret", det)
                    lib.release()


# ---------------------------------------------------------------------------------

def jobs(tier, scale=1.0):
    q = tier == "quick"
    exh = 5 if q else 6
    nrnd = max(2, int((12 if q else 200) * scale))
    nch = 4 if q else 8
    if scale < 0.5:
        nch = max(1, nch // 2)
    js = []
    for ln in M.LENS:
        for api in APIS:
            for ch in range(nch):
                p = {"len": ln, "api": api, "chunk": ch, "nchunks": nch, "exh": exh, "rnd": nrnd}
                if not q:
                    # above the exhaustive part thorough rotates through the secret kinds per deal and takes
                    # all three for the '2' forms
                    p["all_secrets"] = api == "share2" and scale >= 1.0
                js.append({"unit": "c13:unit_deals", "params": p})
    nk = max(1, int((3 if q else 12) * scale))
    for ln in M.LENS:
        for ch in range(2 if q else 4):
            js.append({"unit": "c13:unit_keys", "params": {"len": ln, "chunk": ch, "n": nk,
                                                           "n_m0": (0 if (q and ln == 32) else (1 if q else 2)) if ch < 2 else 0}})
    # longest first
    js.sort(key=lambda j: (-j["params"]["len"], j["unit"]))
    return js


REQUIRED = tuple(["share:%s" % a for a in APIS] +
                 ["recover:share-std:belsRecover:exh", "recover:share-std:belsRecover:rnd", "recover:share-std:belsRecover2:rnd",
                  "recover:share2:belsRecover2:exh", "recover:share2:belsRecover2:rnd", "recover:share2:belsRecover:rnd",
                  "recover:share3:belsRecover2:exh", "recover:share3:belsRecover2:rnd",
                  "recover:share-gen:belsRecover:exh", "recover:share-gen:belsRecover:rnd",
                  "order:sorted", "order:reversed", "order:random", "size=threshold", "size=count", "threshold<size<count",
                  "recover:single", "recover:16-shares", "share:t=1", "share:t=count", "share:count=16",
                  "secret:zero", "secret:ones", "secret:random", "k:zero", "k:ones", "k:random", "k:brng", "k:top",
                  "len=16", "len=24", "len=32",
                  "stdm", "genm0:constructed", "genm0:random-tape", "genmi:std-m0", "genmi:random:gen-m0",
                  "genmi:reject1:std-m0", "genmi:reject2:std-m0", "genmi:reject-subfield:std-m0", "genmi:brng:std-m0",
                  "genmid:std-m0", "genmid:gen-m0"])


def main(run):
    js = [dict(j, cfg="asan64") for j in jobs(run.tier)]
    if run.tier != "quick":
        js += [dict(j, cfg="asan32") for j in jobs("quick", 0.5)]
    run.run_jobs(js)
    return run.finish(
        rule="case = one library call group: a share call (len, count, threshold, secret, keys, generator tape), a recovery "
             "(subset of users in a given order) or a key generation (tape / identifier); distinct = distinct descriptions",
        assumptions=[
            "ref/bels.py reads k as the first (threshold-1)*len generator octets, little-endian (implementation convention; "
            "the share values it yields reproduce tables B.2-B.7 of STB 34.101.60 as embedded in bels_test.c)",
            "belsGenMi/belsGenMid model: minimal polynomial of the candidate over GF(2) (bels.h), 3 attempts, candidates of "
            "len octets; belt-hash of the identifier is taken from the library (C01/C03 cover it)",
            "belsShare3's k (experimental bels-genk) is not modelled: its partial secrets are checked to lie on a polynomial of the "
            "standard's form with the right degree bound, and recovery is checked metamorphically",
            "recovery cases are fed the partial secrets the model defines; the share case of the same deal checks the library "
            "produces exactly these",
            "error codes of key generation when every attempt fails are not tested (documentation does not settle them)"],
        min_eval=1000, required_classes=REQUIRED)
