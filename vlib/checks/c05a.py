"""temporary driver for c05_zz (to be deleted)"""
import os
from . import c05_zz
LEVEL = "exploration"


def main(run):
    scale = float(os.environ.get("C05A_SCALE", "1"))
    cfgs = os.environ.get("C05A_CFGS", "asan64,asan32").split(",")
    only = os.environ.get("C05A_ONLY")
    js = []
    for cfg in cfgs:
        for j in c05_zz.jobs(run.tier, scale):
            if only and only not in j["unit"] + str(j["params"]):
                continue
            js.append(dict(j, cfg=cfg))
    run.run_jobs(js)
    return run.finish(rule=c05_zz.RULE, assumptions=c05_zz.ASSUMPTIONS, required_classes=() if only or scale < 1 else c05_zz.REQUIRED_CLASSES)
