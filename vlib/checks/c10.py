"""C10 — incremental APIs: chunking, get-then-continue, state relocation change nothing.

Self-consistency oracle inside one worker: a script over one Start/Step/Get bundle (fragments of the data, Get/Verify
calls, relocations of the state) must give the results of the one-shot high-level function on the concatenated data;
every intermediate Get must equal the one-shot result on the prefix processed so far.
Splits are restricted to what each header permits.  Relocation (copy to a fresh exact-size block, overwrite the old
block with 0xDD, free it) is inserted only for bundles whose header declares the state copyable (belt, brng, botp).
"""
import ctypes
from ..core import Harness

LEVEL = "exploration"
ERR_OK = 0


def rb(rng, n):
    return bytes(rng.getrandbits(8) for _ in range(n))


# ---------------------------------------------------------------------------
# state handling
# ---------------------------------------------------------------------------

class St:
    def __init__(self, lib, size):
        self.lib, self.size = lib, size
        self.p = lib.alloc(size)
        self.relocs = 0

    def relocate(self):
        lib = self.lib
        new = lib.alloc(self.size, 0x11)
        ctypes.memmove(new, self.p, self.size)
        ctypes.memset(self.p, 0xDD, self.size)
        lib.free_one(self.p)
        self.p = new
        self.relocs += 1


# ---------------------------------------------------------------------------
# split generation
# ---------------------------------------------------------------------------

def cut_candidates(L, blk):
    c = {0, 1, L - 1, L}
    k = 0
    while k * blk <= L + blk:
        for d in (-1, 0, 1):
            c.add(k * blk + d)
        k += 1
    return sorted(x for x in c if 0 <= x <= L)


def random_split(rng, L, blk, maxfrag=6):
    """list of fragment lengths summing to L (empty fragments allowed)"""
    cand = cut_candidates(L, blk)
    n = rng.randrange(0, maxfrag)
    cuts = sorted(rng.choice(cand) if rng.random() < 0.8 else rng.randrange(0, L + 1) for _ in range(n))
    pts = [0] + cuts + [L]
    return [pts[i + 1] - pts[i] for i in range(len(pts) - 1)]


def all_splits(L, blk, maxcuts):
    cand = cut_candidates(L, blk)
    out = [[L]]
    if maxcuts >= 1:
        for a in cand:
            out.append([a, L - a])
    if maxcuts >= 2:
        for i, a in enumerate(cand):
            for b in cand[i:]:
                out.append([a, b - a, L - b])
    return out


def block_split(rng, L, blk, minlast):
    """fragments that are multiples of blk and >= blk, last fragment >= minlast and takes the ragged tail"""
    if L < minlast:
        return None
    nfull = L // blk
    frags = []
    pos = 0
    while True:
        remain = L - pos
        if remain < 2 * blk or rng.random() < 0.3:
            frags.append(remain)
            break
        maxb = (remain - minlast) // blk
        if maxb < 1:
            frags.append(remain)
            break
        k = rng.randrange(1, maxb + 1)
        frags.append(k * blk)
        pos += k * blk
    return frags


def split_class(frags, blk):
    s = set()
    for f in frags:
        if f == 0:
            s.add("0")
        elif f % blk == 0:
            s.add("k*blk")
        elif f % blk == 1:
            s.add("blk+1")
        elif f % blk == blk - 1:
            s.add("blk-1")
        else:
            s.add("ragged")
    return "frag{" + ",".join(sorted(s)) + "}x%d" % min(len(frags), 4)


# ---------------------------------------------------------------------------
# bundles.  Each returns a list of mismatch descriptions (empty = ok).
# ---------------------------------------------------------------------------

def _maybe_reloc(st, rng, prob):
    if prob and rng.random() < prob:
        st.relocate()


def b_cipher(lib, rng, name, L, frags, reloc, decrypt=False):
    """CFB / CTR: any fragmentation; ECB / CBC / BDE: block multiples, ragged tail last"""
    klen = rng.choice([16, 24, 32])
    key, iv, msg = rb(rng, klen), rb(rng, 16), rb(rng, L)
    hi = {"ECB": ("beltECBEncr", "beltECBDecr"), "CBC": ("beltCBCEncr", "beltCBCDecr"), "CFB": ("beltCFBEncr", "beltCFBDecr"),
          "CTR": ("beltCTR", "beltCTR"), "BDE": ("beltBDEEncr", "beltBDEDecr")}[name]
    fn = hi[1] if decrypt else hi[0]
    d = lib.alloc(L)
    if name == "ECB":
        r = getattr(lib, fn)(d, lib.mk(msg), L, lib.mk(key), klen)
    else:
        r = getattr(lib, fn)(d, lib.mk(msg), L, lib.mk(key), klen, lib.mk(iv))
    if r != ERR_OK:
        raise Harness("%s rejected an admissible input: %d" % (fn, r))
    want = lib.rd(d, L)
    st = St(lib, getattr(lib, "belt%s_keep" % name)())
    if name == "ECB":
        lib.beltECBStart(st.p, lib.mk(key), klen)
    else:
        getattr(lib, "belt%sStart" % name)(st.p, lib.mk(key), klen, lib.mk(iv))
    step = getattr(lib, "belt%sStep%s" % (name, "D" if decrypt and name != "CTR" else "E"))
    got = b""
    pos = 0
    for f in frags:
        _maybe_reloc(st, rng, reloc)
        b = lib.mk(msg[pos:pos + f])
        step(b, f, st.p)
        got += lib.rd(b, f)
        pos += f
    return [] if got == want else ["output"], dict(want=want, got=got, key=key, iv=iv, msg=msg)


def b_mac(lib, rng, name, L, frags, reloc, gets):
    """MAC / Hash / HMAC / bashHash: StepA|StepH fragments with get-then-continue"""
    msg = rb(rng, L)
    if name == "MAC":
        klen = rng.choice([16, 24, 32])
        key = rb(rng, klen)
        keep, tl = lib.beltMAC_keep(), 8
        def one(m):
            o = lib.alloc(8)
            if lib.beltMAC(o, lib.mk(m), len(m), lib.mk(key), klen) != ERR_OK:
                raise Harness("beltMAC failed")
            return lib.rd(o, 8)
        st = St(lib, keep)
        lib.beltMACStart(st.p, lib.mk(key), klen)
        stepa, stepg, stepv = lib.beltMACStepA, lambda o: lib.beltMACStepG(o, st.p), lambda t: lib.beltMACStepV(lib.mk(t), st.p)
    elif name == "Hash":
        keep, tl = lib.beltHash_keep(), 32
        def one(m):
            o = lib.alloc(32)
            if lib.beltHash(o, lib.mk(m), len(m)) != ERR_OK:
                raise Harness("beltHash failed")
            return lib.rd(o, 32)
        st = St(lib, keep)
        lib.beltHashStart(st.p)
        stepa, stepg, stepv = lib.beltHashStepH, lambda o: lib.beltHashStepG(o, st.p), lambda t: lib.beltHashStepV(lib.mk(t), st.p)
    elif name == "HMAC":
        klen = rng.choice([0, 1, 16, 31, 32, 33, 64, 65, 96])
        key = rb(rng, klen)
        keep, tl = lib.beltHMAC_keep(), 32
        def one(m):
            o = lib.alloc(32)
            if lib.beltHMAC(o, lib.mk(m), len(m), lib.mk(key), klen) != ERR_OK:
                raise Harness("beltHMAC failed")
            return lib.rd(o, 32)
        st = St(lib, keep)
        lib.beltHMACStart(st.p, lib.mk(key), klen)
        stepa, stepg, stepv = lib.beltHMACStepA, lambda o: lib.beltHMACStepG(o, st.p), lambda t: lib.beltHMACStepV(lib.mk(t), st.p)
    else:  # bashHash
        l = rng.choice(range(16, 257, 16))
        keep, tl = lib.bashHash_keep(), l // 4
        def one(m):
            o = lib.alloc(tl)
            if lib.bashHash(o, l, lib.mk(m), len(m)) != ERR_OK:
                raise Harness("bashHash failed")
            return lib.rd(o, tl)
        st = St(lib, keep)
        lib.bashHashStart(st.p, l)
        stepa = lib.bashHashStepH
        stepg = lambda o: lib.bashHashStepG(o, tl, st.p)
        stepv = lambda t: lib.bashHashStepV(lib.mk(t), tl, st.p)
    bad = []
    pos = 0
    for i, f in enumerate(frags):
        _maybe_reloc(st, rng, reloc)
        stepa(lib.mk(msg[pos:pos + f]), f, st.p)
        pos += f
        if gets and rng.random() < gets:
            want = one(msg[:pos])
            kind = rng.randrange(3)
            if kind == 0:
                o = lib.alloc(tl)
                stepg(o)
                if lib.rd(o, tl) != want:
                    bad.append("intermediate-get")
            elif kind == 1:
                if not stepv(want):
                    bad.append("intermediate-verify-rejects")
            else:
                t = bytearray(want)
                t[rng.randrange(tl)] ^= 1 << rng.randrange(8)
                if stepv(bytes(t)):
                    bad.append("intermediate-verify-accepts-wrong")
    _maybe_reloc(st, rng, reloc)
    o = lib.alloc(tl)
    stepg(o)
    want = one(msg)
    got = lib.rd(o, tl)
    if got != want:
        bad.append("final")
    return bad, dict(want=want, got=got, msg=msg)


def b_aead(lib, rng, name, L, frags, reloc, frags2, frags3, interleave):
    """DWP / CHE: StepI* (AD), StepE* (data), StepA* (ciphertext), StepG ; and the decrypting direction"""
    klen = rng.choice([16, 24, 32])
    key, iv, msg = rb(rng, klen), rb(rng, 16), rb(rng, L)
    L2 = sum(frags2)
    ad = rb(rng, L2)
    d, m = lib.alloc(L), lib.alloc(8)
    r = getattr(lib, "belt%sWrap" % name)(d, m, lib.mk(msg), L, lib.mk(ad), L2, lib.mk(key), klen, lib.mk(iv))
    if r != ERR_OK:
        raise Harness("wrap failed")
    wct, wmac = lib.rd(d, L), lib.rd(m, 8)
    P = "belt" + name
    st = St(lib, getattr(lib, P + "_keep")())
    getattr(lib, P + "Start")(st.p, lib.mk(key), klen, lib.mk(iv))
    bad = []
    for f, pos in _walk(frags2):
        _maybe_reloc(st, rng, reloc)
        getattr(lib, P + "StepI")(lib.mk(ad[pos:pos + f]), f, st.p)
    ct = b""
    if interleave:
        for f, pos in _walk(frags):
            _maybe_reloc(st, rng, reloc)
            b = lib.mk(msg[pos:pos + f])
            getattr(lib, P + "StepE")(b, f, st.p)
            getattr(lib, P + "StepA")(b, f, st.p)
            ct += lib.rd(b, f)
    else:
        for f, pos in _walk(frags):
            _maybe_reloc(st, rng, reloc)
            b = lib.mk(msg[pos:pos + f])
            getattr(lib, P + "StepE")(b, f, st.p)
            ct += lib.rd(b, f)
        for f, pos in _walk(frags3):
            _maybe_reloc(st, rng, reloc)
            getattr(lib, P + "StepA")(lib.mk(ct[pos:pos + f]), f, st.p)
    _maybe_reloc(st, rng, reloc)
    o = lib.alloc(8)
    getattr(lib, P + "StepG")(o, st.p)
    if ct != wct:
        bad.append("ciphertext")
    if lib.rd(o, 8) != wmac:
        bad.append("mac")
    # decrypting direction on the one-shot ciphertext
    st2 = St(lib, getattr(lib, P + "_keep")())
    getattr(lib, P + "Start")(st2.p, lib.mk(key), klen, lib.mk(iv))
    for f, pos in _walk(frags2):
        getattr(lib, P + "StepI")(lib.mk(ad[pos:pos + f]), f, st2.p)
    for f, pos in _walk(frags3):
        _maybe_reloc(st2, rng, reloc)
        getattr(lib, P + "StepA")(lib.mk(wct[pos:pos + f]), f, st2.p)
    if not getattr(lib, P + "StepV")(lib.mk(wmac), st2.p):
        bad.append("verify-rejects")
    pt = b""
    for f, pos in _walk(frags):
        _maybe_reloc(st2, rng, reloc)
        b = lib.mk(wct[pos:pos + f])
        getattr(lib, P + "StepD")(b, f, st2.p)
        pt += lib.rd(b, f)
    if pt != msg:
        bad.append("decrypt")
    return bad, dict(msg=msg, ad=ad, key=key, iv=iv, ct=ct, wct=wct)


def _walk(frags):
    pos = 0
    for f in frags:
        yield f, pos
        pos += f


def b_sde(lib, rng, nsect, reloc):
    klen = rng.choice([16, 24, 32])
    key = rb(rng, klen)
    st = St(lib, lib.beltSDE_keep())
    lib.beltSDEStart(st.p, lib.mk(key), klen)
    bad = []
    for i in range(nsect):
        n = 16 * rng.randrange(2, 9)
        sec, iv = rb(rng, n), rb(rng, 16)
        d = lib.alloc(n)
        dec = rng.random() < 0.4
        r = (lib.beltSDEDecr if dec else lib.beltSDEEncr)(d, lib.mk(sec), n, lib.mk(key), klen, lib.mk(iv))
        if r != ERR_OK:
            raise Harness("beltSDE failed")
        _maybe_reloc(st, rng, reloc)
        b = lib.mk(sec)
        (lib.beltSDEStepD if dec else lib.beltSDEStepE)(b, n, lib.mk(iv), st.p)
        if lib.rd(b, n) != lib.rd(d, n):
            bad.append("sector")
    return bad, dict(key=key)


def b_krp(lib, rng, nder, reloc):
    n = rng.choice([16, 24, 32])
    key, level = rb(rng, n), rb(rng, 12)
    st = St(lib, lib.beltKRP_keep())
    lib.beltKRPStart(st.p, lib.mk(key), n, lib.mk(level))
    bad = []
    for i in range(nder):
        m = rng.choice([x for x in (16, 24, 32) if x <= n])
        hdr = rb(rng, 16)
        d = lib.alloc(m)
        if lib.beltKRP(d, m, lib.mk(key), n, lib.mk(level), lib.mk(hdr)) != ERR_OK:
            raise Harness("beltKRP failed")
        _maybe_reloc(st, rng, reloc)
        o = lib.alloc(m)
        lib.beltKRPStepG(o, m, lib.mk(hdr), st.p)
        if lib.rd(o, m) != lib.rd(d, m):
            bad.append("derived-key")
    return bad, dict(key=key, level=level)


def b_brng_ctr(lib, rng, L, frags, reloc):
    key, iv = rb(rng, 32), rb(rng, 32)
    # chunking is defined for whole 32-octet blocks except the last fragment? the header defines buffer content as
    # additional input per block: zero-filled buffers are used, so that fragmentation at block granularity is neutral
    d = lib.mk(bytes(L))
    ivp = lib.mk(iv)
    if lib.brngCTRRand(d, L, lib.mk(key), ivp) != ERR_OK:
        raise Harness("brngCTRRand failed")
    want = lib.rd(d, L)
    st = St(lib, lib.brngCTR_keep())
    lib.brngCTRStart(st.p, lib.mk(key), lib.mk(iv))
    got = b""
    for f, pos in _walk(frags):
        _maybe_reloc(st, rng, reloc)
        b = lib.mk(bytes(f))
        lib.brngCTRStepR(b, f, st.p)
        got += lib.rd(b, f)
    bad = [] if got == want else ["output"]
    # StepG must return the same updated iv as the high-level function leaves in iv
    o = lib.alloc(32)
    _maybe_reloc(st, rng, reloc)
    lib.brngCTRStepG(o, st.p)
    if lib.rd(o, 32) != lib.rd(ivp, 32):
        bad.append("iv-after")
    return bad, dict(key=key, iv=iv, want=want, got=got)


def b_brng_hmac(lib, rng, L, frags, reloc):
    klen = rng.choice([0, 1, 16, 32, 33, 64, 65])
    ivlen = rng.choice([0, 1, 31, 32, 63, 64, 65, 200])
    key, iv = rb(rng, klen), rb(rng, ivlen)
    d = lib.alloc(L)
    if lib.brngHMACRand(d, L, lib.mk(key), klen, lib.mk(iv), ivlen) != ERR_OK:
        raise Harness("brngHMACRand failed")
    want = lib.rd(d, L)
    st = St(lib, lib.brngHMAC_keep())
    ivp = lib.mk(iv)
    lib.brngHMACStart(st.p, lib.mk(key), klen, ivp, ivlen)
    if ivlen <= 64:
        # brng.h: for iv_len <= 64 the content of iv is saved in the state, so the caller may discard its buffer
        ctypes.memset(ivp, 0xEE, ivlen)
        lib.free_one(ivp)
    # (for iv_len > 64 the caller keeps iv alive and in place: only the state is relocated)
    got = b""
    for f, pos in _walk(frags):
        _maybe_reloc(st, rng, reloc)
        b = lib.alloc(f)
        lib.brngHMACStepR(b, f, st.p)
        got += lib.rd(b, f)
    return ([] if got == want else ["output"]), dict(key=key, iv=iv, want=want, got=got, ivlen=ivlen)


def b_fmt(lib, rng, n, reloc):
    """one FMT state, several strings with changing synchro values (incl. NULL) == the one-shot function each time"""
    klen = rng.choice([16, 24, 32])
    key = rb(rng, klen)
    mod = rng.choice([2, 10, 58, 256, 1000, 65536])
    count = rng.choice([2, 3, 9, 17, 21, 25, 40])
    st = St(lib, lib.beltFMT_keep(mod, count))
    lib.beltFMTStart(st.p, mod, count, lib.mk(key), klen)
    bad = []
    for i in range(n):
        src = b"".join(rng.randrange(mod).to_bytes(2, "little") for _ in range(count))
        iv = None if rng.random() < 0.4 else rb(rng, 16)
        dec = rng.random() < 0.4
        d = lib.alloc(2 * count)
        r = (lib.beltFMTDecr if dec else lib.beltFMTEncr)(d, mod, lib.mk(src), count, lib.mk(key), klen, lib.mk(iv) if iv is not None else 0)
        if r != ERR_OK:
            raise Harness("beltFMT one-shot failed")
        _maybe_reloc(st, rng, reloc)
        b = lib.mk(src)
        (lib.beltFMTStepD if dec else lib.beltFMTStepE)(b, lib.mk(iv) if iv is not None else 0, st.p)
        if lib.rd(b, 2 * count) != lib.rd(d, 2 * count):
            bad.append("string-after-%s-iv" % ("null" if iv is None else "explicit"))
    return bad, dict(key=key, mod=mod, count=count)


def b_hotp(lib, rng, n, reloc):
    digit = rng.choice([6, 7, 8])
    klen = rng.choice([16, 32, 33, 64])
    key = rb(rng, klen)
    ctr = rng.choice([0, 1, 2 ** 32 - 1, 2 ** 64 - 2, 2 ** 64 - 1, rng.getrandbits(64)])
    st = St(lib, lib.botpHOTP_keep())
    lib.botpHOTPStart(st.p, digit, lib.mk(key), klen)
    lib.botpHOTPStepS(st.p, lib.mk(ctr.to_bytes(8, "big")))
    bad = []
    for i in range(n):
        o = lib.alloc(digit + 1)
        cb = ((ctr + i) % 2 ** 64).to_bytes(8, "big")
        if lib.botpHOTPRand(o, digit, lib.mk(key), klen, lib.mk(cb)) != ERR_OK:
            raise Harness("botpHOTPRand failed")
        want = lib.rd(o, digit + 1)
        _maybe_reloc(st, rng, reloc)
        if rng.random() < 0.5:
            # a wrong password must be refused and must leave the counter where it was (botp.h: the counter is
            # incremented only on a successful check)
            wrong = bytearray(want)
            k = rng.randrange(digit)
            wrong[k] = ord("0") + (wrong[k] - ord("0") + 1 + rng.randrange(9)) % 10
            if lib.botpHOTPStepV(lib.mk(bytes(wrong)), st.p):
                bad.append("verify-accepts-wrong")
            g0 = lib.alloc(8)
            lib.botpHOTPStepG(g0, st.p)
            if lib.rd(g0, 8) != cb:
                bad.append("counter-after-failed-verify")
        if rng.random() < 0.5:
            o2 = lib.alloc(digit + 1)
            lib.botpHOTPStepR(o2, st.p)
            if lib.rd(o2, digit + 1) != want:
                bad.append("otp")
        else:
            if not lib.botpHOTPStepV(lib.mk(want), st.p):
                bad.append("verify-rejects")
        g = lib.alloc(8)
        lib.botpHOTPStepG(g, st.p)
        if lib.rd(g, 8) != ((ctr + i + 1) % 2 ** 64).to_bytes(8, "big"):
            bad.append("counter")
    return bad, dict(key=key, ctr=ctr, digit=digit)


def b_totp(lib, rng, n, reloc):
    digit = rng.choice([6, 7, 8])
    klen = rng.choice([16, 32, 33, 64])
    key = rb(rng, klen)
    st = St(lib, lib.botpTOTP_keep())
    lib.botpTOTPStart(st.p, digit, lib.mk(key), klen)
    bad = []
    for i in range(n):
        t = rng.choice([0, 1, 59, 2 ** 31 - 1, rng.getrandbits(40)])
        o = lib.alloc(digit + 1)
        if lib.botpTOTPRand(o, digit, lib.mk(key), klen, t) != ERR_OK:
            raise Harness("botpTOTPRand failed")
        want = lib.rd(o, digit + 1)
        _maybe_reloc(st, rng, reloc)
        if rng.random() < 0.5:
            o2 = lib.alloc(digit + 1)
            lib.botpTOTPStepR(o2, t, st.p)
            if lib.rd(o2, digit + 1) != want:
                bad.append("otp")
        elif not lib.botpTOTPStepV(lib.mk(want), t, st.p):
            bad.append("verify-rejects")
    return bad, dict(key=key, digit=digit)


OCRA_SUITES = ["OCRA-1:HOTP-HBELT-6:QN08", "OCRA-1:HOTP-HBELT-8:C-QN08-PHBELT", "OCRA-1:HOTP-HBELT-8:QA10-T1M",
               "OCRA-1:HOTP-HBELT-7:C-QH16-S064", "OCRA-1:HOTP-HBELT-8:C-QN08-PHBELT-S032-T30S"]


def b_ocra(lib, rng, n, reloc):
    suite = rng.choice(OCRA_SUITES)
    klen = rng.choice([16, 32, 64])
    key = rb(rng, klen)
    digit = int(suite.split(":")[1].split("-")[-1])
    opts = suite.split(":")[2].split("-")
    qtype = [o for o in opts if o.startswith("Q")][0]
    qmax = int(qtype[2:])
    has_c = "C" in opts
    pl = 32 if any(o.startswith("P") for o in opts) else 0
    sl = [int(o[1:]) for o in opts if o.startswith("S")]
    sl = sl[0] if sl else 0
    has_t = any(o.startswith("T") for o in opts)
    ctr = rng.choice([0, 2 ** 64 - 1, rng.getrandbits(64)])
    p, s = rb(rng, pl), rb(rng, sl)
    st = St(lib, lib.botpOCRA_keep())
    sp = lib.cstr(suite)
    if not lib.botpOCRAStart(st.p, sp, lib.mk(key), klen):
        raise Harness("botpOCRAStart rejected suite %s" % suite)
    pp, ss, cc = lib.mk(p), lib.mk(s), lib.mk(ctr.to_bytes(8, "big"))
    lib.botpOCRAStepS(st.p, cc, pp, ss)
    bad = []
    for i in range(n):
        qlen = rng.randrange(4, qmax + 1)
        alphabet = b"0123456789" if qtype[1] == "N" else (b"0123456789ABCDEF" if qtype[1] == "H" else b"abcXYZ0189")
        q = bytes(rng.choice(alphabet) for _ in range(qlen))
        t = rng.getrandbits(35) if has_t else 0
        o = lib.alloc(digit + 1)
        cb = ((ctr + i) % 2 ** 64).to_bytes(8, "big") if has_c else bytes(8)
        r = lib.botpOCRARand(o, lib.cstr(suite), lib.mk(key), klen, lib.mk(q), qlen, lib.mk(cb), lib.mk(p), lib.mk(s), t)
        if r != ERR_OK:
            raise Harness("botpOCRARand failed: %d (%s)" % (r, suite))
        want = lib.rd(o, digit + 1)
        _maybe_reloc(st, rng, reloc)
        if rng.random() < 0.5:
            o2 = lib.alloc(digit + 1)
            lib.botpOCRAStepR(o2, lib.mk(q), qlen, t, st.p)
            if lib.rd(o2, digit + 1) != want:
                bad.append("otp")
        elif not lib.botpOCRAStepV(lib.mk(want), lib.mk(q), qlen, t, st.p):
            bad.append("verify-rejects")
    return bad, dict(suite=suite, key=key, ctr=ctr)


def b_prg(lib, rng, L, frags, cmd):
    """bash-prg Absorb/Squeeze/Encr/Decr: Start + Step fragments == the whole-string command on an identical automaton"""
    l = rng.choice([128, 192, 256])
    d = rng.choice([1, 2])
    keyed = cmd in ("Encr", "Decr") or rng.random() < 0.5
    klen = rng.choice([x for x in range(l // 8, 61, 4)]) if keyed else 0
    alen = rng.choice(range(0, 61, 4))
    key, ann, data = rb(rng, klen), rb(rng, alen), rb(rng, L)
    keep = lib.bashPrg_keep()
    a, b = lib.alloc(keep), lib.alloc(keep)
    for s in (a, b):
        lib.bashPrgStart(s, l, d, lib.mk(ann), alen, lib.mk(key), klen)
        pre = bytes([7] * 5)
        lib.bashPrgAbsorb(lib.mk(pre), 5, s)
    # whole
    bw = lib.mk(data)
    getattr(lib, "bashPrg" + cmd)(bw, L, a)
    want = lib.rd(bw, L)
    # fragments
    getattr(lib, "bashPrg%sStart" % cmd)(b)
    got = b""
    for f, pos in _walk(frags):
        bf = lib.mk(data[pos:pos + f])
        getattr(lib, "bashPrg%sStep" % cmd)(bf, f, b)
        got += lib.rd(bf, f)
    bad = []
    if cmd != "Absorb" and got != want:
        bad.append("output")
    # afterwards both automata must be in the same state: squeeze and compare
    o1, o2 = lib.alloc(48), lib.alloc(48)
    lib.bashPrgSqueeze(o1, 48, a)
    lib.bashPrgSqueeze(o2, 48, b)
    if lib.rd(o1, 48) != lib.rd(o2, 48):
        bad.append("state-after")
    return bad, dict(l=l, d=d, key=key, ann=ann, data=data, want=want, got=got)


# ---------------------------------------------------------------------------
# units
# ---------------------------------------------------------------------------

def _lengths(blk):
    return sorted({0, 1, blk - 1, blk, blk + 1, 2 * blk - 1, 2 * blk, 2 * blk + 1, 3 * blk + 5, 4 * blk + blk // 2})


def unit_scripts(ctx):
    lib, rng = ctx.lib, ctx.rng
    P = ctx.params
    which = P["bundle"]
    n = P["n"]
    reported = set()

    def report(bundle, bad, det, desc):
        for b in sorted(set(bad)):
            key = "%s:%s:%s" % (bundle, b, "relocated" if desc.get("reloc") else "chunked")
            if key not in reported:
                reported.add(key)
                ctx.violation(key, "%s: script result differs from the one-shot result (%s)" % (bundle, b), dict(det, script=desc))

    import random
    # exhaustive part: all splits with <= 2 cuts at the boundary positions, for every boundary length
    if P.get("exhaustive") and which in ("CFB", "CTR", "MAC", "Hash", "HMAC", "brngHMAC"):
        blk = 16 if which in ("CFB", "CTR", "MAC") else 32
        for L in _lengths(blk):
            for frags in all_splits(L, blk, 2):
                for reloc in (0, 1.0):
                    s = rng.getrandbits(48)
                    r = random.Random(s)
                    desc = dict(b=which, L=L, frags=frags, reloc=reloc, gets=1.0, dec=False, seed=s, ex=1)
                    if not ctx.case(desc, "exhaustive-2cuts" + ("+reloc" if reloc else "")):
                        continue
                    if which in ("CFB", "CTR"):
                        bad, det = b_cipher(lib, r, which, L, frags, reloc, False)
                    elif which == "brngHMAC":
                        bad, det = b_brng_hmac(lib, r, L, frags, reloc)
                    else:
                        bad, det = b_mac(lib, r, which, L, frags, reloc, 1.0)
                    ctx.digest(repr(sorted(bad)), det.get("want", b""))
                    if bad:
                        report(which, bad, det, desc)
                    lib.release()
    for i in range(n):
        s = rng.getrandbits(48)
        r = random.Random(s)
        relocatable = which not in ("bashHash", "prgAbsorb", "prgSqueeze", "prgEncr", "prgDecr")
        reloc = r.choice([0, 0, 0.3, 1.0]) if relocatable else 0
        gets = r.choice([0, 0.5, 1.0])
        if which in ("CFB", "CTR"):
            L = r.choice(_lengths(16) + [r.randrange(0, 80)])
            frags = random_split(r, L, 16)
            desc = dict(b=which, L=L, frags=frags, reloc=reloc, dec=r.random() < 0.5, seed=s)
            if not ctx.case(desc, split_class(frags, 16) + ("+reloc" if reloc else "")):
                continue
            bad, det = b_cipher(lib, r, which, L, frags, reloc, desc["dec"])
        elif which in ("ECB", "CBC", "BDE"):
            if which == "BDE":
                L = 16 * r.randrange(1, 7)
            else:
                L = r.choice([16, 17, 31, 32, 33, 47, 48, 49, 64, 65, 80, 95] + [r.randrange(16, 100)])
            frags = block_split(r, L, 16, 16)
            desc = dict(b=which, L=L, frags=frags, reloc=reloc, dec=r.random() < 0.5, seed=s)
            if not ctx.case(desc, split_class(frags, 16) + ("+reloc" if reloc else "")):
                continue
            bad, det = b_cipher(lib, r, which, L, frags, reloc, desc["dec"])
        elif which in ("MAC", "Hash", "HMAC", "bashHash"):
            blk = 16 if which == "MAC" else (32 if which in ("Hash", "HMAC") else r.choice([192 - 2 * 16, 192 - 2 * 32, 192 - 2 * 64]))
            if which == "bashHash":
                blk = 64  # rate varies with l; cut candidates around several plausible rates
                L = r.choice([0, 1, 63, 64, 65, 95, 96, 97, 127, 128, 129, 159, 160, 161, 191, 192, 193, 300, r.randrange(0, 400)])
                frags = random_split(r, L, r.choice([32, 64, 96, 128, 160]))
            else:
                L = r.choice(_lengths(blk) + [r.randrange(0, 5 * blk)])
                frags = random_split(r, L, blk)
            desc = dict(b=which, L=L, frags=frags, reloc=reloc, gets=gets, seed=s)
            if not ctx.case(desc, split_class(frags, blk) + ("+reloc" if reloc else "") + ("+get" if gets else "")):
                continue
            bad, det = b_mac(lib, r, which, L, frags, reloc, gets)
        elif which in ("DWP", "CHE"):
            L = r.choice(_lengths(16) + [r.randrange(0, 80)])
            frags = random_split(r, L, 16)
            frags3 = random_split(r, L, 16)
            L2 = r.choice([0, 1, 15, 16, 17, 33, r.randrange(0, 50)])
            frags2 = random_split(r, L2, 16)
            il = r.random() < 0.5
            desc = dict(b=which, L=L, frags=frags, frags2=frags2, frags3=frags3, interleave=il, reloc=reloc, seed=s)
            if not ctx.case(desc, split_class(frags, 16) + ("+reloc" if reloc else "") + ("+il" if il else "")):
                continue
            bad, det = b_aead(lib, r, which, L, frags, reloc, frags2, frags3, il)
        elif which == "SDE":
            desc = dict(b=which, n=r.randrange(1, 6), reloc=reloc, seed=s)
            if not ctx.case(desc, "sectors" + ("+reloc" if reloc else "")):
                continue
            bad, det = b_sde(lib, r, desc["n"], reloc)
        elif which == "FMT":
            desc = dict(b=which, n=r.randrange(2, 7), reloc=reloc, seed=s)
            if not ctx.case(desc, "fmt-strings" + ("+reloc" if reloc else "")):
                continue
            bad, det = b_fmt(lib, r, desc["n"], reloc)
        elif which == "KRP":
            desc = dict(b=which, n=r.randrange(1, 6), reloc=reloc, seed=s)
            if not ctx.case(desc, "derive" + ("+reloc" if reloc else "")):
                continue
            bad, det = b_krp(lib, r, desc["n"], reloc)
        elif which == "brngCTR":
            # whole 32-octet blocks except possibly the last fragment (ragged tail last), as brng.h describes StepR
            nb = r.randrange(0, 6)
            L = 32 * nb + r.choice([0, 0, 1, 31])
            frags = block_split(r, L, 32, 1) if L else [0]
            desc = dict(b=which, L=L, frags=frags, reloc=reloc, seed=s)
            if not ctx.case(desc, split_class(frags, 32) + ("+reloc" if reloc else "")):
                continue
            bad, det = b_brng_ctr(lib, r, L, frags, reloc)
        elif which == "brngHMAC":
            L = r.choice(_lengths(32) + [r.randrange(0, 150)])
            frags = random_split(r, L, 32)
            desc = dict(b=which, L=L, frags=frags, reloc=reloc, seed=s)
            if not ctx.case(desc, split_class(frags, 32) + ("+reloc" if reloc else "")):
                continue
            bad, det = b_brng_hmac(lib, r, L, frags, reloc)
        elif which in ("HOTP", "TOTP", "OCRA"):
            desc = dict(b=which, n=r.randrange(1, 6), reloc=reloc, seed=s)
            if not ctx.case(desc, "otp" + ("+reloc" if reloc else "")):
                continue
            bad, det = {"HOTP": b_hotp, "TOTP": b_totp, "OCRA": b_ocra}[which](lib, r, desc["n"], reloc)
        elif which.startswith("prg"):
            cmd = which[3:]
            L = r.choice([0, 1, 31, 32, 33, 63, 64, 65, 95, 96, 97, 127, 128, 129, 143, 144, 145, 159, 160, 161, 200, r.randrange(0, 330)])
            frags = random_split(r, L, r.choice([192 - 32, 192 - 48, 192 - 64, 192 - 96, 192 - 128, 32]))
            desc = dict(b=which, L=L, frags=frags, seed=s)
            if not ctx.case(desc, split_class(frags, 32)):
                continue
            bad, det = b_prg(lib, r, L, frags, cmd)
        else:
            raise Harness("unknown bundle " + which)
        ctx.digest(repr(sorted(bad)), *[v for k, v in sorted(det.items()) if isinstance(v, bytes) and k in ("want", "wct")])
        if bad:
            report(which, bad, det, desc)
        lib.release()


BUNDLES = ["CFB", "CTR", "ECB", "CBC", "BDE", "MAC", "Hash", "HMAC", "bashHash", "DWP", "CHE", "SDE", "KRP", "FMT",
           "brngCTR", "brngHMAC", "HOTP", "TOTP", "OCRA", "prgAbsorb", "prgSqueeze", "prgEncr", "prgDecr"]


def jobs(tier, scale=1.0):
    n = 6000 if tier == "quick" else 480000
    n = max(50, int(n * scale))
    js = []
    for b in BUNDLES:
        k = n // 4 if b in ("HOTP", "TOTP", "OCRA", "SDE", "KRP", "DWP", "CHE", "FMT") else n
        reps = 1 if tier == "quick" else 8
        for c in range(reps):
            js.append({"unit": "c10:unit_scripts", "params": {"bundle": b, "n": k // reps, "chunk": c,
                                                              "exhaustive": 1 if (c == 0 and scale >= 1) else 0}})
    return js


def main(run):
    js = [dict(j, cfg="asan64") for j in jobs(run.tier)]
    run.run_jobs(js)
    return run.finish(
        rule="case = one script (bundle, data length, fragment list incl. empty fragments, get/verify insertions, relocation probability, "
             "seed) compared with the one-shot function; distinct = distinct scripts; classes = fragment-size classes relative to the internal block",
        assumptions=["the one-shot high-level function is tied to the standard by C01/C03",
                     "relocation only for bundles whose header declares the state copyable (belt, brng, botp)",
                     "DWP/CHE: no get-then-continue (StepG carries a warning); StepI before StepA as the header orders"])
