"""C16 — bign96, g12s (GOST R 34.10-2012), dstu (DSTU 4145-2002), pfok.

Oracles
  * generated key pair = model (candidate read from the generator tape as the implementation reads it,
    public key by the model's scalar multiplication / Montgomery power) and validates;
  * produced signature = model signature for the same tape, verifies in the library and in the model;
  * alterations: an alteration is *effective* iff the inputs as the scheme reduces them changed
    (GOST: H mod q with 0 -> 1; DSTU: the first O_OF_B(m) octets kept to m bits, 0 -> 1; the signature
    and the public key enter unreduced).  Ineffective alteration => must still be accepted.  Effective
    alteration accepted by the library => the model evaluates the verification equation; only if the
    equation rejects (or is undefined: public key not on the curve) it is a violation.  On a sample of the
    rejected alterations the model is evaluated too (library and model must agree);
  * DSTU compress / recover: round trip on points of order n, both ordinates, and equality with the
    model of 6.9 / 6.10;
  * pfok: both parties agree and equal the model; public keys 0 and >= p are refused, 1 and p-1 are served.
"""
import ctypes, random
from ..core import Harness
from ..bee2 import errname
from ..ref import g12s as G, dstu as D, pfok as PF, ec

LEVEL = "exploration"

GENF = ctypes.CFUNCTYPE(None, ctypes.c_void_p, ctypes.c_size_t, ctypes.c_void_p)


class Tape:
    """gen_i serving a Python octet string, then an endless deterministic pseudo-random tail
    (so that a library loop that reads on never spins on zeros)"""

    def __init__(self, data, tail_seed=0):
        self.data, self.pos, self.reqs = bytes(data), 0, []
        self.tail = random.Random("tail/%s" % (tail_seed,))
        self.overrun = False
        self.cb = GENF(self._gen)
        self.addr = ctypes.cast(self.cb, ctypes.c_void_p).value

    def _gen(self, buf, count, state):
        self.reqs.append(count)
        chunk = self.data[self.pos:self.pos + count]
        if len(chunk) < count:
            self.overrun = True
            chunk += self.tail.randbytes(count - len(chunk))
        self.pos += count
        if count:
            ctypes.memmove(buf, chunk, count)


def brng_pair(lib, seed):
    st = lib.alloc(lib.brngCTR_keep())
    lib.brngCTRStart(st, lib.mk(seed[0]), lib.mk(seed[1]))
    return lib.addr("brngCTRStepR"), st


def brng_candidates(lib, seed, no, mask, accept, limit=70):
    """the candidates a retry loop 'rng(buf, no); trim; test' sees when rng = brngCTRStepR and buf starts
    zeroed and keeps the trimmed previous candidate (brngCTR mixes the buffer contents in): list of ints,
    the last one accepted"""
    g, st = brng_pair(lib, seed)
    buf = lib.mk(bytes(no))
    out = []
    for _ in range(limit):
        lib.brngCTRStepR(buf, no, st)
        c = int.from_bytes(lib.rd(buf, no), "little") & mask
        lib.wr(buf, c.to_bytes(no, "little"))
        out.append(c)
        if accept(c):
            return out
    raise Harness("brngCTR candidates: none accepted")


def mark(ctx, *labels):
    for l in labels:
        ctx.classes[l] += 1


def flip(b, i):
    t = bytearray(b)
    t[i // 8] ^= 1 << (i % 8)
    return bytes(t)


def flip_positions(nbits, rng, n, always=()):
    """n random bit positions plus the listed boundary ones; all positions when n is None or >= nbits"""
    if n is None or n >= nbits:
        return list(range(nbits))
    s = set(x % nbits for x in always)
    s.update(rng.sample(range(nbits), n))
    return sorted(s)


def judge(ctx, fn, kind, ret, effective, model, det, sample=False):
    """verdict on one (possibly altered) verification; model() -> True / False / None (undefined)"""
    ok = ret == 0
    if not effective:
        if not ok:
            ctx.violation("%s:rejects-unchanged-reduced-input:%s" % (fn, kind),
                          "verification rejects although the inputs as the scheme reduces them did not change (%s)" % errname(ret), det)
        else:
            mark(ctx, "accepted:reduced-inputs-unchanged")
        return
    if ok:
        mv = model() if model else None
        if mv is True:
            mark(ctx, "accepted:equation-holds")
        else:
            ctx.violation("%s:accepts-altered:%s" % (fn, kind),
                          "verification accepts an alteration that the verification equation does not accept (model: %s)" % mv, det)
    else:
        mark(ctx, "rejected")
        if sample and model:
            if model() is True:
                ctx.violation("%s:rejects-equation-valid:%s" % (fn, kind),
                              "verification rejects inputs that satisfy the verification equation (%s)" % errname(ret), det)
            mark(ctx, "rejected:model-agrees")


# =====================================================================================
# g12s
# =====================================================================================

class G12:
    def __init__(self, ctx, name):
        self.ctx, self.lib = ctx, ctx.lib
        self.P = G.load_params(ctx.lib, name)
        self.name = name

    def params(self):
        return self.lib.mk(self.P.raw)

    def keypair(self, gen, st):
        P, lib = self.P, self.lib
        priv, pub = lib.alloc(P.mo), lib.alloc(2 * P.no)
        r = lib.g12sKeypairGen(priv, pub, self.params(), gen, st)
        return r, lib.rd(priv, P.mo), lib.rd(pub, 2 * P.no)

    def sign(self, h, d, gen, st):
        P, lib = self.P, self.lib
        sig = lib.alloc(2 * P.mo)
        r = lib.g12sSign(sig, self.params(), lib.mk(h), lib.mk(d.to_bytes(P.mo, "little")), gen, st)
        return r, lib.rd(sig, 2 * P.mo)

    def verify(self, h, sig, pub):
        lib = self.lib
        return lib.g12sVerify(self.params(), lib.mk(h), lib.mk(sig), lib.mk(pub))


def g12_blocks(P, rng, kind, good):
    """tape (candidate blocks of O_OF_B(bitlen q) octets) ending with the candidate `good`"""
    nb = P.q.bit_length()
    no = (nb + 7) // 8
    top = (1 << (8 * no)) - 1
    blk = lambda v: v.to_bytes(no, "little")
    pre = []
    if kind == "reject-zero":
        pre = [0]
    elif kind == "reject-ge-q":
        pre = [P.q, (1 << nb) - 1] if (1 << nb) - 1 >= P.q else [P.q]
        pre = [x for x in pre if x >= P.q]
    elif kind == "reject-mixed":
        pre = [0, P.q, rng.randrange(P.q, 1 << nb)] if (1 << nb) > P.q else [0]
    g = good
    if kind == "high-junk" and 8 * no > nb:
        g = good | (((1 << (8 * no - nb)) - 1) << nb)      # bits above bitlen(q) are trimmed away
    return b"".join(blk(x) for x in pre) + blk(g & top)


def hash_kinds_g12(P, rng):
    mo, q = P.mo, P.q
    out = [("zero", bytes(mo)), ("ones", b"\xff" * mo), ("order", q.to_bytes(mo, "big")),
           ("random", rng.randbytes(mo)), ("one", (1).to_bytes(mo, "big")), ("order-1", (q - 1).to_bytes(mo, "big"))]
    if q + 1 < 1 << (8 * mo):
        out.append(("order+1", (q + 1).to_bytes(mo, "big")))
    if 2 * q < 1 << (8 * mo):
        out.append(("2*order", (2 * q).to_bytes(mo, "big")))
    return out


def unit_g12s(ctx):
    lib, rng = ctx.lib, ctx.rng
    bad = G.selftest(lib)
    if bad:
        raise Harness("ref/g12s.py self-test: %s" % bad[:4])
    S = G12(ctx, ctx.params["name"])
    P = S.P
    q, mo, no = P.q, P.mo, P.no
    nflip = ctx.params.get("nflip")
    tag = "g12s-%d" % P.l
    cno = (q.bit_length() + 7) // 8

    # ---- key pairs ------------------------------------------------------------------
    for kind in ("random", "reject-zero", "reject-ge-q", "reject-mixed", "high-junk", "d=1", "d=order-1", "brng"):
        d = {"d=1": 1, "d=order-1": q - 1}.get(kind, rng.randrange(1, q))
        seed = (rng.randbytes(32), rng.randbytes(32))
        tape = g12_blocks(P, rng, kind, d)
        if not ctx.case(["g12sKeypairGen", S.name, kind, seed if kind == "brng" else tape], "g12s:keypair"):
            continue
        mark(ctx, "keypair:" + kind, tag)
        if kind == "brng":
            # brngCTR mixes the previous contents of the output buffer in, and that buffer is scratch memory of the
            # library: the candidate cannot be predicted, only judged
            g, st = brng_pair(lib, seed)
            r, priv, pub = S.keypair(g, st)
            d = int.from_bytes(priv, "little")
            if r == 0 and not 0 < d < q:
                ctx.violation("g12sKeypairGen:invalid-pair:brng", "private key outside {1..q-1}", {"privkey": priv})
                d = 1
            tape = b""
        else:
            tp = Tape(tape, kind)
            r, priv, pub = S.keypair(tp.addr, 0)
        if kind == "brng":
            ctx.digest(r)   # brngCTR mixes the prior (scratch / fill) content of its output buffer in: values are not comparable across fills and configurations
        else:
            ctx.digest(r, priv if r == 0 else b"", pub if r == 0 else b"")
        want = G.enc_pub(P, G.pubkey(P, d))
        det = {"params": S.name, "tape": tape, "ret": errname(r), "privkey": priv, "pubkey": pub,
               "want_priv": d.to_bytes(mo, "little"), "want_pub": want}
        if r != 0:
            ctx.violation("g12sKeypairGen:ret:%s:%s" % (errname(r), kind), "key generation fails", det)
        else:
            if priv != d.to_bytes(mo, "little"):
                ctx.violation("g12sKeypairGen:value:privkey:%s" % kind, "private key is not the first admissible candidate", det)
            elif pub != want:
                ctx.violation("g12sKeypairGen:value:pubkey:%s" % kind, "public key is not d P", det)
            Q = G.dec_pub(P, pub)
            if not (P.curve.is_on(Q) and 0 < int.from_bytes(priv, "little") < q):
                ctx.violation("g12sKeypairGen:invalid-pair:%s" % kind, "generated pair does not validate", det)
        lib.release()

    # ---- signatures -----------------------------------------------------------------
    base = []            # (d, pub, h, sig) for the alteration part
    dkinds = [("d=1", 1), ("d=2", 2), ("d=order-1", q - 1), ("d=random", None)]
    tkinds = ("random", "reject-zero", "reject-ge-q", "reject-mixed", "high-junk", "k=1", "k=order-1", "brng", "s=0-forced")
    plan = []
    hk = hash_kinds_g12(P, rng)
    for dk, dv in dkinds:
        for hn, hv in hk:
            plan.append((dk, dv, hn, hv, None))
    for tk in tkinds:
        plan.append(("d=random", None, "random", None, tk))
    nsig = ctx.params.get("nsig")
    part, parts = ctx.params.get("part", 0), ctx.params.get("parts", 1)
    plan = plan[part::parts]
    for i, (dk, dv, hn, hv, tk) in enumerate(plan):
        d = dv if dv is not None else rng.randrange(1, q)
        h = hv if hv is not None else rng.randbytes(mo)
        if tk is None:
            tk = ("random", "reject-zero", "reject-ge-q", "high-junk")[rng.randrange(4)]
        k = {"k=1": 1, "k=order-1": q - 1}.get(tk, rng.randrange(1, q))
        seed = (rng.randbytes(32), rng.randbytes(32))
        k2 = rng.randrange(1, q)
        if tk == "s=0-forced":
            # the message for which this k gives s = r d + k e = 0: e = -r d / k (GOST 6.1 step 5 then draws a new k)
            r0 = G.pubkey(P, k)[0] % q
            e0 = (-r0 * d * pow(k, -1, q)) % q
            h = e0.to_bytes(mo, "big")
            hn = "s=0"
            tape = g12_blocks(P, rng, "random", k) + g12_blocks(P, rng, "random", k2)
        else:
            # a second candidate for the case that the first gives r = 0 (k = 1 / q-1 on a base point with x = 0)
            tape = g12_blocks(P, rng, tk, k) + g12_blocks(P, rng, "random", k2)
        if nsig is not None and i >= nsig:
            break
        pubb = G.enc_pub(P, G.pubkey(P, d))
        if not ctx.case(["g12sSign+Verify", S.name, dk, d, hn, h, tk, seed if tk == "brng" else tape], "g12s:sign"):
            continue
        mark(ctx, "sign:" + dk, "sign:H=" + hn, "sign:tape=" + tk, tag)
        if tk == "brng":
            g, st = brng_pair(lib, seed)
            r, sig = S.sign(h, d, g, st)
            want = None
            if r == 0 and G.verify(P, h, sig, pubb) is not True:
                ctx.violation("g12sSign:value:brng", "signature does not satisfy the verification equation",
                              {"params": S.name, "d": d, "hash": h, "seed": seed, "sig": sig})
        else:
            tp = Tape(tape, tk)
            r, sig = S.sign(h, d, tp.addr, 0)
            try:
                want, used, redo = G.sign(P, d, h, tape)
            except ValueError as e:
                raise Harness("model g12s sign: %s (%s, d=%d, h=%s, tape=%s, kind=%s)" % (e, S.name, d, h.hex(), tape.hex(), tk))
            if want is None:
                raise Harness("model sign failed")
            if G.verify(P, h, want, pubb) is not True:
                raise Harness("model: verify(sign) fails")
            if redo and tk != "s=0-forced":
                mark(ctx, "sign:r=0-retry")
        rv = S.verify(h, sig, pubb) if r == 0 else None
        if tk == "brng":
            ctx.digest(r)   # brngCTR mixes the prior (scratch / fill) content of its output buffer in: values are not comparable across fills and configurations
        else:
            ctx.digest(r, sig if r == 0 else b"", rv)
        det = {"params": S.name, "d": d, "hash": h, "tape": tape, "ret": errname(r), "sig": sig, "want": want,
               "verify": None if rv is None else errname(rv)}
        if r != 0:
            ctx.violation("g12sSign:ret:%s:%s" % (errname(r), tk), "signing fails on valid input", det)
        else:
            if rv != 0:
                ctx.violation("g12sSign:signature-does-not-verify:%s" % tk, "g12sVerify rejects the signature g12sSign produced (%s)" % errname(rv), det)
            elif want is not None and sig != want:
                ctx.violation("g12sSign:value:%s" % tk, "signature differs from the standard's value for this generator output", det)
        lib.release()

    # ---- hash aliases: same reduced hash => same verdict -----------------------------------
    d = rng.randrange(1, q)
    pubb = G.enc_pub(P, G.pubkey(P, d))
    groups = [[bytes(mo), (1).to_bytes(mo, "big"), q.to_bytes(mo, "big")]]
    hr = rng.randrange(2, q)
    grp = [hr.to_bytes(mo, "big")]
    j = 1
    while hr + j * q < 1 << (8 * mo) and j < 3:
        grp.append((hr + j * q).to_bytes(mo, "big"))
        j += 1
    if q + 1 < 1 << (8 * mo):
        groups[0].append((q + 1).to_bytes(mo, "big"))
    groups.append(grp)
    for grp in groups:
        ksig = rng.randrange(1, q)
        sig, _, _ = G.sign(P, d, grp[0], g12_blocks(P, rng, "random", ksig) + g12_blocks(P, rng, "random", rng.randrange(1, q)))
        for h2 in grp:
            if not ctx.case(["g12sVerify", S.name, "hash-alias", grp[0], h2, sig, pubb], "g12s:verify:hash-alias"):
                continue
            mark(ctx, tag)
            rv = S.verify(h2, sig, pubb)
            ctx.digest(rv)
            judge(ctx, "g12sVerify", "hash-alias", rv, G.reduce_hash(P, h2) != G.reduce_hash(P, grp[0]),
                  lambda: G.verify(P, h2, sig, pubb), {"params": S.name, "signed_hash": grp[0], "hash": h2, "sig": sig, "pubkey": pubb})
            lib.release()

    # ---- alterations (of signatures the model defines; the sign cases above check that the library produces these) ----
    for _ in range(ctx.params.get("nbase", 1)):
        d = rng.randrange(1, q)
        h = rng.randbytes(mo)
        sig, _, _ = G.sign(P, d, h, g12_blocks(P, rng, "random", rng.randrange(1, q)) + g12_blocks(P, rng, "random", rng.randrange(1, q)))
        base.append((d, G.enc_pub(P, G.pubkey(P, d)), h, sig))
    for (d, pubb, h, sig) in base:
        r0, s0 = G.dec_sig(P, sig)
        alts = []
        for i in flip_positions(16 * mo, rng, nflip, (0, 7, 8 * mo - 1, 8 * mo, 16 * mo - 1)):
            alts.append(("sig-bit", i, h, flip(sig, i), pubb))
        for i in flip_positions(16 * no, rng, nflip, (0, 8 * no - 1, 8 * no, 16 * no - 1)):
            alts.append(("pubkey-bit", i, h, sig, flip(pubb, i)))
        for i in flip_positions(8 * mo, rng, nflip, (0, 8 * mo - 1)):
            alts.append(("hash-bit", i, flip(h, i), sig, pubb))
        lim = 1 << (8 * mo)
        spec = [("r=0", 0, s0), ("s=0", r0, 0), ("r=s=0", 0, 0), ("r=q", q, s0), ("s=q", r0, q), ("swap", s0, r0),
                ("s->q-s", r0, q - s0), ("r->q-r", q - r0, s0), ("r+1", (r0 + 1) % lim, s0), ("s+1", r0, (s0 + 1) % lim)]
        if r0 + q < lim:
            spec.append(("r+q", r0 + q, s0))
        if s0 + q < lim:
            spec.append(("s+q", r0, s0 + q))
        for nm, rr, ss in spec:
            alts.append((nm, None, h, G.enc_sig(P, rr, ss), pubb))
        Q = G.dec_pub(P, pubb)
        alts.append(("pubkey=-Q", None, h, sig, G.enc_pub(P, P.curve.neg(Q))))
        alts.append(("pubkey=0", None, h, sig, bytes(2 * no)))
        alts.append(("pubkey=P", None, h, sig, G.enc_pub(P, P.P)))
        alts.append(("pubkey-x=p", None, h, sig, P.p.to_bytes(no, "little") + pubb[no:]))
        alts.append(("unaltered", None, h, sig, pubb))
        for n, (nm, i, h2, sig2, pub2) in enumerate(alts):
            cls = "g12s:verify:" + nm
            if not ctx.case(["g12sVerify", S.name, nm, i, h2, sig2, pub2], cls):
                continue
            mark(ctx, tag)
            rv = S.verify(h2, sig2, pub2)
            ctx.digest(rv)
            eff = (G.reduce_hash(P, h2), sig2, pub2) != (G.reduce_hash(P, h), sig, pubb)
            judge(ctx, "g12sVerify", nm, rv, eff, lambda: G.verify(P, h2, sig2, pub2),
                  {"params": S.name, "alteration": nm, "bit": i, "hash": h2, "sig": sig2, "pubkey": pub2,
                   "orig_hash": h, "orig_sig": sig, "orig_pubkey": pubb, "ret": errname(rv)}, sample=(n % 16 == 0))
            lib.release()


# =====================================================================================
# bign96 (thin equation model; belt-hash taken from the library)
# =====================================================================================

B96_NAME = "1.2.112.0.2.0.34.101.45.3.0"
B96_OID = bytes.fromhex("06092A7000020022651F51")        # DER of 1.2.112.0.2.0.34.101.31.81 (bign96_test.c)
B96_PARAMS_SIZE = 8 + 5 * 64 + 8
# the implementation forms the multiplier of d / Q as the 13 octets  s0[0..9] || 00 00 80, i.e. s0 + 2^103
# (its comments say "s0 + 2^l"; bign96.h gives no formula; the vectors of bign96_test.c are reproduced only with 2^103)
B96_TOP = 1 << 103


class B96:
    """s0 = belt-hash(oid || <x_R> || H)[0:10],  s1 = (k - (s0 + T) d - H) mod q,  R = kG,  T = B96_TOP;
    verify: s1 < q, R = ((s1 + H) mod q) G + (s0 + T) Q != O, belt-hash(oid || <x_R> || H)[0:10] = s0"""

    def __init__(self, lib):
        self.lib = lib
        pp, nm = lib.alloc(B96_PARAMS_SIZE), lib.cstr(B96_NAME)
        if lib.bign96ParamsStd(pp, nm) != 0:
            raise Harness("bign96ParamsStd")
        self.raw = lib.rd(pp, B96_PARAMS_SIZE)
        lib.free_one(pp)
        lib.free_one(nm)
        f = lambda k: int.from_bytes(self.raw[8 + 64 * k:8 + 64 * k + 24], "little")
        if int.from_bytes(self.raw[:8], "little") != 96:
            raise Harness("bign96 level")
        self.p, self.a, self.b, self.q, self.yG = f(0), f(1), f(2), f(3), f(4)
        self.C = ec.Curve(self.p, self.a, self.b)
        self.Gp = (0, self.yG)

    def bhash(self, data):
        lib = self.lib
        p, o = lib.mk(data), lib.alloc(32)
        if lib.beltHash(o, p, len(data)) != 0:
            raise Harness("beltHash")
        h = lib.rd(o, 32)
        lib.free_one(p)
        lib.free_one(o)
        return h

    def pub(self, d):
        Q = self.C.mul(d, self.Gp)
        return Q[0].to_bytes(24, "little") + Q[1].to_bytes(24, "little")

    def sign_k(self, oid, d, H, k):
        R = self.C.mul(k, self.Gp)
        s0 = self.bhash(oid + R[0].to_bytes(24, "little") + H)[:10]
        s1 = (k - (int.from_bytes(s0, "little") + B96_TOP) * d - int.from_bytes(H, "little")) % self.q
        return s0 + s1.to_bytes(24, "little")

    def verify(self, oid, H, sig, Qb):
        s0, s1 = sig[:10], int.from_bytes(sig[10:34], "little")
        if s1 >= self.q:
            return False
        Q = (int.from_bytes(Qb[:24], "little"), int.from_bytes(Qb[24:48], "little"))
        if Q[0] >= self.p or Q[1] >= self.p:
            return False
        if not self.C.is_on(Q):
            return None
        R = self.C.add(self.C.mul((s1 + int.from_bytes(H, "little")) % self.q, self.Gp),
                       self.C.mul(int.from_bytes(s0, "little") + B96_TOP, Q))
        if R is None:
            return False
        return self.bhash(oid + R[0].to_bytes(24, "little") + H)[:10] == s0

    def selftest(self):
        from ..ref import bels
        Hh = bels.belt_h(self.lib)
        d = int.from_bytes(bytes.fromhex("B1E1CDDFCF5DD7BA278390F292EEB72B661B79922933BFB9"), "little")
        Qb = bytes.fromhex("4CED8FBBA1842BE58B4C0444F359CB14C6F2CE13B710F1172D2C962F53D13115DE14E56D9EB2628C9A884F668059EEA5")
        bad = []
        if not (ec.is_probable_prime(self.p) and ec.is_probable_prime(self.q) and self.C.is_on(self.Gp)
                and self.C.mul(self.q, self.Gp) is None):
            bad.append("parameters")
        if self.pub(d) != Qb:
            bad.append("public key")
        h = self.bhash(Hh[:13])[:24]
        for s in ("4981BBDD8721C08FA347B89BD16FDDE647D310F55474C4182C1CC5BBD5642CC7E1B2",
                  "D95DEF43F36A4C73D19399B79FB0C692CF44D615CCE5F45D474E7593D30E70B9B0C3"):
            sig = bytes.fromhex(s)
            if self.verify(B96_OID, h, sig, Qb) is not True:
                bad.append("verify " + s[:8])
            if self.verify(B96_OID, h, flip(sig, 0), Qb) is not False or self.verify(B96_OID, h, flip(sig, 271), Qb) is not False:
                bad.append("verify flipped " + s[:8])
            # k = s1 + (s0 + 2^96) d + H reproduces the signature
            s1 = int.from_bytes(sig[10:], "little")
            k = (s1 + (int.from_bytes(sig[:10], "little") + B96_TOP) * d + int.from_bytes(h, "little")) % self.q
            if self.sign_k(B96_OID, d, h, k) != sig:
                bad.append("sign " + s[:8])
        return bad


def unit_bign96(ctx):
    lib, rng = ctx.lib, ctx.rng
    M = B96(lib)
    bad = M.selftest()
    if bad:
        raise Harness("bign96 thin model self-test: %s" % bad)
    q = M.q
    oid = B96_OID
    nflip = ctx.params.get("nflip")
    params = lambda: lib.mk(M.raw)
    blk = lambda v: v.to_bytes(24, "little")

    def tape_for(kind, good):
        pre = {"reject-zero": [0], "reject-q": [q], "reject-ge-p": [M.p, (1 << 192) - 1], "reject-ge-q-below-p": [rng.randrange(q + 1, M.p)],
               "reject-mixed": [0, (1 << 192) - 1, rng.randrange(M.p, 1 << 192)]}.get(kind, [])
        return b"".join(blk(x) for x in pre) + blk(good)

    def verify(h, sig, pub):
        return lib.bign96Verify(params(), lib.mk(oid), len(oid), lib.mk(h), lib.mk(sig), lib.mk(pub))

    # ---- key pairs
    for kind in ("random", "reject-zero", "reject-q", "reject-ge-p", "reject-ge-q-below-p", "reject-mixed", "d=1", "d=order-1", "brng"):
        d = {"d=1": 1, "d=order-1": q - 1}.get(kind, rng.randrange(1, q))
        seed = (rng.randbytes(32), rng.randbytes(32))
        tape = tape_for(kind, d)
        if not ctx.case(["bign96KeypairGen", kind, seed if kind == "brng" else tape], "bign96:keypair"):
            continue
        mark(ctx, "keypair:" + kind)
        priv, pub = lib.alloc(24), lib.alloc(48)
        if kind == "brng":
            g, st = brng_pair(lib, seed)
            r = lib.bign96KeypairGen(priv, pub, params(), g, st)
            d = int.from_bytes(lib.rd(priv, 24), "little")        # not predictable (see g12s), judged below
            if not 0 < d < q:
                d = 1
        else:
            tp = Tape(tape, kind)
            r = lib.bign96KeypairGen(priv, pub, params(), tp.addr, 0)
        pv, pb = lib.rd(priv, 24), lib.rd(pub, 48)
        det = {"tape": tape, "ret": errname(r), "privkey": pv, "pubkey": pb, "want_priv": blk(d), "want_pub": M.pub(d)}
        if r != 0:
            ctx.digest(r)
            ctx.violation("bign96KeypairGen:ret:%s:%s" % (errname(r), kind), "key generation fails", det)
        else:
            r1 = lib.bign96KeypairVal(params(), priv, pub)
            r2 = lib.bign96PubkeyVal(params(), pub)
            pub2 = lib.alloc(48)
            r3 = lib.bign96PubkeyCalc(pub2, params(), priv)
            if kind == "brng":
                ctx.digest(r)   # brngCTR mixes the prior (scratch / fill) content of its output buffer in: values are not comparable across fills and configurations
            else:
                ctx.digest(r, pv, pb, r1, r2, r3, lib.rd(pub2, 48) if r3 == 0 else b"")
            if r1 != 0 or r2 != 0:
                ctx.violation("bign96KeypairGen:invalid-pair:%s" % kind, "generated pair fails bign96KeypairVal/PubkeyVal (%s, %s)" % (errname(r1), errname(r2)), det)
            if pv != blk(d):
                ctx.violation("bign96KeypairGen:value:privkey:%s" % kind, "private key is not the first candidate in {1..q-1}", det)
            else:
                if pb != M.pub(d):
                    ctx.violation("bign96KeypairGen:value:pubkey:%s" % kind, "public key is not d G", det)
                if r3 != 0 or lib.rd(pub2, 48) != pb:
                    ctx.violation("bign96PubkeyCalc:value:%s" % kind, "bign96PubkeyCalc disagrees with bign96KeypairGen", det)
        lib.release()

    # ---- signatures
    base = []
    hk = [("zero", bytes(24)), ("random", None), ("order-1", blk(q - 1)), ("ones", b"\xff" * 24), ("order", blk(q)), ("order+1", blk(q + 1))]
    plan = []
    for dk, dv in (("d=1", 1), ("d=2", 2), ("d=order-1", q - 1), ("d=random", None)):
        for hn, hv in hk:
            # H >= q makes the current library abort (ASSERT) in both sign functions: one worker restart per case,
            # so these classes are kept to the minimum that shows every combination once (chunk 0 only)
            if hn in ("ones", "order", "order+1") and (dk != "d=random" or ctx.params.get("chunk", 0) != 0):
                continue
            for fn in ("bign96Sign", "bign96Sign2"):
                plan.append((fn, dk, dv, hn, hv, None))
    for tk in ("reject-zero", "reject-q", "reject-ge-p", "reject-mixed", "k=1", "k=order-1", "brng"):
        plan.append(("bign96Sign", "d=random", None, "random", None, tk))
    for (fn, dk, dv, hn, hv, tk) in plan:
        d = dv if dv is not None else rng.randrange(1, q)
        h = hv if hv is not None else rng.randbytes(24)
        tk = tk or "random"
        k = {"k=1": 1, "k=order-1": q - 1}.get(tk, rng.randrange(1, q))
        seed = (rng.randbytes(32), rng.randbytes(32))
        tape = tape_for(tk, k)
        t = rng.choice((None, b"", rng.randbytes(rng.choice((1, 16, 47)))))
        pubb = M.pub(d)
        desc = [fn, dk, d, hn, h, tk, (seed if tk == "brng" else tape) if fn == "bign96Sign" else t]
        if not ctx.case(desc, "bign96:sign" if fn == "bign96Sign" else "bign96:sign2"):
            continue
        mark(ctx, "sign:" + dk, "sign:H=" + hn, "sign:tape=" + tk)
        sig = lib.alloc(34)
        if fn == "bign96Sign":
            if tk == "brng":
                g, st = brng_pair(lib, seed)
            else:
                tp = Tape(tape, tk)
                g, st = tp.addr, 0
            r = lib.bign96Sign(sig, params(), lib.mk(oid), len(oid), lib.mk(h), lib.mk(blk(d)), g, st)
            want = M.sign_k(oid, d, h, k) if tk != "brng" else None
            r2, sg2 = r, sig
        else:
            tb = lib.mk(t) if t is not None else 0
            r = lib.bign96Sign2(sig, params(), lib.mk(oid), len(oid), lib.mk(h), lib.mk(blk(d)), tb, len(t) if t is not None else 0)
            sg2 = lib.alloc(34)
            r2 = lib.bign96Sign2(sg2, params(), lib.mk(oid), len(oid), lib.mk(h), lib.mk(blk(d)), tb, len(t) if t is not None else 0)
            want = None
        sg = lib.rd(sig, 34)
        rv = verify(h, sg, pubb) if r == 0 else None
        if tk == "brng":
            ctx.digest(r)   # brngCTR mixes the prior (scratch / fill) content of its output buffer in: values are not comparable across fills and configurations
        else:
            ctx.digest(r, sg if r == 0 else b"", rv)
        det = {"fn": fn, "d": d, "hash": h, "tape": tape, "t": t, "ret": errname(r), "sig": sg, "want": want,
               "verify": None if rv is None else errname(rv)}
        if r != 0:
            ctx.violation("%s:ret:%s:H=%s" % (fn, errname(r), hn), "signing fails on valid input", det)
        else:
            if rv != 0:
                ctx.violation("%s:signature-does-not-verify:H=%s" % (fn, hn), "bign96Verify rejects the produced signature (%s)" % errname(rv), det)
            if want is not None and sg != want:
                ctx.violation("%s:value:%s" % (fn, tk), "signature differs from the model for this generator output", det)
            if want is None:
                if fn == "bign96Sign2" and (r2, lib.rd(sg2, 34)) != (r, sg):
                    ctx.violation("bign96Sign2:nondeterministic:H=%s" % hn, "two calls differ", det)
                if M.verify(oid, h, sg, pubb) is not True:
                    ctx.violation("%s:value:equation" % fn, "signature does not satisfy the verification equation", det)
        lib.release()

    # ---- alterations (of signatures the thin model defines)
    for _ in range(2):
        d, h = rng.randrange(1, q), rng.randbytes(24)
        base.append((d, M.pub(d), h, M.sign_k(oid, d, h, rng.randrange(1, q))))
    for (d, pubb, h, sig) in base:
        s0, s1 = sig[:10], int.from_bytes(sig[10:], "little")
        alts = []
        for i in flip_positions(272, rng, nflip, (0, 79, 80, 271)):
            alts.append(("sig-bit", i, h, flip(sig, i), pubb))
        for i in flip_positions(384, rng, nflip, (0, 191, 192, 383)):
            alts.append(("pubkey-bit", i, h, sig, flip(pubb, i)))
        for i in flip_positions(192, rng, nflip, (0, 191)):
            alts.append(("hash-bit", i, flip(h, i), sig, pubb))
        alts.append(("s0=0", None, h, bytes(10) + sig[10:], pubb))
        alts.append(("s1=0", None, h, s0 + bytes(24), pubb))
        alts.append(("s1=q", None, h, s0 + blk(q), pubb))
        alts.append(("s1->q-s1", None, h, s0 + blk((q - s1) % q), pubb))
        if s1 + q < 1 << 192:
            alts.append(("s1+q", None, h, s0 + blk(s1 + q), pubb))
        hv = int.from_bytes(h, "little")
        if hv + q < 1 << 192:
            alts.append(("hash+q", None, blk(hv + q), sig, pubb))       # H enters belt-hash unreduced: an effective alteration
        Q = (int.from_bytes(pubb[:24], "little"), int.from_bytes(pubb[24:], "little"))
        nq = M.C.neg(Q)
        alts.append(("pubkey=-Q", None, h, sig, nq[0].to_bytes(24, "little") + nq[1].to_bytes(24, "little")))
        alts.append(("pubkey=0", None, h, sig, bytes(48)))
        alts.append(("pubkey-x=p", None, h, sig, M.p.to_bytes(24, "little") + pubb[24:]))
        alts.append(("unaltered", None, h, sig, pubb))
        for n, (nm, i, h2, sig2, pub2) in enumerate(alts):
            if not ctx.case(["bign96Verify", nm, i, h2, sig2, pub2], "bign96:verify:" + nm):
                continue
            rv = verify(h2, sig2, pub2)
            ctx.digest(rv)
            judge(ctx, "bign96Verify", nm, rv, (h2, sig2, pub2) != (h, sig, pubb), lambda: M.verify(oid, h2, sig2, pub2),
                  {"alteration": nm, "bit": i, "hash": h2, "sig": sig2, "pubkey": pub2, "orig_hash": h, "orig_sig": sig,
                   "orig_pubkey": pubb, "ret": errname(rv)}, sample=(n % 8 == 0))
            lib.release()


# =====================================================================================
# dstu
# =====================================================================================

class DS:
    def __init__(self, ctx, name):
        self.ctx, self.lib, self.name = ctx, ctx.lib, name
        self.P = D.load_params(ctx.lib, name)        # base point possibly (0, 0) until set_point

    def params(self):
        return self.lib.mk(self.P.raw)

    def set_point(self, ptb):
        self.P = self.P.with_point(ptb)

    def keypair(self, gen, st):
        P, lib = self.P, self.lib
        priv, pub = lib.alloc(P.order_no), lib.alloc(2 * P.no)
        r = lib.dstuKeypairGen(priv, pub, self.params(), gen, st)
        return r, lib.rd(priv, P.order_no), lib.rd(pub, 2 * P.no)

    def sign(self, ld, h, d, gen, st):
        P, lib = self.P, self.lib
        sig = lib.alloc(ld // 8)
        r = lib.dstuSign(sig, self.params(), ld, lib.mk(h), len(h), lib.mk(d.to_bytes(P.order_no, "little")), gen, st)
        return r, lib.rd(sig, ld // 8)

    def verify(self, ld, h, sig, pub):
        lib = self.lib
        return lib.dstuVerify(self.params(), ld, lib.mk(h), len(h), lib.mk(sig), lib.mk(pub))

    def compress(self, ptb):
        lib, P = self.lib, self.P
        xp = lib.alloc(P.no)
        r = lib.dstuPointCompress(xp, self.params(), lib.mk(ptb))
        return r, lib.rd(xp, P.no)

    def recover(self, xb):
        lib, P = self.lib, self.P
        pt = lib.alloc(2 * P.no)
        r = lib.dstuPointRecover(pt, self.params(), lib.mk(xb))
        return r, lib.rd(pt, 2 * P.no)


def dstu_scalar_tape(P, rng, kind, good):
    no = P.order_no
    blk = lambda v: v.to_bytes(no, "little")
    keep = (1 << (P.nb - 1)) - 1
    pre = []
    if kind == "reject-zero":
        pre = [0]
    elif kind == "reject-zero-after-trim":
        pre = [((1 << (8 * no)) - 1) & ~keep, 0]         # only bits that the trim removes
    g = good
    if kind == "high-junk":
        g = good | (((1 << (8 * no)) - 1) & ~keep)
    return b"".join(blk(x) for x in pre) + blk(g)


def unit_dstu(ctx):
    lib, rng = ctx.lib, ctx.rng
    bad = D.selftest(lib)
    if bad:
        raise Harness("ref/dstu.py self-test: %s" % bad[:4])
    S = DS(ctx, ctx.params["name"])
    nflip = ctx.params.get("nflip")
    nmodel = ctx.params.get("nmodel", 4)        # how many signatures get the full model treatment
    m, no = S.P.m, S.P.no
    tag = "dstu-%d" % m

    # ---- base point by dstuPointGen (always executed: everything below needs it) ------------------
    seed = (rng.randbytes(32), rng.randbytes(32))
    run = ctx.case(["dstuPointGen", S.name, "brngCTR", seed], "dstu:pointgen")
    g, st = brng_pair(lib, seed)
    pt = lib.alloc(2 * no)
    r = lib.dstuPointGen(pt, S.params(), g, st)
    ptb = lib.rd(pt, 2 * no)
    if r != 0:
        if run:
            ctx.violation("dstuPointGen:ret:%s" % errname(r), "point generation fails on standard parameters", {"params": S.name})
        raise Harness("no base point for %s" % S.name)
    S.set_point(ptb)
    P = S.P
    n = P.n
    if run:
        mark(ctx, tag)
        rv = lib.dstuPointVal(S.params(), lib.mk(ptb))
        rp = lib.dstuParamsVal(S.params())
        ctx.digest(r, ptb, rv, rp)
        det = {"params": S.name, "seed": seed, "point": ptb, "PointVal": errname(rv), "ParamsVal": errname(rp)}
        if rv != 0 or rp != 0:
            ctx.violation("dstuPointGen:invalid-point", "generated base point fails dstuPointVal / dstuParamsVal", det)
        if not P.E.is_on(P.P) or P.P[0] == 0 or P.E.mul(n, P.P) is not None:
            ctx.violation("dstuPointGen:invalid-point:model", "generated point is not a point of order n", det)
    lib.release()
    # PointGen on tapes: first candidate abscissa x = 0 (order 2) must be skipped; result valid; x is a tape candidate
    for kind in ("random", "x=0-first", "high-junk"):
        data = b""
        if kind == "x=0-first":
            data = bytes(no)
        elif kind == "high-junk":
            data = bytes(no - 1) + bytes([(0xFF << (m % 8)) & 0xFF])        # trimmed to 0 -> rejected like x = 0
        tseed = rng.getrandbits(64)
        if not ctx.case(["dstuPointGen", S.name, kind, data, tseed], "dstu:pointgen:tape"):
            continue
        mark(ctx, tag, "pointgen:" + kind)
        tp = Tape(data, tseed)
        pt = lib.alloc(2 * no)
        r = lib.dstuPointGen(pt, S.params(), tp.addr, 0)
        pb = lib.rd(pt, 2 * no)
        rv = lib.dstuPointVal(S.params(), lib.mk(pb)) if r == 0 else None
        ctx.digest(r, pb if r == 0 else b"", rv)
        det = {"params": S.name, "kind": kind, "point": pb, "ret": errname(r), "requests": len(tp.reqs)}
        if r != 0 or rv != 0:
            ctx.violation("dstuPointGen:invalid-point:%s" % kind, "generated point fails dstuPointVal", det)
        else:
            Q = D.dec_pt(P, pb)
            # replay the tape: the abscissa must be the last candidate read, trimmed to m bits
            tp2 = Tape(data, tseed)
            last = None
            for _ in tp.reqs:
                buf = ctypes.create_string_buffer(no)
                tp2._gen(ctypes.addressof(buf), no, None)
                last = int.from_bytes(buf.raw, "little") & ((1 << m) - 1)
            if tp.reqs != [no] * len(tp.reqs) or Q[0] != last or not P.E.is_on(Q) or Q[0] == 0:
                ctx.violation("dstuPointGen:value:%s" % kind, "abscissa is not the accepted tape candidate / point not on the curve", det)
            if kind != "random" and len(tp.reqs) < 2:
                ctx.violation("dstuPointGen:value:%s" % kind, "candidate x = 0 was not skipped", det)
        lib.release()

    # ---- key pairs ----------------------------------------------------------------------
    pts = [("base", ptb)]
    keep = (1 << (P.nb - 1)) - 1
    for kind in ("random", "reject-zero", "reject-zero-after-trim", "high-junk", "d=1", "d=max", "brng"):
        d = {"d=1": 1, "d=max": keep}.get(kind, rng.randrange(1, keep + 1))
        seed = (rng.randbytes(32), rng.randbytes(32))
        tape = dstu_scalar_tape(P, rng, kind, d)
        if len(pts) < 3 and kind != "brng":
            pts.append(("pubkey", D.enc_pt(P, D.pubkey(P, d))))
        if not ctx.case(["dstuKeypairGen", S.name, ptb, kind, seed if kind == "brng" else tape], "dstu:keypair"):
            continue
        mark(ctx, tag, "keypair:" + kind)
        if kind == "brng":
            # dstuKeypairGen zeroes its candidate buffer first, so the first brngCTR candidate is predictable
            d = brng_candidates(lib, seed, P.order_no, keep, lambda c: c != 0)[-1]
            lib.release()
            g, st = brng_pair(lib, seed)
            r, priv, pub = S.keypair(g, st)
        else:
            tp = Tape(tape, kind)
            r, priv, pub = S.keypair(tp.addr, 0)
        want = D.enc_pt(P, D.pubkey(P, d))
        rv = lib.dstuPointVal(S.params(), lib.mk(pub)) if r == 0 else None
        if kind == "brng":
            ctx.digest(r)   # brngCTR mixes the prior (scratch / fill) content of its output buffer in: values are not comparable across fills and configurations
        else:
            ctx.digest(r, priv if r == 0 else b"", pub if r == 0 else b"", rv)
        det = {"params": S.name, "base": ptb, "tape": tape, "ret": errname(r), "privkey": priv, "pubkey": pub,
               "want_priv": d.to_bytes(P.order_no, "little"), "want_pub": want}
        if r != 0:
            ctx.violation("dstuKeypairGen:ret:%s:%s" % (errname(r), kind), "key generation fails", det)
        else:
            if priv != d.to_bytes(P.order_no, "little"):
                ctx.violation("dstuKeypairGen:value:privkey:%s" % kind, "private key is not the first admissible candidate", det)
            elif pub != want:
                ctx.violation("dstuKeypairGen:value:pubkey:%s" % kind, "public key is not -dP", det)
            if rv != 0:
                ctx.violation("dstuKeypairGen:invalid-pair:%s" % kind, "generated public key fails dstuPointVal (%s)" % errname(rv), det)
        lib.release()

    # ---- compression ----------------------------------------------------------------------
    cases = []
    for nm, pb in pts:
        Q = D.dec_pt(P, pb)
        cases.append((nm, pb))
        cases.append((nm + ":other-y", D.enc_pt(P, P.E.neg(Q))))
    cases.append(("x=0", D.enc_pt(P, (0, P.F.sqrt(P.B)))))
    for nm, pb in cases:
        cls = "dstu:compress:x=0" if nm == "x=0" else "dstu:compress"
        if not ctx.case(["dstuPointCompress+Recover", S.name, nm, pb], cls):
            continue
        mark(ctx, tag, "compress:" + nm.split(":")[-1])
        Q = D.dec_pt(P, pb)
        r1, xb = S.compress(pb)
        r2, back = S.recover(xb) if r1 == 0 else (None, b"")
        wantx = D.compress(P, Q)
        r3, back2 = S.recover(wantx)
        ctx.digest(r1, xb if r1 == 0 else b"", r2, back if r2 == 0 else b"", r3, back2 if r3 == 0 else b"")
        det = {"params": S.name, "point": pb, "compress_ret": errname(r1), "xpoint": xb, "want_xpoint": wantx,
               "recover_ret": None if r2 is None else errname(r2), "recovered": back,
               "recover_of_model_xpoint_ret": errname(r3), "recovered_from_model_xpoint": back2}
        k = "x=0" if nm == "x=0" else "order-n"
        if D.recover(P, wantx) != Q:
            raise Harness("model compress/recover round trip")
        if r1 != 0:
            ctx.violation("dstuPointCompress:ret:%s:%s" % (errname(r1), k), "compression fails on a point of the curve", det)
        else:
            if xb != wantx:
                ctx.violation("dstuPointCompress:value:%s" % k, "compressed point differs from DSTU 6.9", det)
            elif r2 != 0 or back != pb:
                ctx.violation("dstuPointRecover:round-trip:%s" % k, "recover(compress(point)) != point", det)
        if r3 != 0 or back2 != pb:
            ctx.violation("dstuPointRecover:value:%s" % k, "recovery from the standard's compressed form does not give the point", det)
        lib.release()

    # ---- signatures -----------------------------------------------------------------------
    base = []
    minld = 16 * P.order_no
    lds = [minld, minld + 16, minld + 32, minld + 48, 16 * no, 16 * no + 16, 512, 1024, 2048]
    lds = sorted({x for x in lds if x >= minld})
    hlens = [1, no - 1, no, no + 1, 32, 64]
    nbytes = lambda v, k: v.to_bytes(k, "little")
    hk = [("zero", bytes(no)), ("zero-above-m", None), ("ones", b"\xff" * no), ("ones-long", b"\xff" * 64), ("order", nbytes(n, no)),
          ("order+1", nbytes(n + 1, no)), ("random", None), ("short", None), ("long", None)]
    plan = []
    for dk, dv in (("d=1", 1), ("d=2", 2), ("d=order-1", n - 1), ("d=random", None)):
        for hn, hv in hk:
            plan.append((dk, dv, hn, hv, None, None))
    for tk in ("reject-zero", "reject-zero-after-trim", "high-junk", "e=1", "e=max", "brng", "s=0-forced"):
        plan.append(("d=random", None, "random", None, tk, None))
    # boundary keys make the public key equal to +-P, so that the verifier's interleaved multi-scalar loop meets the
    # exceptional branches of the mixed addition (P + P, P + (-P)) for some nonce shapes: many nonces per boundary key
    for _ in range(ctx.params.get("nboundary", 24 if ctx.tier == "quick" else 200)):
        plan.append(("d=order-1", n - 1, "random", None, "random", None))
        plan.append(("d=1", 1, "random", None, "random", None))
    for ld in lds:
        plan.append(("d=random", None, "random", None, None, ld))
    part, parts = ctx.params.get("part", 0), ctx.params.get("parts", 1)
    plan = plan[part::parts]
    for i, (dk, dv, hn, hv, tk, ld) in enumerate(plan):
        d = dv if dv is not None else rng.randrange(1, n)
        if hn == "zero-above-m":
            hv = bytes(no - 1) + bytes([(0xFF << (m % 8)) & 0xFF]) + rng.randbytes(5)     # reduces to 0 -> 1
        elif hn == "short":
            hv = rng.randbytes(rng.choice((1, no - 1)))
        elif hn == "long":
            hv = rng.randbytes(rng.choice((no + 1, 32 if 32 > no else no + 3, 64)))
        h = hv if hv is not None else rng.randbytes(rng.choice(hlens))
        tk = tk or ("random", "reject-zero", "high-junk")[rng.randrange(3)]
        ld = ld or lds[rng.randrange(len(lds))]
        e = {"e=1": 1, "e=max": keep}.get(tk, rng.randrange(1, keep + 1))
        e2 = rng.randrange(1, keep + 1)
        seed = (rng.randbytes(32), rng.randbytes(32))
        tape = dstu_scalar_tape(P, rng, tk if tk != "s=0-forced" else "random", e)
        full = i < nmodel or tk in ("s=0-forced", "e=1", "e=max")
        if tk == "s=0-forced":
            # the private key for which this e gives s = e + d r = 0 (the standard then draws a new e)
            Fp = P.E.mul(e, P.P)
            r0 = D.trunc(P, P.F.mul(D.hash_to_field(P, h), Fp[0]))
            if r0 == 0:
                tk = "random"
            else:
                d = (-e * pow(r0, -1, n)) % n
                dk = "d=s0"
                tape += dstu_scalar_tape(P, rng, "random", e2)
        if not ctx.case(["dstuSign+Verify", S.name, ptb, dk, d, hn, h, tk, ld, seed if tk == "brng" else tape], "dstu:sign"):
            continue
        mark(ctx, tag, "sign:" + dk, "sign:H=" + hn, "sign:tape=" + tk,
             "sign:ld=min" if ld == minld else ("sign:ld>=1024" if ld >= 1024 else "sign:ld>min"),
             "sign:hash_len<no" if len(h) < no else ("sign:hash_len=no" if len(h) == no else "sign:hash_len>no"))
        if tk == "brng":
            g, st = brng_pair(lib, seed)
            r, sig = S.sign(ld, h, d, g, st)
            full = False                 # candidate buffer is library scratch: not predictable, judged by the equation
        else:
            tp = Tape(tape, tk)
            r, sig = S.sign(ld, h, d, tp.addr, 0)
        pubb = D.enc_pt(P, D.pubkey(P, d))
        want = None
        if tk == "brng" and r == 0 and D.verify(P, ld, h, sig, pubb) is not True:
            ctx.violation("dstuSign:value:brng", "signature does not satisfy the verification equation",
                          {"params": S.name, "d": d, "hash": h, "seed": seed, "sig": sig, "ld": ld})
        if full:
            want, used, redo = D.sign(P, d, h, tape, ld)
            if D.verify(P, ld, h, want, pubb) is not True:
                raise Harness("model: verify(sign) fails")
            mark(ctx, "sign:model-checked")
        rv = S.verify(ld, h, sig, pubb) if r == 0 else None
        if tk == "brng":
            ctx.digest(r)   # brngCTR mixes the prior (scratch / fill) content of its output buffer in: values are not comparable across fills and configurations
        else:
            ctx.digest(r, sig if r == 0 else b"", rv)
        det = {"params": S.name, "base": ptb, "d": d, "hash": h, "ld": ld, "tape": tape, "ret": errname(r), "sig": sig, "want": want,
               "verify": None if rv is None else errname(rv)}
        if r != 0:
            ctx.violation("dstuSign:ret:%s:%s" % (errname(r), tk), "signing fails on valid input", det)
        else:
            if rv != 0:
                ctx.violation("dstuSign:signature-does-not-verify:%s" % tk, "dstuVerify rejects the produced signature (%s)" % errname(rv), det)
            if want is not None and sig != want:
                ctx.violation("dstuSign:value:%s" % tk, "signature differs from the model for this generator output", det)
        lib.release()

    # ---- alterations (of signatures the model defines) ------------------------------------------
    for _ in range(ctx.params.get("nbase", 1)):
        d = rng.randrange(1, n)
        h = rng.randbytes(rng.choice((no - 1, no, no + 1, 32, 64)))
        ld = lds[rng.randrange(len(lds))]
        sig, _, _ = D.sign(P, d, h, dstu_scalar_tape(P, rng, "random", rng.randrange(1, keep + 1)) * 1 +
                           dstu_scalar_tape(P, rng, "random", rng.randrange(1, keep + 1)), ld)
        base.append((d, D.enc_pt(P, D.pubkey(P, d)), h, sig, ld))
    for (d, pubb, h, sig, ld) in base:
        half = ld // 16
        r0 = int.from_bytes(sig[:half], "little")
        s0 = int.from_bytes(sig[half:], "little")
        enc = lambda rr, ss: rr.to_bytes(half, "little") + ss.to_bytes(half, "little")
        alts = []
        for i in flip_positions(ld, rng, nflip, (0, 8 * half - 1, 8 * half, ld - 1, P.nb - 1, P.nb - 2, 8 * half + P.nb - 1)):
            alts.append(("sig-bit", i, h, flip(sig, i), pubb))
        for i in flip_positions(16 * no, rng, nflip, (0, 8 * no - 1, 8 * no, 16 * no - 1, m - 1, m)):
            alts.append(("pubkey-bit", i, h, sig, flip(pubb, i)))
        for i in flip_positions(8 * len(h), rng, nflip, (0, 8 * len(h) - 1, m - 1, m, 8 * no - 1, 8 * no)):
            alts.append(("hash-bit", i, flip(h, i), sig, pubb))
        alts.append(("hash-truncated", None, h[:no], sig, pubb))
        alts.append(("hash-extended", None, h + b"\x5a" * 7 if len(h) >= no else h + bytes(no - len(h)) + b"\x5a", sig, pubb))
        lim = 1 << (8 * half)
        spec = [("r=0", 0, s0), ("s=0", r0, 0), ("r=n", n, s0), ("s=n", r0, n), ("swap", s0, r0), ("s->n-s", r0, n - s0),
                ("r+2^(nb-1)", r0 + (1 << (P.nb - 1)), s0)]
        if r0 + n < lim:
            spec.append(("r+n", r0 + n, s0))
        if s0 + n < lim:
            spec.append(("s+n", r0, s0 + n))
        for nm, rr, ss in spec:
            if rr < lim and ss < lim:
                alts.append((nm, None, h, enc(rr, ss), pubb))
        Q = D.dec_pt(P, pubb)
        alts.append(("pubkey=-Q", None, h, sig, D.enc_pt(P, P.E.neg(Q))))
        alts.append(("pubkey=0", None, h, sig, bytes(2 * no)))
        alts.append(("pubkey=P", None, h, sig, D.enc_pt(P, P.P)))
        alts.append(("unaltered", None, h, sig, pubb))
        red = lambda hh: D.hash_to_field(P, hh)
        for k_, (nm, i, h2, sig2, pub2) in enumerate(alts):
            if not ctx.case(["dstuVerify", S.name, ptb, nm, i, ld, h2, sig2, pub2], "dstu:verify:" + nm):
                continue
            mark(ctx, tag)
            rv = S.verify(ld, h2, sig2, pub2)
            ctx.digest(rv)
            eff = (red(h2), sig2, pub2) != (red(h), sig, pubb)
            if nm in ("hash-bit", "hash-truncated", "hash-extended") and not eff:
                mark(ctx, "dstu:hash-alteration-outside-the-reduced-part")
            judge(ctx, "dstuVerify", nm, rv, eff, lambda: D.verify(P, ld, h2, sig2, pub2),
                  {"params": S.name, "base": ptb, "alteration": nm, "bit": i, "ld": ld, "hash": h2, "sig": sig2, "pubkey": pub2,
                   "orig_hash": h, "orig_sig": sig, "orig_pubkey": pubb, "ret": errname(rv)}, sample=(k_ % 32 == 0))
            lib.release()


# =====================================================================================
# pfok
# =====================================================================================

def unit_forgery_scan(ctx):
    """bign96Verify against many signatures whose s1 was replaced: a verifier that compares only part of the 80-bit hash
    half refuses one alteration almost surely but accepts about one in 2^(8k) of them"""
    lib, rng = ctx.lib, ctx.rng
    M = B96(lib)
    q, oid, n = M.q, B96_OID, ctx.params["n"]
    pp, poid = lib.mk(M.raw), lib.mk(oid)
    d = rng.randrange(1, q).to_bytes(24, "little")
    pub = lib.alloc(48)
    if lib.bign96PubkeyCalc(pub, pp, lib.mk(d)) != 0:
        raise Harness("bign96PubkeyCalc")
    h = rng.randbytes(24)
    ph = lib.mk(h)
    sig = lib.alloc(34)
    if lib.bign96Sign2(sig, pp, poid, len(oid), ph, lib.mk(d), 0, 0) != 0:
        raise Harness("bign96Sign2")
    sg = lib.rd(sig, 34)
    if lib.bign96Verify(pp, poid, len(oid), ph, sig, pub) != 0:
        raise Harness("bign96Verify rejects the genuine signature")
    s1 = int.from_bytes(sg[10:], "little")
    start = rng.randrange(1, q)
    if not ctx.case(["bign96Verify", n, start], "bign96:verify:forgery-scan"):
        return
    accepted = []
    for i in range(n):
        v = (start + i) % q
        if v == s1:
            continue
        cand = sg[:10] + v.to_bytes(24, "little")
        p = lib.mk(cand)
        if lib.bign96Verify(pp, poid, len(oid), ph, p, pub) == 0:
            accepted.append(cand)
        lib.free_one(p)
    ctx.count(n - 1, "bign96:verify:forgery-scan")
    ctx.digest(len(accepted))
    if accepted:
        ctx.violation("bign96Verify:accepts-invalid:one-of-many-altered-signatures",
                      "bign96Verify accepted %d of %d signatures whose s1 was replaced" % (len(accepted), n),
                      {"hash": h, "pubkey": lib.rd(pub, 48), "genuine": sg, "accepted": accepted[:3]})
    lib.release()


def unit_pfok(ctx):
    lib, rng = ctx.lib, ctx.rng
    bad = PF.selftest(lib)
    if bad:
        raise Harness("ref/pfok.py self-test: %s" % bad[:4])
    name = ctx.params["name"]
    P = PF.load_params(lib, name)
    params = lambda: lib.mk(P.raw)
    no, mo, ko = P.no, P.mo, P.ko
    rmax = (1 << P.r) - 1
    tag = "pfok-%d" % P.l
    enc_x = lambda x: x.to_bytes(mo, "little")
    enc_y = lambda y: y.to_bytes(no, "little")

    def lib_dh(x, yb):
        out = lib.alloc(ko)
        r = lib.pfokDH(out, params(), lib.mk(enc_x(x)), lib.mk(yb))
        return r, lib.rd(out, ko)

    def lib_mti(x, u, yb, vb):
        out = lib.alloc(ko)
        r = lib.pfokMTI(out, params(), lib.mk(enc_x(x)), lib.mk(enc_x(u)), lib.mk(yb), lib.mk(vb))
        return r, lib.rd(out, ko)

    # ---- key pairs
    for kind in ("random", "zeros", "ones", "high-junk", "x=1", "brng") * ctx.params.get("nkeys", 1):
        x = {"zeros": 0, "ones": rmax, "x=1": 1}.get(kind, rng.getrandbits(P.r))
        v = x
        if kind in ("ones", "high-junk") and 8 * mo > P.r:
            v = x | (((1 << (8 * mo - P.r)) - 1) << P.r)           # bits above r are trimmed away
        tape = v.to_bytes(mo, "little")
        seed = (rng.randbytes(32), rng.randbytes(32))
        if not ctx.case(["pfokKeypairGen", name, kind, seed if kind == "brng" else tape], "pfok:keypair"):
            continue
        mark(ctx, tag, "keypair:" + kind)
        priv, pub = lib.alloc(mo), lib.alloc(no)
        if kind == "brng":
            x = brng_candidates(lib, seed, mo, rmax, lambda c: True)[-1]
            g, st = brng_pair(lib, seed)
            r = lib.pfokKeypairGen(priv, pub, params(), g, st)
        else:
            tp = Tape(tape, kind)
            r = lib.pfokKeypairGen(priv, pub, params(), tp.addr, 0)
        pv, pb = lib.rd(priv, mo), lib.rd(pub, no)
        want = enc_y(PF.mpow(P, P.g, x))
        det = {"params": name, "tape": tape, "ret": errname(r), "privkey": pv, "pubkey": pb, "want_priv": enc_x(x), "want_pub": want}
        if r != 0:
            ctx.digest(r)
            ctx.violation("pfokKeypairGen:ret:%s:%s" % (errname(r), kind), "key generation fails", det)
        else:
            rv = lib.pfokPubkeyVal(params(), pub)
            pub2 = lib.alloc(no)
            rc = lib.pfokPubkeyCalc(pub2, params(), priv)
            if kind == "brng":
                ctx.digest(r)   # brngCTR mixes the prior (scratch / fill) content of its output buffer in: values are not comparable across fills and configurations
            else:
                ctx.digest(r, pv, pb, rv, rc, lib.rd(pub2, no) if rc == 0 else b"")
            if pv != enc_x(x):
                ctx.violation("pfokKeypairGen:value:privkey:%s" % kind, "private key is not the r low bits of the generator output", det)
            elif pb != want:
                ctx.violation("pfokKeypairGen:value:pubkey:%s" % kind, "public key is not g^(x)", det)
            if rv != 0:
                ctx.violation("pfokKeypairGen:invalid-pair:%s" % kind, "generated public key fails pfokPubkeyVal (%s)" % errname(rv), det)
            if rc != 0 or lib.rd(pub2, no) != pb:
                ctx.violation("pfokPubkeyCalc:value:%s" % kind, "pfokPubkeyCalc disagrees with pfokKeypairGen", det)
        lib.release()

    # ---- DH / MTI, both directions
    xs = [("x=1", 1), ("x=2", 2), ("x=2^r-1", rmax), ("x=random", None), ("x=random", None), ("x=0", 0)]
    for it in range(ctx.params.get("nagree", 6)):
        ka, xa = xs[it % len(xs)]
        kb, xb = xs[(it * 5 + 3) % len(xs)]
        xa = rng.getrandbits(P.r) if xa is None else xa
        xb = rng.getrandbits(P.r) if xb is None else xb
        ua, ub = rng.getrandbits(P.r), rng.getrandbits(P.r)
        if it % 3 == 2:
            ua = (1, rmax, 2)[it % 3]
        ya, yb, va, vb = (enc_y(PF.mpow(P, P.g, t)) for t in (xa, xb, ua, ub))
        if ctx.case(["pfokDH", name, ka, xa, kb, xb], "pfok:dh"):
            mark(ctx, tag, "dh:" + ka, "dh:" + kb)
            r1, k1 = lib_dh(xa, yb)
            r2, k2 = lib_dh(xb, ya)
            want = PF.dh(P, xa, int.from_bytes(yb, "little"))
            ctx.digest(r1, k1 if r1 == 0 else b"", r2, k2 if r2 == 0 else b"")
            det = {"params": name, "xa": xa, "xb": xb, "ya": ya, "yb": yb, "ret_a": errname(r1), "ret_b": errname(r2),
                   "key_a": k1, "key_b": k2, "want": want}
            if r1 != 0 or r2 != 0:
                ctx.violation("pfokDH:ret:%s" % errname(r1 or r2), "pfokDH fails on valid keys", det)
            else:
                if k1 != k2:
                    ctx.violation("pfokDH:parties-disagree", "the two parties derive different keys", det)
                if k1 != want or k2 != want:
                    ctx.violation("pfokDH:value", "shared key differs from the n low bits of y^(x)", det)
            lib.release()
        if ctx.case(["pfokMTI", name, ka, xa, ua, kb, xb, ub], "pfok:mti"):
            mark(ctx, tag)
            r1, k1 = lib_mti(xa, ua, yb, vb)
            r2, k2 = lib_mti(xb, ub, ya, va)
            want = PF.mti(P, xa, ua, int.from_bytes(yb, "little"), int.from_bytes(vb, "little"))
            ctx.digest(r1, k1 if r1 == 0 else b"", r2, k2 if r2 == 0 else b"")
            det = {"params": name, "xa": xa, "ua": ua, "xb": xb, "ub": ub, "ret_a": errname(r1), "ret_b": errname(r2),
                   "key_a": k1, "key_b": k2, "want": want}
            if r1 != 0 or r2 != 0:
                ctx.violation("pfokMTI:ret:%s" % errname(r1 or r2), "pfokMTI fails on valid keys", det)
            else:
                if k1 != k2:
                    ctx.violation("pfokMTI:parties-disagree", "the two parties derive different keys", det)
                if k1 != want or k2 != want:
                    ctx.violation("pfokMTI:value", "shared key differs from v^(x) xor y^(u)", det)
            lib.release()

    # ---- special public keys
    x, u = rng.getrandbits(P.r), rng.getrandbits(P.r)
    good = enc_y(PF.mpow(P, P.g, rng.getrandbits(P.r)))
    top = (1 << (8 * no)) - 1
    for nm, y in (("y=0", 0), ("y=p", P.p), ("y=p+1", P.p + 1), ("y=max", top), ("y=1", 1), ("y=p-1", P.p - 1), ("y=2", 2)):
        yb = enc_y(y)
        if not ctx.case(["pfok special public key", name, nm, x, u], "pfok:pubkey:" + nm):
            continue
        mark(ctx, tag)
        rv = lib.pfokPubkeyVal(params(), lib.mk(yb))
        r1, k1 = lib_dh(x, yb)
        r2, k2 = lib_mti(x, u, yb, good)
        r3, k3 = lib_mti(x, u, good, yb)
        valid = PF.pub_valid(P, y)
        ctx.digest(rv, r1, k1 if r1 == 0 else b"", r2, k2 if r2 == 0 else b"", r3, k3 if r3 == 0 else b"")
        det = {"params": name, "pubkey": nm, "PubkeyVal": errname(rv), "DH": errname(r1), "MTI(y)": errname(r2), "MTI(v)": errname(r3)}
        if valid:
            gi = int.from_bytes(good, "little")
            if rv != 0:
                ctx.violation("pfokPubkeyVal:rejects-valid:%s" % nm, "0 < y < p refused", det)
            if (r1, k1) != (0, PF.dh(P, x, y)):
                ctx.violation("pfokDH:value:%s" % nm, "pfokDH on an admissible public key differs from the model", det)
            if (r2, k2) != (0, PF.mti(P, x, u, y, gi)) or (r3, k3) != (0, PF.mti(P, x, u, gi, y)):
                ctx.violation("pfokMTI:value:%s" % nm, "pfokMTI on an admissible public key differs from the model", det)
        else:
            if rv == 0:
                ctx.violation("pfokPubkeyVal:accepts-invalid:%s" % nm, "public key outside 0 < y < p accepted", det)
            if r1 == 0:
                ctx.violation("pfokDH:accepts-invalid-pubkey:%s" % nm, "pfokDH serves a public key outside 0 < y < p", det)
            if r2 == 0 or r3 == 0:
                ctx.violation("pfokMTI:accepts-invalid-pubkey:%s" % nm, "pfokMTI serves a public key outside 0 < y < p", det)
        lib.release()


# =====================================================================================

def jobs(tier, scale=1.0):
    q = tier == "quick"
    js = []
    sc = lambda v: max(1, int(v * scale))
    for name in G.NAMES:
        big = name.startswith("1.2.643.7")
        parts = (4 if big else 2) if q else (8 if big else 4)
        for part in range(parts):
            js.append({"unit": "c16:unit_g12s", "params": {"name": name, "part": part, "parts": parts,
                                                            "nflip": sc(48 if big else 128) if q else None, "nbase": 1}})
    for name in D.NAMES:
        m = [163, 167, 173, 179, 191, 233, 257, 307, 367, 431][int(name.rsplit(".", 1)[1])]
        parts = (2 if m < 300 else 3) if q else (4 if m < 300 else 6)
        for part in range(parts):
            js.append({"unit": "c16:unit_dstu", "params": {"name": name, "part": part, "parts": parts,
                                                            "nflip": sc(48 if m < 300 else 24) if q else sc(600 if m < 300 else 300),
                                                            "nmodel": 2 if q else 6, "nbase": 1}})
    for ch in range(2 if q else 6):
        js.append({"unit": "c16:unit_bign96", "params": {"chunk": ch, "nflip": sc(120) if q else None}})
    for ch in range(max(1, int(round((8 if q else 16) * min(1.0, scale))))):
        js.append({"unit": "c16:unit_forgery_scan", "params": {"chunk": ch, "n": sc(30000 if q else 120000)}})
    for name in PF.NAMES:
        for ch in range(1 if q else 3):
            js.append({"unit": "c16:unit_pfok", "params": {"name": name, "chunk": ch, "nagree": sc(6 if q else 18), "nkeys": 1 if q else 2}})
    return js


REQUIRED = ("g12s:keypair", "g12s:sign", "g12s:verify:sig-bit", "g12s:verify:pubkey-bit", "g12s:verify:hash-bit", "g12s:verify:hash-alias",
            "g12s:verify:r=0", "g12s:verify:s=0", "g12s:verify:r+q", "g12s:verify:s+q", "g12s:verify:unaltered", "g12s-256", "g12s-512",
            "bign96:keypair", "bign96:sign", "bign96:sign2", "bign96:verify:sig-bit", "bign96:verify:pubkey-bit", "bign96:verify:hash-bit",
            "bign96:verify:s0=0", "bign96:verify:s1=0", "bign96:verify:unaltered",
            "dstu:pointgen", "dstu:pointgen:tape", "dstu:keypair", "dstu:compress", "dstu:compress:x=0", "dstu:sign", "dstu:verify:sig-bit",
            "dstu:verify:pubkey-bit", "dstu:verify:hash-bit", "dstu:verify:r=0", "dstu:verify:s=0", "dstu:verify:unaltered",
            "dstu:hash-alteration-outside-the-reduced-part", "sign:ld=min", "sign:ld>min", "sign:ld>=1024",
            "sign:hash_len<no", "sign:hash_len=no", "sign:hash_len>no", "sign:model-checked",
            "dstu-163", "dstu-167", "dstu-173", "dstu-179", "dstu-191", "dstu-233", "dstu-257", "dstu-307", "dstu-367", "dstu-431",
            "pfok:keypair", "pfok:dh", "pfok:mti", "pfok:pubkey:y=0", "pfok:pubkey:y=1", "pfok:pubkey:y=p-1", "pfok:pubkey:y=p",
            "pfok-638", "pfok-1022", "pfok-1534", "pfok-2462",
            "sign:d=1", "sign:d=2", "sign:d=order-1", "sign:d=random", "sign:H=zero", "sign:H=ones", "sign:H=order", "sign:H=order+1",
            "sign:H=random", "sign:tape=reject-zero", "sign:tape=reject-ge-q", "sign:tape=brng", "sign:tape=s=0-forced",
            "accepted:reduced-inputs-unchanged", "rejected", "rejected:model-agrees")


def main(run):
    js = [dict(j, cfg="rel64" if j["unit"].endswith("unit_forgery_scan") else "asan64") for j in jobs(run.tier)]
    if run.tier != "quick":
        js += [dict(j, cfg="asan32") for j in jobs("quick", 0.5)]
    # longest first
    js.sort(key=lambda j: -{"c16:unit_dstu": 3, "c16:unit_g12s": 2}.get(j["unit"], 1))
    run.run_jobs(js)
    return run.finish(
        rule="case = one key generation, one sign+verify, one (altered) verification, one compress+recover or one key agreement "
             "with explicit inputs; distinct = distinct descriptions",
        assumptions=[
            "candidates for private / one-time keys are read from the generator as the implementation reads them (zzRandNZMod: "
            "O_OF_B(bitlen q) octets trimmed to bitlen q, 0 < c < q; dstu: trimmed to bitlen(n)-1 bits, c != 0; pfok: low r bits)",
            "DSTU hash -> field element: first O_OF_B(m) octets, little-endian, kept to m bits (anchored on example B.1)",
            "an altered public key that is not a point of the curve leaves the verification equation undefined: acceptance is then a violation",
            "bign96 is checked against a thin model of its two equations written in this file (belt-hash from the library), anchored on bign96_test.c",
            "pfok private key 0 is admitted (pfokKeypairGen draws from {0,...,2^r-1})",
            "ref/ec2m.py (shared model) supplies the binary-curve arithmetic"],
        min_eval=500, required_classes=REQUIRED)
