"""Table of err_t-returning high-level functions that take a secret, used by C15 (wipe before free, twin runs)
and by the allocation-failure half of C09.

A builder returns a Call: the function, and for each of two secret variants (A, B) a fully prepared argument list
on exact-size heap buffers (allocated in the parent, before any fork, so that both twins start from the same heap),
the public output regions, the public inputs and the secret needles."""
import random
from ..core import Harness

ERR_OK = 0
BIGN_OIDS = {128: "1.2.112.0.2.0.34.101.45.3.1", 192: "1.2.112.0.2.0.34.101.45.3.2", 256: "1.2.112.0.2.0.34.101.45.3.3"}
BIGN_PARAMS_SIZE = 8 + 5 * 64 + 8
OID_DER_BELT_HASH = bytes.fromhex("06092A7000020022651F51")


def rb(rng, n):
    return bytes(rng.getrandbits(8) for _ in range(n))


class Variant:
    def __init__(self):
        self.args, self.outs, self.needles, self.pub = [], [], [], []


class Call:
    def __init__(self, name, fn, exit_class="ok"):
        self.name, self.fn, self.exit_class = name, fn, exit_class
        self.v = [Variant(), Variant()]
        self.expect_ok = True


def expand_key(key):
    if len(key) == 32:
        return key
    if len(key) == 16:
        return key + key
    w = [int.from_bytes(key[4 * i:4 * i + 4], "little") for i in range(6)]
    w.append(w[0] ^ w[1] ^ w[2])
    w.append(w[3] ^ w[4] ^ w[5])
    return b"".join(x.to_bytes(4, "little") for x in w)


# ---------------------------------------------------------------------------------------------------------------

def _belt_mode(fn, minc, step, with_iv=True):
    def build(lib, rng, size):
        count = max(minc, size)
        count -= count % step
        klen = rng.choice([16, 24, 32])
        msg, iv = rb(rng, count), rb(rng, 16)
        c = Call(fn, getattr(lib, fn))
        for v in c.v:
            key = rb(rng, klen)
            d = lib.alloc(count)
            v.args = [d, lib.mk(msg), count, lib.mk(key), klen] + ([lib.mk(iv)] if with_iv else [])
            v.outs = [(d, count)]
            v.pub = [msg, iv]
            v.needles = [key, expand_key(key)]
        return c
    return build


def _belt_mac(fn, outlen, hmac=False):
    def build(lib, rng, size):
        klen = rng.choice([16, 24, 32]) if not hmac else rng.choice([16, 32, 40, 64])
        msg = rb(rng, size)
        c = Call(fn, getattr(lib, fn))
        for v in c.v:
            key = rb(rng, klen)
            d = lib.alloc(outlen)
            v.args = [d, lib.mk(msg), size, lib.mk(key), klen]
            v.outs = [(d, outlen)]
            v.pub = [msg]
            v.needles = [key] + ([expand_key(key)] if not hmac else [])
        return c
    return build


def _aead(name, unwrap=False, bad=False):
    def build(lib, rng, size):
        klen = rng.choice([16, 24, 32])
        msg, ad, iv = rb(rng, size), rb(rng, 24), rb(rng, 16)
        fn = "belt%s%s" % (name, "Unwrap" if unwrap else "Wrap")
        c = Call(fn + (":bad-mac" if bad else ""), getattr(lib, fn), "bad-mac" if bad else "ok")
        c.expect_ok = not bad
        for v in c.v:
            key = rb(rng, klen)
            if not unwrap:
                d, m = lib.alloc(size), lib.alloc(8)
                v.args = [d, m, lib.mk(msg), size, lib.mk(ad), 24, lib.mk(key), klen, lib.mk(iv)]
                v.outs = [(d, size), (m, 8)]
                v.pub = [msg, ad, iv]
            else:
                d, m = lib.alloc(size), lib.alloc(8)
                if getattr(lib, "belt%sWrap" % name)(d, m, lib.mk(msg), size, lib.mk(ad), 24, lib.mk(key), klen, lib.mk(iv)) != ERR_OK:
                    raise Harness("wrap failed")
                ct, mac = lib.rd(d, size), lib.rd(m, 8)
                if bad:
                    mac = bytes([mac[0] ^ 1]) + mac[1:]
                o = lib.alloc(size)
                v.args = [o, lib.mk(ct), size, lib.mk(ad), 24, lib.mk(mac), lib.mk(key), klen, lib.mk(iv)]
                v.outs = [(o, size)]
                v.pub = [ct, ad, iv, mac, msg]
            v.needles = [key, expand_key(key)]
        return c
    return build


def _kwp(unwrap=False, bad=False):
    def build(lib, rng, size):
        size = max(16, size)
        klen = rng.choice([16, 24, 32])
        hdr = rb(rng, 16)
        c = Call("beltKWP" + ("Unwrap" if unwrap else "Wrap") + (":bad-token" if bad else ""),
                 lib.beltKWPUnwrap if unwrap else lib.beltKWPWrap, "bad-token" if bad else "ok")
        c.expect_ok = not bad
        for v in c.v:
            key, payload = rb(rng, klen), rb(rng, size)
            if not unwrap:
                d = lib.alloc(size + 16)
                v.args = [d, lib.mk(payload), size, lib.mk(hdr), lib.mk(key), klen]
                v.outs = [(d, size + 16)]
                v.pub = [hdr]
                v.needles = [key, expand_key(key), payload]
            else:
                d = lib.alloc(size + 16)
                if lib.beltKWPWrap(d, lib.mk(payload), size, lib.mk(hdr), lib.mk(key), klen) != ERR_OK:
                    raise Harness("kwp wrap failed")
                tok = lib.rd(d, size + 16)
                if bad:
                    tok = tok[:-1] + bytes([tok[-1] ^ 1])
                o = lib.alloc(size)
                v.args = [o, lib.mk(tok), size + 16, lib.mk(hdr), lib.mk(key), klen]
                # the unwrapped key is returned to the caller: it is an output, hence not a needle on success
                v.outs = [(o, size)]
                v.pub = [hdr, tok] + ([payload] if not bad else [])
                v.needles = [key, expand_key(key)] + ([payload] if bad else [])
        return c
    return build


def _fmt(lib, rng, size):
    count = max(2, min(size // 2, 60))
    mod = rng.choice([10, 256, 1000, 65536])
    klen = rng.choice([16, 24, 32])
    src = b"".join(rng.randrange(mod).to_bytes(2, "little") for _ in range(count))
    iv = rb(rng, 16)
    c = Call("beltFMTEncr", lib.beltFMTEncr)
    for v in c.v:
        key = rb(rng, klen)
        d = lib.alloc(2 * count)
        v.args = [d, mod, lib.mk(src), count, lib.mk(key), klen, lib.mk(iv)]
        v.outs = [(d, 2 * count)]
        v.pub = [src, iv]
        v.needles = [key, expand_key(key)]
    return c


def _krp(lib, rng, size):
    n = rng.choice([16, 24, 32])
    m = rng.choice([x for x in (16, 24, 32) if x <= n])
    level, hdr = rb(rng, 12), rb(rng, 16)
    c = Call("beltKRP", lib.beltKRP)
    for v in c.v:
        key = rb(rng, n)
        d = lib.alloc(m)
        v.args = [d, m, lib.mk(key), n, lib.mk(level), lib.mk(hdr)]
        v.outs = [(d, m)]      # derived key handed to the caller
        v.pub = [level, hdr]
        v.needles = [key, expand_key(key)]
    return c


def _pbkdf2(lib, rng, size):
    salt = rb(rng, 8)
    it = rng.choice([1, 3, 10])
    c = Call("beltPBKDF2", lib.beltPBKDF2)
    for v in c.v:
        pwd = rb(rng, max(1, size % 40 + 8))
        d = lib.alloc(32)
        v.args = [d, lib.mk(pwd), len(pwd), it, lib.mk(salt), 8]
        v.outs = [(d, 32)]
        v.pub = [salt]
        v.needles = [pwd]
    return c


def _brng_ctr(lib, rng, size):
    n = max(1, size)
    iv = rb(rng, 32)
    c = Call("brngCTRRand", lib.brngCTRRand)
    for v in c.v:
        key = rb(rng, 32)
        d = lib.mk(bytes(n))
        ivp = lib.mk(iv)
        v.args = [d, n, lib.mk(key), ivp]
        v.outs = [(d, n), (ivp, 32)]
        v.pub = [iv]
        v.needles = [key]
    return c


def _brng_hmac(lib, rng, size):
    n = max(1, size)
    iv = rb(rng, rng.choice([0, 16, 64, 80]))
    c = Call("brngHMACRand", lib.brngHMACRand)
    for v in c.v:
        key = rb(rng, rng.choice([16, 32, 48]) if False else 32)
        d = lib.alloc(n)
        v.args = [d, n, lib.mk(key), 32, lib.mk(iv), len(iv)]
        v.outs = [(d, n)]
        v.pub = [iv]
        v.needles = [key]
    return c


def _hotp(lib, rng, size):
    digit = rng.choice([6, 7, 8])
    ctr = rb(rng, 8)
    c = Call("botpHOTPRand", lib.botpHOTPRand)
    for v in c.v:
        key = rb(rng, 32)
        d = lib.alloc(digit + 1)
        v.args = [d, digit, lib.mk(key), 32, lib.mk(ctr)]
        v.outs = [(d, digit + 1)]
        v.pub = [ctr]
        v.needles = [key]
    return c


def _totp(lib, rng, size):
    digit = rng.choice([6, 7, 8])
    t = rng.getrandbits(34)
    c = Call("botpTOTPRand", lib.botpTOTPRand)
    for v in c.v:
        key = rb(rng, 32)
        d = lib.alloc(digit + 1)
        v.args = [d, digit, lib.mk(key), 32, t]
        v.outs = [(d, digit + 1)]
        v.needles = [key]
    return c


def _ocra(lib, rng, size):
    suite = "OCRA-1:HOTP-HBELT-8:C-QN08-PHBELT-S032-T30S"
    q, ctr, p, s = b"12345678", rb(rng, 8), rb(rng, 32), rb(rng, 32)
    t = rng.getrandbits(30)
    c = Call("botpOCRARand", lib.botpOCRARand)
    for v in c.v:
        key = rb(rng, 32)
        d = lib.alloc(9)
        v.args = [d, lib.cstr(suite), lib.mk(key), 32, lib.mk(q), 8, lib.mk(ctr), lib.mk(p), lib.mk(s), t]
        v.outs = [(d, 9)]
        v.pub = [q, ctr, p, s]
        v.needles = [key]
    return c


# ---- bign ------------------------------------------------------------------------------------------------------

def bign_params(lib, l):
    p = lib.alloc(BIGN_PARAMS_SIZE, 0)
    if lib.bignParamsStd(p, lib.cstr(BIGN_OIDS[l])) != ERR_OK:
        raise Harness("bignParamsStd failed")
    raw = lib.rd(p, BIGN_PARAMS_SIZE)
    q = int.from_bytes(raw[8 + 192:8 + 192 + l // 4], "little")
    return p, q


def rng_state(lib, rng, key=None):
    st = lib.alloc(lib.brngCTR_keep())
    lib.brngCTRStart(st, lib.mk(key or rb(rng, 32)), lib.mk(rb(rng, 32)))
    return st


def rand_priv(rng, q, l):
    return rng.randrange(1, q).to_bytes(l // 4, "little")


def _bign_sign(det):
    def build(lib, rng, size):
        l = rng.choice([128, 192, 256])
        h = rb(rng, l // 4)
        name = "bignSign2" if det else "bignSign"
        c = Call(name, getattr(lib, name))
        for v in c.v:
            params, q = bign_params(lib, l)
            d = rand_priv(rng, q, l)
            sig = lib.alloc(3 * l // 8)
            if det:
                v.args = [sig, params, lib.mk(OID_DER_BELT_HASH), len(OID_DER_BELT_HASH), lib.mk(h), lib.mk(d), 0, 0]
            else:
                v.args = [sig, params, lib.mk(OID_DER_BELT_HASH), len(OID_DER_BELT_HASH), lib.mk(h), lib.mk(d),
                          lib.addr("brngCTRStepR"), rng_state(lib, random.Random(7))]
            v.outs = [(sig, 3 * l // 8)]
            v.pub = [h]
            v.needles = [d]
        return c
    return build


def _bign_keygen(lib, rng, size):
    l = rng.choice([128, 192, 256])
    c = Call("bignKeypairGen", lib.bignKeypairGen)
    for v in c.v:
        params, q = bign_params(lib, l)
        priv, pub = lib.alloc(l // 4), lib.alloc(l // 2)
        k = rb(rng, 32)
        v.args = [priv, pub, params, lib.addr("brngCTRStepR"), rng_state(lib, random.Random(3), key=k)]
        # the private key is returned to the caller (an output); the generator key is the secret input
        v.outs = [(priv, l // 4), (pub, l // 2)]
        v.needles = [k]
    return c


def _bign_pubcalc(lib, rng, size):
    l = rng.choice([128, 192, 256])
    c = Call("bignPubkeyCalc", lib.bignPubkeyCalc)
    for v in c.v:
        params, q = bign_params(lib, l)
        d = rand_priv(rng, q, l)
        pub = lib.alloc(l // 2)
        v.args = [pub, params, lib.mk(d)]
        v.outs = [(pub, l // 2)]
        v.needles = [d]
    return c


def _bign_dh(lib, rng, size):
    l = rng.choice([128, 192, 256])
    params0, q = bign_params(lib, l)
    peer_d = rand_priv(rng, q, l)
    peer_pub = lib.alloc(l // 2)
    if lib.bignPubkeyCalc(peer_pub, params0, lib.mk(peer_d)) != ERR_OK:
        raise Harness("pubkeycalc")
    peer = lib.rd(peer_pub, l // 2)
    klen = rng.choice([16, 32, l // 4, l // 2])
    c = Call("bignDH", lib.bignDH)
    for v in c.v:
        params, q = bign_params(lib, l)
        d = rand_priv(rng, q, l)
        key = lib.alloc(klen)
        v.args = [key, params, lib.mk(d), lib.mk(peer), klen]
        v.outs = [(key, klen)]      # shared key handed to the caller
        v.pub = [peer]
        v.needles = [d]
    return c


def _bign_keywrap(lib, rng, size):
    l = rng.choice([128, 192, 256])
    params0, q = bign_params(lib, l)
    rd = rand_priv(rng, q, l)
    rpub = lib.alloc(l // 2)
    lib.bignPubkeyCalc(rpub, params0, lib.mk(rd))
    pub = lib.rd(rpub, l // 2)
    klen = rng.choice([16, 24, 32, 48])
    hdr = rb(rng, 16)
    c = Call("bignKeyWrap", lib.bignKeyWrap)
    for v in c.v:
        params, _ = bign_params(lib, l)
        key = rb(rng, klen)
        tok = lib.alloc(klen + 16 + l // 4)
        v.args = [tok, params, lib.mk(key), klen, lib.mk(hdr), lib.mk(pub), lib.addr("brngCTRStepR"),
                  rng_state(lib, random.Random(11))]
        v.outs = [(tok, klen + 16 + l // 4)]
        v.pub = [hdr, pub]
        v.needles = [key]
    return c


def _bign_keyunwrap(bad, short=False):
    def build(lib, rng, size):
        l = rng.choice([128, 192, 256])
        klen = rng.choice([16, 24, 32, 48])
        hdr = rb(rng, 16)
        c = Call("bignKeyUnwrap" + (":short-token" if short else ":bad-token" if bad else ""), lib.bignKeyUnwrap,
                 "short-token" if short else "bad-token" if bad else "ok")
        c.expect_ok = not bad
        for v in c.v:
            params, q = bign_params(lib, l)
            d = rand_priv(rng, q, l)
            pubp = lib.alloc(l // 2)
            lib.bignPubkeyCalc(pubp, params, lib.mk(d))
            key = rb(rng, klen)
            tokp = lib.alloc(klen + 16 + l // 4)
            if lib.bignKeyWrap(tokp, params, lib.mk(key), klen, lib.mk(hdr), pubp, lib.addr("brngCTRStepR"),
                               rng_state(lib, random.Random(13))) != ERR_OK:
                raise Harness("bignKeyWrap failed")
            tok = lib.rd(tokp, klen + 16 + l // 4)
            if bad:
                tok = tok[:-1] + bytes([tok[-1] ^ 1])
            if short:
                tok = tok[:l // 4 + 31]      # one octet less than the minimal token: rejected after the state exists
            out = lib.alloc(klen)
            v.args = [out, params, lib.mk(tok), len(tok), lib.mk(hdr), lib.mk(d)]
            v.outs = [(out, klen)]
            v.pub = [hdr, tok] + ([key] if not bad else [])
            v.needles = [d] + ([key] if bad else [])
        return c
    return build


def _bels_share(lib, rng, size):
    ln = rng.choice([16, 24, 32])
    count = rng.randrange(2, 7)
    thr = rng.randrange(1, count + 1)
    m0 = lib.alloc(ln)
    lib.belsStdM(m0, ln, 0)
    mi = b""
    for i in range(1, count + 1):
        t = lib.alloc(ln)
        if lib.belsStdM(t, ln, i) != ERR_OK:
            raise Harness("belsStdM")
        mi += lib.rd(t, ln)
    m0b = lib.rd(m0, ln)
    c = Call("belsShare", lib.belsShare)
    for v in c.v:
        s = rb(rng, ln)
        si = lib.alloc(count * ln)
        v.args = [si, count, thr, ln, lib.mk(s), lib.mk(m0b), lib.mk(mi), lib.addr("brngCTRStepR"),
                  rng_state(lib, random.Random(17))]
        v.outs = [(si, count * ln)]      # the shares go to the caller
        v.pub = [m0b, mi]
        v.needles = [s]
    return c


def _bels_recover(lib, rng, size):
    ln = rng.choice([16, 24, 32])
    count = rng.randrange(2, 6)
    thr = rng.randrange(1, count + 1)
    m0 = lib.alloc(ln)
    lib.belsStdM(m0, ln, 0)
    m0b = lib.rd(m0, ln)
    mi = b""
    for i in range(1, count + 1):
        t = lib.alloc(ln)
        lib.belsStdM(t, ln, i)
        mi += lib.rd(t, ln)
    c = Call("belsRecover", lib.belsRecover)
    for v in c.v:
        s = rb(rng, ln)
        si = lib.alloc(count * ln)
        if lib.belsShare(si, count, thr, ln, lib.mk(s), lib.mk(m0b), lib.mk(mi), lib.addr("brngCTRStepR"),
                         rng_state(lib, random.Random(19))) != ERR_OK:
            raise Harness("belsShare failed")
        shares = lib.rd(si, count * ln)
        out = lib.alloc(ln)
        v.args = [out, thr, ln, lib.mk(shares[:thr * ln]), lib.mk(m0b), lib.mk(mi[:thr * ln])]
        v.outs = [(out, ln)]        # the recovered secret goes to the caller
        v.pub = [m0b, mi, s]
        v.needles = [shares[:ln]] if thr > 1 else []
    return c


def _bpki_privkey(unwrap, badpwd=False):
    def build(lib, rng, size):
        klen = rng.choice([32, 48, 64])
        salt = rb(rng, 8)
        it = 10000
        name = "bpkiPrivkey" + ("Unwrap" if unwrap else "Wrap") + (":bad-pwd" if badpwd else "")
        c = Call(name, lib.bpkiPrivkeyUnwrap if unwrap else lib.bpkiPrivkeyWrap, "bad-pwd" if badpwd else "ok")
        c.expect_ok = not badpwd
        for v in c.v:
            priv, pwd = rb(rng, klen), rb(rng, 12)
            ln = lib.alloc(8, 0)
            if lib.bpkiPrivkeyWrap(0, ln, lib.mk(priv), klen, lib.mk(pwd), 12, lib.mk(salt), it) != ERR_OK:
                raise Harness("bpkiPrivkeyWrap size probe failed")
            n = lib.rd_size(ln)
            if not unwrap:
                epki = lib.alloc(n)
                v.args = [epki, lib.alloc(8, 0), lib.mk(priv), klen, lib.mk(pwd), 12, lib.mk(salt), it]
                v.outs = [(epki, n)]
                v.pub = [salt]
                v.needles = [priv, pwd]
            else:
                epki = lib.alloc(n)
                if lib.bpkiPrivkeyWrap(epki, lib.alloc(8, 0), lib.mk(priv), klen, lib.mk(pwd), 12, lib.mk(salt), it) != ERR_OK:
                    raise Harness("bpkiPrivkeyWrap failed")
                cont = lib.rd(epki, n)
                usepwd = pwd if not badpwd else bytes([pwd[0] ^ 1]) + pwd[1:]
                out = lib.alloc(klen)
                v.args = [out, lib.alloc(8, 0), lib.mk(cont), n, lib.mk(usepwd), 12]
                v.outs = [(out, klen)]
                v.pub = [cont] + ([priv] if not badpwd else [])
                v.needles = [usepwd] + ([priv] if badpwd else [])
        return c
    return build


def _der_len(n):
    if n < 128:
        return bytes([n])
    b = n.to_bytes((n.bit_length() + 7) // 8, "big")
    return bytes([0x80 | len(b)]) + b


def _der_tl(b, i):
    """(tag, length, header size) of the TLV starting at b[i] (one-octet tags only)"""
    tag = b[i]
    l0 = b[i + 1]
    if l0 < 128:
        return tag, l0, 2
    k = l0 & 0x7F
    return tag, int.from_bytes(b[i + 2:i + 2 + k], "big"), 2 + k


def _oversize_container(cont, newlen, rng):
    """PKCS#8-style container SEQ { SEQ alg, OCTET STRING encData }: replace encData by newlen random octets"""
    tag, ln, h = _der_tl(cont, 0)
    if tag != 0x30:
        raise Harness("container is not a SEQUENCE")
    t1, l1, h1 = _der_tl(cont, h)
    first = cont[h:h + h1 + l1]
    t2, l2, h2 = _der_tl(cont, h + h1 + l1)
    if t2 != 0x04:
        raise Harness("second element is not an OCTET STRING")
    body = first + b"\x04" + _der_len(newlen) + rb(rng, newlen)
    return b"\x30" + _der_len(len(body)) + body


def _bpki_privkey_oversized(lib, rng, size):
    """error exit on an admissible-looking but oversized container: encData long enough to need a larger blob"""
    klen = rng.choice([32, 48, 64])
    salt = rb(rng, 8)
    it = 10000
    newlen = rng.choice([977, 1100, 2100, 5000])
    c = Call("bpkiPrivkeyUnwrap:oversized", lib.bpkiPrivkeyUnwrap, "oversized-container")
    c.expect_ok = False
    filler = random.Random(rng.getrandbits(32))
    fs = filler.getstate()
    for v in c.v:
        priv, pwd = rb(rng, klen), rb(rng, 12)
        ln = lib.alloc(8, 0)
        if lib.bpkiPrivkeyWrap(0, ln, lib.mk(priv), klen, lib.mk(pwd), 12, lib.mk(salt), it) != ERR_OK:
            raise Harness("bpkiPrivkeyWrap size probe failed")
        n = lib.rd_size(ln)
        epki = lib.alloc(n)
        if lib.bpkiPrivkeyWrap(epki, lib.alloc(8, 0), lib.mk(priv), klen, lib.mk(pwd), 12, lib.mk(salt), it) != ERR_OK:
            raise Harness("bpkiPrivkeyWrap failed")
        filler.setstate(fs)          # the same filler octets in both twins
        cont = _oversize_container(lib.rd(epki, n), newlen, filler)
        out = lib.alloc(newlen)
        v.args = [out, lib.alloc(8, 0), lib.mk(cont), len(cont), lib.mk(pwd), 12]
        v.outs = [(out, newlen)]
        v.pub = [cont]
        v.needles = [pwd, priv]
    return c


BUILDERS = {
    "beltECBEncr": _belt_mode("beltECBEncr", 16, 1, with_iv=False), "beltECBDecr": _belt_mode("beltECBDecr", 16, 1, with_iv=False),
    "beltCBCEncr": _belt_mode("beltCBCEncr", 16, 1), "beltCBCDecr": _belt_mode("beltCBCDecr", 16, 1),
    "beltCFBEncr": _belt_mode("beltCFBEncr", 1, 1), "beltCFBDecr": _belt_mode("beltCFBDecr", 1, 1),
    "beltCTR": _belt_mode("beltCTR", 1, 1),
    "beltBDEEncr": _belt_mode("beltBDEEncr", 16, 16), "beltBDEDecr": _belt_mode("beltBDEDecr", 16, 16),
    "beltSDEEncr": _belt_mode("beltSDEEncr", 32, 16), "beltSDEDecr": _belt_mode("beltSDEDecr", 32, 16),
    "beltMAC": _belt_mac("beltMAC", 8), "beltHMAC": _belt_mac("beltHMAC", 32, hmac=True),
    "beltDWPWrap": _aead("DWP"), "beltDWPUnwrap": _aead("DWP", True), "beltDWPUnwrap:bad": _aead("DWP", True, True),
    "beltCHEWrap": _aead("CHE"), "beltCHEUnwrap": _aead("CHE", True), "beltCHEUnwrap:bad": _aead("CHE", True, True),
    "beltKWPWrap": _kwp(), "beltKWPUnwrap": _kwp(True), "beltKWPUnwrap:bad": _kwp(True, True),
    "beltFMTEncr": _fmt, "beltKRP": _krp, "beltPBKDF2": _pbkdf2,
    "brngCTRRand": _brng_ctr, "brngHMACRand": _brng_hmac,
    "botpHOTPRand": _hotp, "botpTOTPRand": _totp, "botpOCRARand": _ocra,
    "bignSign": _bign_sign(False), "bignSign2": _bign_sign(True), "bignKeypairGen": _bign_keygen,
    "bignPubkeyCalc": _bign_pubcalc, "bignDH": _bign_dh, "bignKeyWrap": _bign_keywrap,
    "bignKeyUnwrap": _bign_keyunwrap(False), "bignKeyUnwrap:bad": _bign_keyunwrap(True),
    "bignKeyUnwrap:short": _bign_keyunwrap(True, True),
    "belsShare": _bels_share, "belsRecover": _bels_recover,
    "bpkiPrivkeyWrap": _bpki_privkey(False), "bpkiPrivkeyUnwrap": _bpki_privkey(True),
    "bpkiPrivkeyUnwrap:bad": _bpki_privkey(True, True),
    "bpkiPrivkeyUnwrap:oversized": _bpki_privkey_oversized,
}
HEAVY = {"bignSign", "bignSign2", "bignKeypairGen", "bignPubkeyCalc", "bignDH", "bignKeyWrap", "bignKeyUnwrap",
         "bignKeyUnwrap:bad", "bignKeyUnwrap:short", "bpkiPrivkeyWrap", "bpkiPrivkeyUnwrap", "bpkiPrivkeyUnwrap:bad", "bpkiPrivkeyUnwrap:oversized"}

# ---------------------------------------------------------------------------------------------------------------
# bake: the Run drivers (they allocate their protocol state with blobCreate).  The peer is a scripted channel: the
# honest transcript is recorded once in the parent (both parties over c04's in-memory pipe), then the party under
# test is run alone, with the same generator tape, against the recorded replies (optionally with the last reply's
# authentication tag spoiled, which makes the driver leave through its error path after most of the protocol).

_BAKE_ENV = {}


def _bake_run(proto, side, bad=False, longcert=False, readerr=False):
    name = "bake%sRun%s" % (proto, side) + (":badtag" if bad else "") + (":longcert" if longcert else "") + (":readerr" if readerr else "")

    def build(lib, rng, size):
        from . import c04
        env = _BAKE_ENV.get(id(lib))
        if env is None:
            env = _BAKE_ENV[id(lib)] = c04.Env(lib)
        c04._TAPES.clear()
        del c04._CB_ERR[:]
        l = 128
        n = rng.getrandbits(16)
        mine = 0 if side == "A" else 1
        c = Call(name, lambda thunk: thunk())
        c.expect_ok = not (bad or readerr)
        c.exit_class = "bad-peer-tag" if bad else "read-error-inside-a-long-message" if readerr else "ok"
        cur = env.curve(l)
        for v in c.v:
            cfg = c04.base_cfg(proto, l, 1, 1, n, ks=rng.getrandbits(30))
            pwd = rb(rng, max(8, min(size, 40)))
            cfg["pwd"] = pwd.hex()
            if longcert:
                # certificates long enough for M2 / M3 to need several 512-octet reads and a blobResize across a blob page
                cfg["cpad"] = {"A": 1100, "B": 1300}
            h, ra, rbb = c04.run_pipe(env, cfg)
            if ra != 0 or rbb != 0 or c04._CB_ERR:
                raise Harness("honest %s run failed while recording the transcript (%r %r %r)" % (proto, ra, rbb, c04._CB_ERR))
            replies = [h.sent[nm] for nm in c04.SENDS[proto][1 - mine]]
            if bad:
                replies[-1] = replies[-1][:-1] + bytes([replies[-1][-1] ^ 0x40])
            P = c04.build(env, cfg)
            me = P[side]
            key, wbuf = lib.alloc(32), lib.alloc(4096 if longcert else 1024, 0)
            f = lib.mk(mine.to_bytes(8, "little"))
            pipe = c04.Pipe(c04.SENDS[proto], lambda nm, d: d)
            for m in replies:
                pipe.inbox[mine].put(m)
            pipe.inbox[mine].put(c04._EOF)
            if readerr:
                # the channel breaks while the last (long) message of the peer is being read: its second 512-octet read
                # fails with a file error (not ERR_MAX)
                nfull = sum((len(m) + 511) // 512 if len(m) > 512 else 1 for m in replies[:-1])
                state = {"n": 0}
                plain_read = pipe.read

                def broken_read(sd, count, state=state, plain_read=plain_read, nfull=nfull):
                    state["n"] += 1
                    if state["n"] == nfull + 2:
                        return None, c04.errcode("ERR_FILE_READ")
                    return plain_read(sd, count)
                pipe.read = broken_read
            fn = getattr(lib, "bake%sRun%s" % (proto, side))
            if proto == "BMQV":
                a = [key, me.params, me.settings, me.privkey, me.cert, me.peer_cert, c04.READ_ADDR, c04.WRITE_ADDR, f]
            elif proto == "BSTS":
                a = [key, me.params, me.settings, me.privkey, me.cert, me.cv_peer, c04.READ_ADDR, c04.WRITE_ADDR, f]
            else:
                a = [key, me.params, me.settings, me.pwd, me.pwd_len, c04.READ_ADDR, c04.WRITE_ADDR, f]

            def thunk(fn=fn, a=a, pipe=pipe, wbuf=wbuf, mine=mine):
                c04._PIPE["p"] = pipe
                try:
                    ret = fn(*a)
                finally:
                    c04._PIPE["p"] = None
                out = b""
                q = pipe.inbox[1 - mine]
                while not q.empty():
                    out += q.get()
                lib.wr(wbuf, out[:lib.sizes[wbuf]])
                return ret
            v.args = [thunk]
            v.outs = [(key, 32), (wbuf, lib.sizes[wbuf])]
            d = env.keypair(l, side, cfg["ks"])[0]
            own, peer = c04.cert_data(env, cfg, side), c04.cert_data(env, cfg, "B" if side == "A" else "A", side)
            v.pub = list(replies) + [own, peer, cur["raw"]]
            if proto == "BPACE":
                hp = lib.alloc(32)
                lib.beltHash(hp, lib.mk(pwd), len(pwd))
                v.needles = [pwd, lib.rd(hp, 32)]
            else:
                v.needles = [d]
        return c
    return build


for _pr in ("BMQV", "BSTS", "BPACE"):
    for _sd in ("A", "B"):
        BUILDERS["bake%sRun%s" % (_pr, _sd)] = _bake_run(_pr, _sd)
        BUILDERS["bake%sRun%s:badtag" % (_pr, _sd)] = _bake_run(_pr, _sd, True)
        HEAVY.add("bake%sRun%s" % (_pr, _sd))
        HEAVY.add("bake%sRun%s:badtag" % (_pr, _sd))
for _sd in ("A", "B"):
    BUILDERS["bakeBSTSRun%s:longcert" % _sd] = _bake_run("BSTS", _sd, False, True)
    HEAVY.add("bakeBSTSRun%s:longcert" % _sd)
    BUILDERS["bakeBSTSRun%s:longcert:readerr" % _sd] = _bake_run("BSTS", _sd, False, True, True)
    HEAVY.add("bakeBSTSRun%s:longcert:readerr" % _sd)


# ===============================================================================================================
# round 2: the remaining allocating functions that take a secret.  Conventions as above: both twins get the same
# public inputs, sizes and generator tapes; only the secret (and what the caller necessarily derives from it before
# the call: a matching public key, a matching one-time password, a container made with it) differs.

B96_NAME = "1.2.112.0.2.0.34.101.45.3.0"
_CACHE = {}      # (id(lib), what) -> Python-side data only (never lib pointers: the unit releases them after every case)


def _brng():
    return "brngCTRStepR"


def _fmt_decr(lib, rng, size):
    count = max(2, min(size // 2, 60))
    mod = rng.choice([10, 256, 1000, 65536])
    klen = rng.choice([16, 24, 32])
    src = b"".join(rng.randrange(mod).to_bytes(2, "little") for _ in range(count))
    iv = rb(rng, 16)
    c = Call("beltFMTDecr", lib.beltFMTDecr)
    for v in c.v:
        key = rb(rng, klen)
        d = lib.alloc(2 * count)
        v.args = [d, mod, lib.mk(src), count, lib.mk(key), klen, lib.mk(iv)]
        v.outs = [(d, 2 * count)]
        v.pub = [src, iv]
        v.needles = [key, expand_key(key)]
    return c


# ---- bels on the standard public keys ---------------------------------------------------------------------------

def _bels_share23(det):
    name = "belsShare3" if det else "belsShare2"

    def build(lib, rng, size):
        ln = rng.choice([16, 24, 32])
        count = rng.randrange(2, 10)
        thr = rng.randrange(1, count + 1)
        c = Call(name, getattr(lib, name))
        for v in c.v:
            s = rb(rng, ln)
            si = lib.alloc(count * (ln + 1))
            v.args = [si, count, thr, ln, lib.mk(s)]
            if not det:
                v.args += [lib.addr(_brng()), rng_state(lib, random.Random(23))]
            v.outs = [(si, count * (ln + 1))]        # the shares go to the caller
            # belsShare3 keys its generator with belt-compress(~K || K), K = belt-keyexpand(s)
            v.needles = [s] + ([expand_key(s)] if det else [])
        return c
    return build


def _bels_recover2(lib, rng, size):
    ln = rng.choice([16, 24, 32])
    count = rng.randrange(2, 8)
    thr = rng.randrange(1, count + 1)
    c = Call("belsRecover2", lib.belsRecover2)
    for v in c.v:
        s = rb(rng, ln)
        si = lib.alloc(count * (ln + 1))
        if lib.belsShare2(si, count, thr, ln, lib.mk(s), lib.addr(_brng()), rng_state(lib, random.Random(29))) != ERR_OK:
            raise Harness("belsShare2 failed")
        use = lib.rd(si, count * (ln + 1))[:thr * (ln + 1)]
        out = lib.alloc(ln)
        v.args = [out, thr, ln, lib.mk(use)]
        v.outs = [(out, ln)]        # the recovered secret goes to the caller
        v.pub = [s]
        # with threshold 1 every share equals the secret, which is the output
        v.needles = [use[i * (ln + 1) + 1:(i + 1) * (ln + 1)] for i in range(thr)] if thr > 1 else []
    return c


# ---- bign96 / bign key pair validation ---------------------------------------------------------------------------

def bign96_params(lib):
    p = lib.alloc(BIGN_PARAMS_SIZE, 0)
    if lib.bign96ParamsStd(p, lib.cstr(B96_NAME)) != ERR_OK:
        raise Harness("bign96ParamsStd failed")
    raw = lib.rd(p, BIGN_PARAMS_SIZE)
    return p, int.from_bytes(raw[8 + 192:8 + 192 + 24], "little")


def _params_any(lib, l):
    """l = 96 selects bign96"""
    return bign96_params(lib) if l == 96 else bign_params(lib, l)


def _pubkey_of(lib, l, d):
    no = 24 if l == 96 else l // 4
    params, _ = _params_any(lib, l)
    pubp = lib.alloc(2 * no)
    f = lib.bign96PubkeyCalc if l == 96 else lib.bignPubkeyCalc
    if f(pubp, params, lib.mk(d)) != ERR_OK:
        raise Harness("PubkeyCalc failed")
    return lib.rd(pubp, 2 * no)


def _priv_any(rng, q, l):
    return rng.randrange(1, q).to_bytes(24 if l == 96 else l // 4, "little")


def _bign96_sign(det):
    name = "bign96Sign2" if det else "bign96Sign"

    def build(lib, rng, size):
        h = rb(rng, 24)
        t = rb(rng, rng.choice([0, 0, 8, 40])) if det else b""
        c = Call(name, getattr(lib, name))
        for v in c.v:
            params, q = bign96_params(lib)
            d = _priv_any(rng, q, 96)
            sig = lib.alloc(34)
            v.args = [sig, params, lib.mk(OID_DER_BELT_HASH), len(OID_DER_BELT_HASH), lib.mk(h), lib.mk(d)]
            if det:
                v.args += [lib.mk(t) if t else 0, len(t)]
            else:
                v.args += [lib.addr(_brng()), rng_state(lib, random.Random(37))]
            v.outs = [(sig, 34)]
            v.pub = [h, t]
            v.needles = [d]
        return c
    return build


def _bad_privkey(base, name):
    """the ERR_BAD_PRIVKEY exit of a signer: private key in [q, q + 2^62) -- the working state already holds the caller's key"""
    def build(lib, rng, size):
        c = base(lib, rng, size)
        c.name, c.exit_class, c.expect_ok = name + ":bad-privkey", "bad-privkey", False
        for v in c.v:
            n = len(v.needles[0])
            _, q = _params_any(lib, 96 if n == 24 else 4 * n)
            d = (q + rng.getrandbits(62)).to_bytes(n, "little")
            v.args[5] = lib.mk(d)
            v.needles = [d]
        return c
    return build


def _bign96_keygen(lib, rng, size):
    c = Call("bign96KeypairGen", lib.bign96KeypairGen)
    for v in c.v:
        params, q = bign96_params(lib)
        priv, pub = lib.alloc(24), lib.alloc(48)
        k = rb(rng, 32)
        v.args = [priv, pub, params, lib.addr(_brng()), rng_state(lib, random.Random(41), key=k)]
        # the private key is returned to the caller (an output); the generator key is the secret input
        v.outs = [(priv, 24), (pub, 48)]
        v.needles = [k]
    return c


def _bign96_pubcalc(lib, rng, size):
    c = Call("bign96PubkeyCalc", lib.bign96PubkeyCalc)
    for v in c.v:
        params, q = bign96_params(lib)
        d = _priv_any(rng, q, 96)
        pub = lib.alloc(48)
        v.args = [pub, params, lib.mk(d)]
        v.outs = [(pub, 48)]
        v.needles = [d]
    return c


def _keypair_val(b96, bad=False):
    fn = "bign96KeypairVal" if b96 else "bignKeypairVal"

    def build(lib, rng, size):
        l = 96 if b96 else rng.choice([128, 192, 256])
        c = Call(fn + (":bad-pubkey" if bad else ""), getattr(lib, fn), "bad-pubkey" if bad else "ok")
        c.expect_ok = not bad
        _, q = _params_any(lib, l)
        other = _pubkey_of(lib, l, _priv_any(rng, q, l))      # somebody else's (valid) public key, the same in both twins
        for v in c.v:
            params, _ = _params_any(lib, l)
            d = _priv_any(rng, q, l)
            pub = other if bad else _pubkey_of(lib, l, d)
            v.args = [params, lib.mk(d), lib.mk(pub)]
            v.pub = [pub]
            v.needles = [d]
        return c
    return build


# ---- bign identity-based signature ------------------------------------------------------------------------------

def _ibs_issue(lib, rng, l, d0, H0):
    """identity signature of the trusted party (private key d0) on the identifier hash H0, one-time key from rng"""
    no = l // 4
    params, _ = bign_params(lib, l)
    sigp = lib.alloc(no + no // 2)
    if lib.bignSign(sigp, params, lib.mk(OID_DER_BELT_HASH), len(OID_DER_BELT_HASH), lib.mk(H0), lib.mk(d0),
                    lib.addr(_brng()), rng_state(lib, rng)) != ERR_OK:
        raise Harness("bignSign (identity signature) failed")
    return lib.rd(sigp, no + no // 2)


def _bign_id_extract(lib, rng, size):
    l = rng.choice([128, 192, 256])
    no = l // 4
    _, q = bign_params(lib, l)
    d0, H0 = rand_priv(rng, q, l), rb(rng, no)
    Q0 = _pubkey_of(lib, l, d0)
    c = Call("bignIdExtract", lib.bignIdExtract)
    for v in c.v:
        params, _ = bign_params(lib, l)
        sig0 = _ibs_issue(lib, rng, l, d0, H0)       # differs between the twins through the one-time key only
        idpriv, idpub = lib.alloc(no), lib.alloc(2 * no)
        v.args = [idpriv, idpub, params, lib.mk(OID_DER_BELT_HASH), len(OID_DER_BELT_HASH), lib.mk(H0), lib.mk(sig0), lib.mk(Q0)]
        v.outs = [(idpriv, no), (idpub, 2 * no)]     # the extracted key pair goes to the caller
        v.pub = [H0, Q0]
        v.needles = [sig0]                           # whoever holds the identity signature holds the private key
    return c


def _bign_id_sign(det):
    name = "bignIdSign2" if det else "bignIdSign"

    def build(lib, rng, size):
        l = rng.choice([128, 192, 256])
        no = l // 4
        _, q = bign_params(lib, l)
        d0, H0, H = rand_priv(rng, q, l), rb(rng, no), rb(rng, no)
        Q0 = _pubkey_of(lib, l, d0)
        t = rb(rng, rng.choice([0, 0, 8, 40])) if det else b""
        c = Call(name, getattr(lib, name))
        for v in c.v:
            params, _ = bign_params(lib, l)
            sig0 = _ibs_issue(lib, rng, l, d0, H0)
            idpriv, idpub = lib.alloc(no), lib.alloc(2 * no)
            if lib.bignIdExtract(idpriv, idpub, params, lib.mk(OID_DER_BELT_HASH), len(OID_DER_BELT_HASH), lib.mk(H0),
                                 lib.mk(sig0), lib.mk(Q0)) != ERR_OK:
                raise Harness("bignIdExtract failed")
            e = lib.rd(idpriv, no)
            idsig = lib.alloc(no + no // 2)
            v.args = [idsig, params, lib.mk(OID_DER_BELT_HASH), len(OID_DER_BELT_HASH), lib.mk(H0), lib.mk(H), lib.mk(e)]
            if det:
                v.args += [lib.mk(t) if t else 0, len(t)]
            else:
                v.args += [lib.addr(_brng()), rng_state(lib, random.Random(43))]
            v.outs = [(idsig, no + no // 2)]
            v.pub = [H0, H, t]
            v.needles = [e]
        return c
    return build


# ---- botp: verification ----------------------------------------------------------------------------------------------

def _otp_verify(mode, bad=False):
    fn = "botp%sVerify" % mode

    def build(lib, rng, size):
        digit = rng.choice([6, 7, 8])
        ctr, p, s = rb(rng, 8), rb(rng, 32), rb(rng, 32)
        t = rng.getrandbits(30)
        q = b"12345678"
        suite = "OCRA-1:HOTP-HBELT-%d:C-QN08-PHBELT-S032-T30S" % digit
        wrong = "".join(rng.choice("0123456789") for _ in range(digit)).encode()
        keys = [rb(rng, 32), rb(rng, 32)]
        c = Call(fn + (":bad-otp" if bad else ""), getattr(lib, fn), "bad-otp" if bad else "ok")
        c.expect_ok = not bad
        good = []
        for key in keys:
            d = lib.alloc(digit + 1)
            if mode == "HOTP":
                r = lib.botpHOTPRand(d, digit, lib.mk(key), 32, lib.mk(ctr))
            elif mode == "TOTP":
                r = lib.botpTOTPRand(d, digit, lib.mk(key), 32, t)
            else:
                r = lib.botpOCRARand(d, lib.cstr(suite), lib.mk(key), 32, lib.mk(q), 8, lib.mk(ctr), lib.mk(p), lib.mk(s), t)
            if r != ERR_OK:
                raise Harness("botp%sRand failed" % mode)
            good.append(lib.rd(d, digit))
        while wrong in good:          # one and the same wrong password for both twins
            wrong = b"%0*d" % (digit, (int(wrong) + 1) % 10 ** digit)
        for v, key, otp in zip(c.v, keys, good):
            o = wrong if bad else otp
            if mode == "HOTP":
                v.args = [lib.cstr(o), lib.mk(key), 32, lib.mk(ctr)]
            elif mode == "TOTP":
                v.args = [lib.cstr(o), lib.mk(key), 32, t]
            else:
                v.args = [lib.cstr(o), lib.cstr(suite), lib.mk(key), 32, lib.mk(q), 8, lib.mk(ctr), lib.mk(p), lib.mk(s), t]
            v.pub = [o, q, ctr, p, s]     # the (correct) password is what the token shows: an input the verifier received
            v.needles = [key]
        return c
    return build


# ---- bpki: share containers, certificate request -------------------------------------------------------------------

def _bpki_share(unwrap, badpwd=False):
    def build(lib, rng, size):
        slen = rng.choice([17, 25, 33])
        idx = rng.randrange(1, 17)          # number of the public key: public, the same in both twins
        salt = rb(rng, 8)
        it = 10000
        name = "bpkiShare" + ("Unwrap" if unwrap else "Wrap") + (":bad-pwd" if badpwd else "")
        c = Call(name, lib.bpkiShareUnwrap if unwrap else lib.bpkiShareWrap, "bad-pwd" if badpwd else "ok")
        c.expect_ok = not badpwd
        shared = None
        for v in c.v:
            share, pwd = bytes([idx]) + rb(rng, slen - 1), rb(rng, 12)
            ln = lib.alloc(8, 0)
            if lib.bpkiShareWrap(0, ln, lib.mk(share), slen, lib.mk(pwd), 12, lib.mk(salt), it) != ERR_OK:
                raise Harness("bpkiShareWrap size probe failed")
            n = lib.rd_size(ln)
            epki = lib.alloc(n)
            if not unwrap:
                # bpkiShareWrap wipes the caller's epki on its error exits and memWipe's counter absorbs the address it wiped:
                # both twins (separate children) write to one and the same output buffer
                shared = shared or (epki, lib.alloc(8, 0))
                v.args = [shared[0], shared[1], lib.mk(share), slen, lib.mk(pwd), 12, lib.mk(salt), it]
                v.outs = [(shared[0], n)]
                v.pub = [salt]
                v.needles = [share, pwd]
            else:
                if lib.bpkiShareWrap(epki, lib.alloc(8, 0), lib.mk(share), slen, lib.mk(pwd), 12, lib.mk(salt), it) != ERR_OK:
                    raise Harness("bpkiShareWrap failed")
                cont = lib.rd(epki, n)
                usepwd = pwd if not badpwd else bytes([pwd[0] ^ 1]) + pwd[1:]
                out = lib.alloc(slen)
                v.args = [out, lib.alloc(8, 0), lib.mk(cont), n, lib.mk(usepwd), 12]
                v.outs = [(out, slen)]
                v.pub = [cont] + ([share] if not badpwd else [])
                v.needles = [usepwd] + ([share] if badpwd else [])
        return c
    return build


def _bpki_wrongtype(share_unwrap):
    """the right password on a well-formed container of the *other* kind: the ERR_BAD_FORMAT exit that is reached after the
    payload has been decrypted (bpkiShareUnwrap on a private-key container and vice versa)"""
    def build(lib, rng, size):
        salt = rb(rng, 8)
        it = 10000
        fn = "bpkiShareUnwrap" if share_unwrap else "bpkiPrivkeyUnwrap"
        c = Call(fn + ":other-container", getattr(lib, fn), "payload-of-the-other-kind")
        c.expect_ok = False
        for v in c.v:
            pwd = rb(rng, 12)
            if share_unwrap:
                plen = rng.choice([32, 48, 64])
                payload = rb(rng, plen)
                wrap = lib.bpkiPrivkeyWrap
            else:
                plen = rng.choice([17, 25, 33])
                payload = bytes([rng.randrange(1, 17)]) + rb(rng, plen - 1)
                wrap = lib.bpkiShareWrap
            ln = lib.alloc(8, 0)
            if wrap(0, ln, lib.mk(payload), plen, lib.mk(pwd), 12, lib.mk(salt), it) != ERR_OK:
                raise Harness("bpki wrap size probe failed")
            n = lib.rd_size(ln)
            epki = lib.alloc(n)
            if wrap(epki, lib.alloc(8, 0), lib.mk(payload), plen, lib.mk(pwd), 12, lib.mk(salt), it) != ERR_OK:
                raise Harness("bpki wrap failed")
            cont = lib.rd(epki, n)
            out = lib.alloc(64)
            v.args = [out, lib.alloc(8, 0), lib.mk(cont), n, lib.mk(pwd), 12]
            v.outs = [(out, 64)]
            v.pub = [cont]
            v.needles = [pwd, payload]
        return c
    return build


def _bpki_csr_rewrap(lib, rng, size):
    from .c09_contracts import CSR_HEX       # the request of bpki_test.c
    csr0 = bytes.fromhex(CSR_HEX)
    c = Call("bpkiCSRRewrap", lib.bpkiCSRRewrap)
    _, q = bign_params(lib, 128)
    for v in c.v:
        d = rand_priv(rng, q, 128)
        p = lib.mk(csr0)
        v.args = [p, len(csr0), lib.mk(d), 32]
        v.outs = [(p, len(csr0))]            # the request is rewritten in place (new public key, new signature)
        v.pub = [csr0]
        v.needles = [d]
    return c


# ---- btok: CV certificates ------------------------------------------------------------------------------------------

def _cvc_l(klen):
    return {24: 96, 32: 128, 48: 192, 64: 256}[klen]


def _cvc_key(lib, rng, klen):
    _, q = _params_any(lib, _cvc_l(klen))
    d = rng.randrange(1, q).to_bytes(klen, "little")
    return d, _pubkey_of(lib, _cvc_l(klen), d)


def _cvc_names(rng):
    from . import c17
    return c17.rname(rng, rng.randrange(8, 13)), c17.rname(rng, rng.randrange(8, 13))


def _cvc_self(lib, d, name, dates):
    """self-signed certificate of the key d"""
    from . import c17
    code, cert, _ = c17.wrap(lib, {"authority": name, "holder": name, "from": dates[0], "until": dates[1]}, d)
    if code != 0:
        raise Harness("btokCVCWrap (self-signed) failed: %d" % code)
    return cert


def _btok_cvc_wrap(lib, rng, size):
    from . import c17
    klen = rng.choice([24, 32, 48, 64])
    auth, holder = _cvc_names(rng)
    dates = (c17.ymd(22, 7, 7), c17.ymd(29, 7, 7))
    proof = rng.random() < 0.5            # pubkey_len == 0: the public key is built from privkey (proof of possession)
    hk = rng.choice([24, 32, 48, 64])
    _, hpub = _cvc_key(lib, rng, hk)      # otherwise: the holder's public key, the same in both twins
    content = {"authority": auth, "holder": holder, "from": dates[0], "until": dates[1], "hat_eid": rb(rng, 5), "hat_esign": rb(rng, 2)}
    if not proof:
        content["pubkey"] = hpub
    c = Call("btokCVCWrap", lib.btokCVCWrap)
    for v in c.v:
        d, _ = _cvc_key(lib, rng, klen)
        pl = lib.alloc(8, 0)
        if lib.btokCVCWrap(0, pl, c17.mk_cvc(lib, content), lib.mk(d), klen) != ERR_OK:
            raise Harness("btokCVCWrap length probe failed")
        n = lib.rd_size(pl)
        cert, pc = lib.alloc(n), c17.mk_cvc(lib, content)
        v.args = [cert, lib.alloc(8, 0), pc, lib.mk(d), klen]
        v.outs = [(cert, n), (pc, c17.CVC_SIZE)]       # certificate; the content structure receives the signature (and the key)
        v.pub = [lib.rd(pc, c17.CVC_SIZE)]
        v.needles = [d]
    return c


def _btok_cvc_iss(lib, rng, size):
    from . import c17
    klen = rng.choice([24, 32, 48, 64])
    auth, holder = _cvc_names(rng)
    hk = rng.choice([24, 32, 48, 64])
    _, hpub = _cvc_key(lib, rng, hk)
    content = {"authority": auth, "holder": holder, "pubkey": hpub, "from": c17.ymd(23, 1, 1), "until": c17.ymd(27, 12, 31),
               "hat_eid": rb(rng, 5), "hat_esign": rb(rng, 2)}
    c = Call("btokCVCIss", lib.btokCVCIss)
    for v in c.v:
        da, _ = _cvc_key(lib, rng, klen)
        certa = _cvc_self(lib, da, auth, (c17.ymd(22, 7, 7), c17.ymd(29, 7, 7)))
        pl = lib.alloc(8, 0)
        if lib.btokCVCIss(0, pl, c17.mk_cvc(lib, content), lib.mk(certa), len(certa), lib.mk(da), klen) != ERR_OK:
            raise Harness("btokCVCIss length probe failed")
        n = lib.rd_size(pl)
        cert, pc = lib.alloc(n), c17.mk_cvc(lib, content)
        v.args = [cert, lib.alloc(8, 0), pc, lib.mk(certa), len(certa), lib.mk(da), klen]
        v.outs = [(cert, n), (pc, c17.CVC_SIZE)]
        v.pub = [lib.rd(pc, c17.CVC_SIZE), certa]      # the issuer's certificate carries the public key matching the secret
        v.needles = [da]
    return c


def _btok_cvc_match(bad=False):
    def build(lib, rng, size):
        from . import c17
        klen = rng.choice([24, 32, 48, 64])
        name, _ = _cvc_names(rng)
        dates = (c17.ymd(22, 7, 7), c17.ymd(29, 7, 7))
        d3, _ = _cvc_key(lib, rng, klen)
        other = _cvc_self(lib, d3, name, dates)            # somebody else's certificate, the same in both twins
        c = Call("btokCVCMatch" + (":bad-keypair" if bad else ""), lib.btokCVCMatch, "bad-keypair" if bad else "ok")
        c.expect_ok = not bad
        for v in c.v:
            d, _ = _cvc_key(lib, rng, klen)
            cert = other if bad else _cvc_self(lib, d, name, dates)
            v.args = [lib.mk(cert), len(cert), lib.mk(d), klen]
            v.pub = [cert]
            v.needles = [d]
        return c
    return build


# ---- pfok (test parameters, l = 638) -------------------------------------------------------------------------------

def _pfok(lib):
    P = _CACHE.get((id(lib), "pfok"))
    if P is None:
        from ..ref import pfok as PF
        P = _CACHE[(id(lib), "pfok")] = PF.load_params(lib, "test")
    return P


def _pfok_pub(lib, P, x):
    pub = lib.alloc(P.no)
    if lib.pfokPubkeyCalc(pub, lib.mk(P.raw), lib.mk(x)) != ERR_OK:
        raise Harness("pfokPubkeyCalc failed")
    return lib.rd(pub, P.no)


def _pfok_priv(P, rng):
    return rng.getrandbits(P.r).to_bytes(P.mo, "little")


def _pfok_keygen(lib, rng, size):
    P = _pfok(lib)
    c = Call("pfokKeypairGen", lib.pfokKeypairGen)
    for v in c.v:
        priv, pub = lib.alloc(P.mo), lib.alloc(P.no)
        k = rb(rng, 32)
        v.args = [priv, pub, lib.mk(P.raw), lib.addr(_brng()), rng_state(lib, random.Random(47), key=k)]
        v.outs = [(priv, P.mo), (pub, P.no)]
        v.needles = [k]
    return c


def _pfok_pubcalc(lib, rng, size):
    P = _pfok(lib)
    c = Call("pfokPubkeyCalc", lib.pfokPubkeyCalc)
    for v in c.v:
        x = _pfok_priv(P, rng)
        pub = lib.alloc(P.no)
        v.args = [pub, lib.mk(P.raw), lib.mk(x)]
        v.outs = [(pub, P.no)]
        v.needles = [x]
    return c


def _pfok_dh(lib, rng, size):
    P = _pfok(lib)
    yb = _pfok_pub(lib, P, _pfok_priv(P, rng))
    c = Call("pfokDH", lib.pfokDH)
    for v in c.v:
        x = _pfok_priv(P, rng)
        key = lib.alloc(P.ko)
        v.args = [key, lib.mk(P.raw), lib.mk(x), lib.mk(yb)]
        v.outs = [(key, P.ko)]       # shared key handed to the caller
        v.pub = [yb]
        v.needles = [x]
    return c


def _pfok_mti(lib, rng, size):
    P = _pfok(lib)
    yb, vb = _pfok_pub(lib, P, _pfok_priv(P, rng)), _pfok_pub(lib, P, _pfok_priv(P, rng))
    c = Call("pfokMTI", lib.pfokMTI)
    for v in c.v:
        x, u = _pfok_priv(P, rng), _pfok_priv(P, rng)
        key = lib.alloc(P.ko)
        v.args = [key, lib.mk(P.raw), lib.mk(x), lib.mk(u), lib.mk(yb), lib.mk(vb)]
        v.outs = [(key, P.ko)]
        v.pub = [yb, vb]
        v.needles = [x, u]
    return c


# ---- g12s ----------------------------------------------------------------------------------------------------------------

G12S_NAMES = ("1.2.643.2.2.35.1", "1.2.643.7.1.2.1.2.1")


def _g12s(lib, name):
    P = _CACHE.get((id(lib), "g12s", name))
    if P is None:
        from ..ref import g12s as G
        P = _CACHE[(id(lib), "g12s", name)] = G.load_params(lib, name)
    return P


def _g12s_sign(lib, rng, size):
    P = _g12s(lib, rng.choice(G12S_NAMES))
    h = rb(rng, P.mo)
    c = Call("g12sSign", lib.g12sSign)
    for v in c.v:
        d = rng.randrange(1, P.q).to_bytes(P.mo, "little")
        sig = lib.alloc(2 * P.mo)
        v.args = [sig, lib.mk(P.raw), lib.mk(h), lib.mk(d), lib.addr(_brng()), rng_state(lib, random.Random(53))]
        v.outs = [(sig, 2 * P.mo)]
        v.pub = [h]
        v.needles = [d]
    return c


def _g12s_keygen(lib, rng, size):
    P = _g12s(lib, rng.choice(G12S_NAMES))
    c = Call("g12sKeypairGen", lib.g12sKeypairGen)
    for v in c.v:
        priv, pub = lib.alloc(P.mo), lib.alloc(2 * P.no)
        k = rb(rng, 32)
        v.args = [priv, pub, lib.mk(P.raw), lib.addr(_brng()), rng_state(lib, random.Random(59), key=k)]
        v.outs = [(priv, P.mo), (pub, 2 * P.no)]
        v.needles = [k]
    return c


# ---- dstu ----------------------------------------------------------------------------------------------------------------

DSTU_NAMES = ("1.2.804.2.1.1.1.1.3.1.1.1.2.0", "1.2.804.2.1.1.1.1.3.1.1.1.2.3")


def dstu_params(lib, name):
    """standard curve with a base point made by dstuPointGen on a fixed tape (DSTU defines no standard base points)"""
    P = _CACHE.get((id(lib), "dstu", name))
    if P is None:
        from ..ref import dstu as D
        P0 = D.load_params(lib, name)
        pt = lib.alloc(2 * P0.no)
        pp = lib.mk(P0.raw)
        st = rng_state(lib, random.Random("dstu base point " + name))
        if lib.dstuPointGen(pt, pp, lib.addr(_brng()), st) != ERR_OK:
            raise Harness("dstuPointGen failed")
        P = _CACHE[(id(lib), "dstu", name)] = P0.with_point(lib.rd(pt, 2 * P0.no))
    return P


def _dstu_priv(P, rng):
    # 6.3: a scalar is kept to bitlen(n) - 1 bits, non-zero
    return rng.randrange(1, 1 << (P.nb - 1)).to_bytes(P.order_no, "little")


def _dstu_sign(lib, rng, size):
    P = dstu_params(lib, rng.choice(DSTU_NAMES))
    h = rb(rng, rng.choice([20, 32, 64]))
    ld = 16 * P.order_no
    c = Call("dstuSign", lib.dstuSign)
    for v in c.v:
        d = _dstu_priv(P, rng)
        sig = lib.alloc(ld // 8)
        v.args = [sig, lib.mk(P.raw), ld, lib.mk(h), len(h), lib.mk(d), lib.addr(_brng()), rng_state(lib, random.Random(61))]
        v.outs = [(sig, ld // 8)]
        v.pub = [h]
        v.needles = [d]
    return c


def _dstu_keygen(lib, rng, size):
    P = dstu_params(lib, rng.choice(DSTU_NAMES))
    c = Call("dstuKeypairGen", lib.dstuKeypairGen)
    for v in c.v:
        priv, pub = lib.alloc(P.order_no), lib.alloc(2 * P.no)
        k = rb(rng, 32)
        v.args = [priv, pub, lib.mk(P.raw), lib.addr(_brng()), rng_state(lib, random.Random(67), key=k)]
        v.outs = [(priv, P.order_no), (pub, 2 * P.no)]
        v.needles = [k]
    return c


# ---- bake helpers -----------------------------------------------------------------------------------------------------

def _bake_kdf(lib, rng, size):
    slen = max(8, size)
    iv = rb(rng, rng.choice([0, 16, 37]))
    num = rng.choice([0, 1, 2, 0xFFFF])
    c = Call("bakeKDF", lib.bakeKDF)
    for v in c.v:
        secret = rb(rng, slen)
        hp = lib.alloc(32)
        lib.beltHash(hp, lib.mk(secret + iv), slen + len(iv))
        key = lib.alloc(32)
        v.args = [key, lib.mk(secret), slen, lib.mk(iv), len(iv), num]
        v.outs = [(key, 32)]          # derived key handed to the caller
        v.pub = [iv]
        v.needles = [secret, lib.rd(hp, 32)]      # and the intermediate key belt-hash(secret || iv) that belt-krp is started on
    return c


def _bake_swu(lib, rng, size):
    l = rng.choice([128, 192, 256])
    c = Call("bakeSWU", lib.bakeSWU)
    for v in c.v:
        params, _ = bign_params(lib, l)
        msg = rb(rng, l // 4)        # in BPACE: the decrypted random contribution, a function of the password
        pt = lib.alloc(l // 2)
        v.args = [pt, params, lib.mk(msg)]
        v.outs = [(pt, l // 2)]
        v.needles = [msg]
    return c


_ROUND2 = {
    "beltFMTDecr": _fmt_decr,
    "belsShare2": _bels_share23(False), "belsShare3": _bels_share23(True), "belsRecover2": _bels_recover2,
    "botpHOTPVerify": _otp_verify("HOTP"), "botpHOTPVerify:bad": _otp_verify("HOTP", True),
    "botpTOTPVerify": _otp_verify("TOTP"), "botpTOTPVerify:bad": _otp_verify("TOTP", True),
    "botpOCRAVerify": _otp_verify("OCRA"), "botpOCRAVerify:bad": _otp_verify("OCRA", True),
    "bakeKDF": _bake_kdf,
}
_ROUND2_HEAVY = {
    "bign96Sign": _bign96_sign(False), "bign96Sign2": _bign96_sign(True), "bign96KeypairGen": _bign96_keygen,
    "bign96PubkeyCalc": _bign96_pubcalc, "bign96KeypairVal": _keypair_val(True), "bign96KeypairVal:bad": _keypair_val(True, True),
    "bignKeypairVal": _keypair_val(False), "bignKeypairVal:bad": _keypair_val(False, True),
    "bignIdExtract": _bign_id_extract, "bignIdSign": _bign_id_sign(False), "bignIdSign2": _bign_id_sign(True),
    "bpkiShareWrap": _bpki_share(False), "bpkiShareUnwrap": _bpki_share(True), "bpkiShareUnwrap:bad": _bpki_share(True, True),
    "bignSign:badpriv": _bad_privkey(_bign_sign(False), "bignSign"), "bignSign2:badpriv": _bad_privkey(_bign_sign(True), "bignSign2"),
    "bign96Sign:badpriv": _bad_privkey(_bign96_sign(False), "bign96Sign"), "bign96Sign2:badpriv": _bad_privkey(_bign96_sign(True), "bign96Sign2"),
    "bpkiShareUnwrap:other": _bpki_wrongtype(True), "bpkiPrivkeyUnwrap:other": _bpki_wrongtype(False),
    "bpkiCSRRewrap": _bpki_csr_rewrap,
    "btokCVCWrap": _btok_cvc_wrap, "btokCVCIss": _btok_cvc_iss,
    "btokCVCMatch": _btok_cvc_match(), "btokCVCMatch:bad": _btok_cvc_match(True),
    "pfokKeypairGen": _pfok_keygen, "pfokPubkeyCalc": _pfok_pubcalc, "pfokDH": _pfok_dh, "pfokMTI": _pfok_mti,
    "g12sSign": _g12s_sign, "g12sKeypairGen": _g12s_keygen,
    "dstuSign": _dstu_sign, "dstuKeypairGen": _dstu_keygen,
    "bakeSWU": _bake_swu,
}
BUILDERS.update(_ROUND2)
BUILDERS.update(_ROUND2_HEAVY)
HEAVY.update(_ROUND2_HEAVY)


# ---------------------------------------------------------------------------------------------------------------
# the "generator is stuck" exit: the same calls with a gen_i that returns FF..FF for ever, so that the rejection
# sampling of the one-time / private key gives up (ERR_BAD_RNG) after the state holding the long-term secret was built
import ctypes as _ct

_GEN_T = _ct.CFUNCTYPE(None, _ct.c_void_p, _ct.c_size_t, _ct.c_void_p)


def _stuck_gen(buf, count, state):
    if count:
        _ct.memset(buf, 0xFF, count)


_stuck_c = _GEN_T(_stuck_gen)
STUCK_ADDR = _ct.cast(_stuck_c, _ct.c_void_p).value


def _stuck(base):
    def build(lib, rng, size):
        c = BUILDERS[base](lib, rng, size)
        good = lib.addr("brngCTRStepR")
        n = 0
        for v in c.v:
            for i, a in enumerate(v.args):
                if isinstance(a, int) and a == good:
                    v.args[i] = STUCK_ADDR
                    n += 1
        if n != 2:
            raise Harness("%s: generator argument not found" % base)
        c.name = base + ":stuck-rng"
        c.expect_ok = False
        c.exit_class = "stuck-generator"
        return c
    return build


# (dstu, pfok and bels mask / reduce the generator output instead of rejecting it: FF..FF is an admissible draw there)
for _b in ("bignSign", "bignKeypairGen", "bignKeyWrap", "bign96Sign", "bign96KeypairGen", "g12sSign", "g12sKeypairGen", "bignIdSign"):
    if _b in BUILDERS:
        BUILDERS[_b + ":stuck-rng"] = _stuck(_b)
        if _b in HEAVY:
            HEAVY.add(_b + ":stuck-rng")


# ---------------------------------------------------------------------------------------------------------------
# step functions that allocate although the protocol state is the caller's: bakeBSTSStep4 / Step5 and btokBAuthTStep5
# decrypt the peer's (signature part || certificate) into a blob.  Both parties are driven step by step up to the call.

def _proto_step(proto, step, mode="ok"):
    name = {"BSTS4": "bakeBSTSStep4", "BSTS5": "bakeBSTSStep5", "BAUTH5": "btokBAuthTStep5"}[proto + step] + \
           ("" if mode == "ok" else ":" + mode)

    def build(lib, rng, size):
        from . import c04
        env = _BAKE_ENV.get(id(lib))
        if env is None:
            env = _BAKE_ENV[id(lib)] = c04.Env(lib)
        c04._TAPES.clear()
        del c04._CB_ERR[:]
        l = 128
        no = l // 4
        n = rng.getrandbits(16)
        c = Call(name, getattr(lib, name.split(":")[0]))
        c.expect_ok = mode == "ok"
        c.exit_class = {"ok": "ok", "badtag": "bad-peer-tag", "refused": "certificate-refused"}[mode]
        cur = env.curve(l)

        def must(code, what):
            if code != 0 or c04._CB_ERR:
                raise Harness("%s: %s failed (%r, %r)" % (name, what, code, c04._CB_ERR))

        for v in c.v:
            cfg = c04.base_cfg(proto, l, 1, 1, n, ks=rng.getrandbits(30))
            P = c04.build(env, cfg)
            A, B = P["A"], P["B"]
            cv = c04.CV["reject"] if mode == "refused" else None
            if proto == "BSTS":
                sa, sb = lib.alloc(lib.bakeBSTS_keep(l)), lib.alloc(lib.bakeBSTS_keep(l))
                must(lib.bakeBSTSStart(sa, A.params, A.settings, A.privkey, A.cert), "A.Start")
                must(lib.bakeBSTSStart(sb, B.params, B.settings, B.privkey, B.cert), "B.Start")
                m1 = lib.alloc(2 * no)
                must(lib.bakeBSTSStep2(m1, sb), "B.Step2")
                n2 = 3 * no + A.cert_len + 8
                m2 = lib.alloc(n2)
                must(lib.bakeBSTSStep3(m2, m1, sa), "A.Step3")
                n3 = no + B.cert_len + 8
                m3 = lib.alloc(n3)
                if step == "4":
                    msg = lib.rd(m2, n2)
                    if mode == "badtag":
                        msg = msg[:-1] + bytes([msg[-1] ^ 0x40])
                    v.args = [m3, lib.mk(msg), n2, cv or B.cv_peer, sb]
                    v.outs = [(m3, n3)]
                    v.pub = [lib.rd(m1, 2 * no), msg]
                    v.needles = [env.keypair(l, "B", cfg["ks"])[0]]
                else:
                    must(lib.bakeBSTSStep4(m3, m2, n2, B.cv_peer, sb), "B.Step4")
                    msg = lib.rd(m3, n3)
                    if mode == "badtag":
                        msg = msg[:-1] + bytes([msg[-1] ^ 0x40])
                    v.args = [lib.mk(msg), n3, cv or A.cv_peer, sa]
                    v.outs = []
                    v.pub = [lib.rd(m1, 2 * no), lib.rd(m2, n2), msg]
                    v.needles = [env.keypair(l, "A", cfg["ks"])[0]]
            else:       # BAUTH: A = terminal, B = token
                sa, sb = lib.alloc(lib.btokBAuthT_keep(l)), lib.alloc(lib.btokBAuthCT_keep(l))
                must(lib.btokBAuthTStart(sa, A.params, A.settings, A.privkey, A.cert), "T.Start")
                must(lib.btokBAuthCTStart(sb, B.params, B.settings, B.privkey, B.cert), "CT.Start")
                n1 = 2 * no + no // 2 + 16
                m1 = lib.alloc(n1)
                must(lib.btokBAuthCTStep2(m1, B.peer_cert, sb), "CT.Step2")
                n2 = 8 + 16
                m2 = lib.alloc(n2)
                must(lib.btokBAuthTStep3(m2, m1, sa), "T.Step3")
                n3 = 8 + no + B.cert_len
                m3 = lib.alloc(n3)
                must(lib.btokBAuthCTStep4(m3, m2, sb), "CT.Step4")
                msg = lib.rd(m3, n3)
                if mode == "badtag":
                    msg = msg[:-1] + bytes([msg[-1] ^ 0x40])
                v.args = [lib.mk(msg), n3, cv or A.cv_peer, sa]
                v.outs = []
                v.pub = [lib.rd(m1, n1), lib.rd(m2, n2), msg]
                v.needles = [env.keypair(l, "A", cfg["ks"])[0]]
        return c
    return build


for _pr, _st in (("BSTS", "4"), ("BSTS", "5"), ("BAUTH", "5")):
    for _md in ("ok", "badtag", "refused"):
        _b = _proto_step(_pr, _st, _md)
        _nm = {"BSTS4": "bakeBSTSStep4", "BSTS5": "bakeBSTSStep5", "BAUTH5": "btokBAuthTStep5"}[_pr + _st] + ("" if _md == "ok" else ":" + _md)
        BUILDERS[_nm] = _b
        HEAVY.add(_nm)
