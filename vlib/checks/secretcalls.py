"""Table of err_t-returning high-level functions that take a secret, used by C15 (wipe before free, twin runs)
and by the allocation-failure half of C09.

A builder returns a Call: the function, and for each of two secret variants (A, B) a fully prepared argument list
on exact-size heap buffers (allocated in the parent, before any fork, so that both twins start from the same heap),
the public output regions, the public inputs and the secret needles."""
import random
from ..core import Harness

ERR_OK = 0
BIGN_OIDS = {128: "1.2.112.0.2.0.34.101.45.3.1", 192: "1.2.112.0.2.0.34.101.45.3.2", 256: "1.2.112.0.2.0.34.101.45.3.3"}
BIGN_PARAMS_SIZE = 8 + 5 * 64 + 8
OID_DER_BELT_HASH = bytes.fromhex("06092A7000020022651F51")


def rb(rng, n):
    return bytes(rng.getrandbits(8) for _ in range(n))


class Variant:
    def __init__(self):
        self.args, self.outs, self.needles, self.pub = [], [], [], []


class Call:
    def __init__(self, name, fn, exit_class="ok"):
        self.name, self.fn, self.exit_class = name, fn, exit_class
        self.v = [Variant(), Variant()]
        self.expect_ok = True


def expand_key(key):
    if len(key) == 32:
        return key
    if len(key) == 16:
        return key + key
    w = [int.from_bytes(key[4 * i:4 * i + 4], "little") for i in range(6)]
    w.append(w[0] ^ w[1] ^ w[2])
    w.append(w[3] ^ w[4] ^ w[5])
    return b"".join(x.to_bytes(4, "little") for x in w)


# ---------------------------------------------------------------------------------------------------------------

def _belt_mode(fn, minc, step, with_iv=True):
    def build(lib, rng, size):
        count = max(minc, size)
        count -= count % step
        klen = rng.choice([16, 24, 32])
        msg, iv = rb(rng, count), rb(rng, 16)
        c = Call(fn, getattr(lib, fn))
        for v in c.v:
            key = rb(rng, klen)
            d = lib.alloc(count)
            v.args = [d, lib.mk(msg), count, lib.mk(key), klen] + ([lib.mk(iv)] if with_iv else [])
            v.outs = [(d, count)]
            v.pub = [msg, iv]
            v.needles = [key, expand_key(key)]
        return c
    return build


def _belt_mac(fn, outlen, hmac=False):
    def build(lib, rng, size):
        klen = rng.choice([16, 24, 32]) if not hmac else rng.choice([16, 32, 40, 64])
        msg = rb(rng, size)
        c = Call(fn, getattr(lib, fn))
        for v in c.v:
            key = rb(rng, klen)
            d = lib.alloc(outlen)
            v.args = [d, lib.mk(msg), size, lib.mk(key), klen]
            v.outs = [(d, outlen)]
            v.pub = [msg]
            v.needles = [key] + ([expand_key(key)] if not hmac else [])
        return c
    return build


def _aead(name, unwrap=False, bad=False):
    def build(lib, rng, size):
        klen = rng.choice([16, 24, 32])
        msg, ad, iv = rb(rng, size), rb(rng, 24), rb(rng, 16)
        fn = "belt%s%s" % (name, "Unwrap" if unwrap else "Wrap")
        c = Call(fn + (":bad-mac" if bad else ""), getattr(lib, fn), "bad-mac" if bad else "ok")
        c.expect_ok = not bad
        for v in c.v:
            key = rb(rng, klen)
            if not unwrap:
                d, m = lib.alloc(size), lib.alloc(8)
                v.args = [d, m, lib.mk(msg), size, lib.mk(ad), 24, lib.mk(key), klen, lib.mk(iv)]
                v.outs = [(d, size), (m, 8)]
                v.pub = [msg, ad, iv]
            else:
                d, m = lib.alloc(size), lib.alloc(8)
                if getattr(lib, "belt%sWrap" % name)(d, m, lib.mk(msg), size, lib.mk(ad), 24, lib.mk(key), klen, lib.mk(iv)) != ERR_OK:
                    raise Harness("wrap failed")
                ct, mac = lib.rd(d, size), lib.rd(m, 8)
                if bad:
                    mac = bytes([mac[0] ^ 1]) + mac[1:]
                o = lib.alloc(size)
                v.args = [o, lib.mk(ct), size, lib.mk(ad), 24, lib.mk(mac), lib.mk(key), klen, lib.mk(iv)]
                v.outs = [(o, size)]
                v.pub = [ct, ad, iv, mac, msg]
            v.needles = [key, expand_key(key)]
        return c
    return build


def _kwp(unwrap=False, bad=False):
    def build(lib, rng, size):
        size = max(16, size)
        klen = rng.choice([16, 24, 32])
        hdr = rb(rng, 16)
        c = Call("beltKWP" + ("Unwrap" if unwrap else "Wrap") + (":bad-token" if bad else ""),
                 lib.beltKWPUnwrap if unwrap else lib.beltKWPWrap, "bad-token" if bad else "ok")
        c.expect_ok = not bad
        for v in c.v:
            key, payload = rb(rng, klen), rb(rng, size)
            if not unwrap:
                d = lib.alloc(size + 16)
                v.args = [d, lib.mk(payload), size, lib.mk(hdr), lib.mk(key), klen]
                v.outs = [(d, size + 16)]
                v.pub = [hdr]
                v.needles = [key, expand_key(key), payload]
            else:
                d = lib.alloc(size + 16)
                if lib.beltKWPWrap(d, lib.mk(payload), size, lib.mk(hdr), lib.mk(key), klen) != ERR_OK:
                    raise Harness("kwp wrap failed")
                tok = lib.rd(d, size + 16)
                if bad:
                    tok = tok[:-1] + bytes([tok[-1] ^ 1])
                o = lib.alloc(size)
                v.args = [o, lib.mk(tok), size + 16, lib.mk(hdr), lib.mk(key), klen]
                # the unwrapped key is returned to the caller: it is an output, hence not a needle on success
                v.outs = [(o, size)]
                v.pub = [hdr, tok] + ([payload] if not bad else [])
                v.needles = [key, expand_key(key)] + ([payload] if bad else [])
        return c
    return build


def _fmt(lib, rng, size):
    count = max(2, min(size // 2, 60))
    mod = rng.choice([10, 256, 1000, 65536])
    klen = rng.choice([16, 24, 32])
    src = b"".join(rng.randrange(mod).to_bytes(2, "little") for _ in range(count))
    iv = rb(rng, 16)
    c = Call("beltFMTEncr", lib.beltFMTEncr)
    for v in c.v:
        key = rb(rng, klen)
        d = lib.alloc(2 * count)
        v.args = [d, mod, lib.mk(src), count, lib.mk(key), klen, lib.mk(iv)]
        v.outs = [(d, 2 * count)]
        v.pub = [src, iv]
        v.needles = [key, expand_key(key)]
    return c


def _krp(lib, rng, size):
    n = rng.choice([16, 24, 32])
    m = rng.choice([x for x in (16, 24, 32) if x <= n])
    level, hdr = rb(rng, 12), rb(rng, 16)
    c = Call("beltKRP", lib.beltKRP)
    for v in c.v:
        key = rb(rng, n)
        d = lib.alloc(m)
        v.args = [d, m, lib.mk(key), n, lib.mk(level), lib.mk(hdr)]
        v.outs = [(d, m)]      # derived key handed to the caller
        v.pub = [level, hdr]
        v.needles = [key, expand_key(key)]
    return c


def _pbkdf2(lib, rng, size):
    salt = rb(rng, 8)
    it = rng.choice([1, 3, 10])
    c = Call("beltPBKDF2", lib.beltPBKDF2)
    for v in c.v:
        pwd = rb(rng, max(1, size % 40 + 8))
        d = lib.alloc(32)
        v.args = [d, lib.mk(pwd), len(pwd), it, lib.mk(salt), 8]
        v.outs = [(d, 32)]
        v.pub = [salt]
        v.needles = [pwd]
    return c


def _brng_ctr(lib, rng, size):
    n = max(1, size)
    iv = rb(rng, 32)
    c = Call("brngCTRRand", lib.brngCTRRand)
    for v in c.v:
        key = rb(rng, 32)
        d = lib.mk(bytes(n))
        ivp = lib.mk(iv)
        v.args = [d, n, lib.mk(key), ivp]
        v.outs = [(d, n), (ivp, 32)]
        v.pub = [iv]
        v.needles = [key]
    return c


def _brng_hmac(lib, rng, size):
    n = max(1, size)
    iv = rb(rng, rng.choice([0, 16, 64, 80]))
    c = Call("brngHMACRand", lib.brngHMACRand)
    for v in c.v:
        key = rb(rng, rng.choice([16, 32, 48]) if False else 32)
        d = lib.alloc(n)
        v.args = [d, n, lib.mk(key), 32, lib.mk(iv), len(iv)]
        v.outs = [(d, n)]
        v.pub = [iv]
        v.needles = [key]
    return c


def _hotp(lib, rng, size):
    digit = rng.choice([6, 7, 8])
    ctr = rb(rng, 8)
    c = Call("botpHOTPRand", lib.botpHOTPRand)
    for v in c.v:
        key = rb(rng, 32)
        d = lib.alloc(digit + 1)
        v.args = [d, digit, lib.mk(key), 32, lib.mk(ctr)]
        v.outs = [(d, digit + 1)]
        v.pub = [ctr]
        v.needles = [key]
    return c


def _totp(lib, rng, size):
    digit = rng.choice([6, 7, 8])
    t = rng.getrandbits(34)
    c = Call("botpTOTPRand", lib.botpTOTPRand)
    for v in c.v:
        key = rb(rng, 32)
        d = lib.alloc(digit + 1)
        v.args = [d, digit, lib.mk(key), 32, t]
        v.outs = [(d, digit + 1)]
        v.needles = [key]
    return c


def _ocra(lib, rng, size):
    suite = "OCRA-1:HOTP-HBELT-8:C-QN08-PHBELT-S032-T30S"
    q, ctr, p, s = b"12345678", rb(rng, 8), rb(rng, 32), rb(rng, 32)
    t = rng.getrandbits(30)
    c = Call("botpOCRARand", lib.botpOCRARand)
    for v in c.v:
        key = rb(rng, 32)
        d = lib.alloc(9)
        v.args = [d, lib.cstr(suite), lib.mk(key), 32, lib.mk(q), 8, lib.mk(ctr), lib.mk(p), lib.mk(s), t]
        v.outs = [(d, 9)]
        v.pub = [q, ctr, p, s]
        v.needles = [key]
    return c


# ---- bign ------------------------------------------------------------------------------------------------------

def bign_params(lib, l):
    p = lib.alloc(BIGN_PARAMS_SIZE, 0)
    if lib.bignParamsStd(p, lib.cstr(BIGN_OIDS[l])) != ERR_OK:
        raise Harness("bignParamsStd failed")
    raw = lib.rd(p, BIGN_PARAMS_SIZE)
    q = int.from_bytes(raw[8 + 192:8 + 192 + l // 4], "little")
    return p, q


def rng_state(lib, rng, key=None):
    st = lib.alloc(lib.brngCTR_keep())
    lib.brngCTRStart(st, lib.mk(key or rb(rng, 32)), lib.mk(rb(rng, 32)))
    return st


def rand_priv(rng, q, l):
    return rng.randrange(1, q).to_bytes(l // 4, "little")


def _bign_sign(det):
    def build(lib, rng, size):
        l = rng.choice([128, 192, 256])
        h = rb(rng, l // 4)
        name = "bignSign2" if det else "bignSign"
        c = Call(name, getattr(lib, name))
        for v in c.v:
            params, q = bign_params(lib, l)
            d = rand_priv(rng, q, l)
            sig = lib.alloc(3 * l // 8)
            if det:
                v.args = [sig, params, lib.mk(OID_DER_BELT_HASH), len(OID_DER_BELT_HASH), lib.mk(h), lib.mk(d), 0, 0]
            else:
                v.args = [sig, params, lib.mk(OID_DER_BELT_HASH), len(OID_DER_BELT_HASH), lib.mk(h), lib.mk(d),
                          lib.addr("brngCTRStepR"), rng_state(lib, random.Random(7))]
            v.outs = [(sig, 3 * l // 8)]
            v.pub = [h]
            v.needles = [d]
        return c
    return build


def _bign_keygen(lib, rng, size):
    l = rng.choice([128, 192, 256])
    c = Call("bignKeypairGen", lib.bignKeypairGen)
    for v in c.v:
        params, q = bign_params(lib, l)
        priv, pub = lib.alloc(l // 4), lib.alloc(l // 2)
        k = rb(rng, 32)
        v.args = [priv, pub, params, lib.addr("brngCTRStepR"), rng_state(lib, random.Random(3), key=k)]
        # the private key is returned to the caller (an output); the generator key is the secret input
        v.outs = [(priv, l // 4), (pub, l // 2)]
        v.needles = [k]
    return c


def _bign_pubcalc(lib, rng, size):
    l = rng.choice([128, 192, 256])
    c = Call("bignPubkeyCalc", lib.bignPubkeyCalc)
    for v in c.v:
        params, q = bign_params(lib, l)
        d = rand_priv(rng, q, l)
        pub = lib.alloc(l // 2)
        v.args = [pub, params, lib.mk(d)]
        v.outs = [(pub, l // 2)]
        v.needles = [d]
    return c


def _bign_dh(lib, rng, size):
    l = rng.choice([128, 192, 256])
    params0, q = bign_params(lib, l)
    peer_d = rand_priv(rng, q, l)
    peer_pub = lib.alloc(l // 2)
    if lib.bignPubkeyCalc(peer_pub, params0, lib.mk(peer_d)) != ERR_OK:
        raise Harness("pubkeycalc")
    peer = lib.rd(peer_pub, l // 2)
    klen = rng.choice([16, 32, l // 4, l // 2])
    c = Call("bignDH", lib.bignDH)
    for v in c.v:
        params, q = bign_params(lib, l)
        d = rand_priv(rng, q, l)
        key = lib.alloc(klen)
        v.args = [key, params, lib.mk(d), lib.mk(peer), klen]
        v.outs = [(key, klen)]      # shared key handed to the caller
        v.pub = [peer]
        v.needles = [d]
    return c


def _bign_keywrap(lib, rng, size):
    l = rng.choice([128, 192, 256])
    params0, q = bign_params(lib, l)
    rd = rand_priv(rng, q, l)
    rpub = lib.alloc(l // 2)
    lib.bignPubkeyCalc(rpub, params0, lib.mk(rd))
    pub = lib.rd(rpub, l // 2)
    klen = rng.choice([16, 24, 32, 48])
    hdr = rb(rng, 16)
    c = Call("bignKeyWrap", lib.bignKeyWrap)
    for v in c.v:
        params, _ = bign_params(lib, l)
        key = rb(rng, klen)
        tok = lib.alloc(klen + 16 + l // 4)
        v.args = [tok, params, lib.mk(key), klen, lib.mk(hdr), lib.mk(pub), lib.addr("brngCTRStepR"),
                  rng_state(lib, random.Random(11))]
        v.outs = [(tok, klen + 16 + l // 4)]
        v.pub = [hdr, pub]
        v.needles = [key]
    return c


def _bign_keyunwrap(bad, short=False):
    def build(lib, rng, size):
        l = rng.choice([128, 192, 256])
        klen = rng.choice([16, 24, 32, 48])
        hdr = rb(rng, 16)
        c = Call("bignKeyUnwrap" + (":short-token" if short else ":bad-token" if bad else ""), lib.bignKeyUnwrap,
                 "short-token" if short else "bad-token" if bad else "ok")
        c.expect_ok = not bad
        for v in c.v:
            params, q = bign_params(lib, l)
            d = rand_priv(rng, q, l)
            pubp = lib.alloc(l // 2)
            lib.bignPubkeyCalc(pubp, params, lib.mk(d))
            key = rb(rng, klen)
            tokp = lib.alloc(klen + 16 + l // 4)
            if lib.bignKeyWrap(tokp, params, lib.mk(key), klen, lib.mk(hdr), pubp, lib.addr("brngCTRStepR"),
                               rng_state(lib, random.Random(13))) != ERR_OK:
                raise Harness("bignKeyWrap failed")
            tok = lib.rd(tokp, klen + 16 + l // 4)
            if bad:
                tok = tok[:-1] + bytes([tok[-1] ^ 1])
            if short:
                tok = tok[:l // 4 + 31]      # one octet less than the minimal token: rejected after the state exists
            out = lib.alloc(klen)
            v.args = [out, params, lib.mk(tok), len(tok), lib.mk(hdr), lib.mk(d)]
            v.outs = [(out, klen)]
            v.pub = [hdr, tok] + ([key] if not bad else [])
            v.needles = [d] + ([key] if bad else [])
        return c
    return build


def _bels_share(lib, rng, size):
    ln = rng.choice([16, 24, 32])
    count = rng.randrange(2, 7)
    thr = rng.randrange(1, count + 1)
    m0 = lib.alloc(ln)
    lib.belsStdM(m0, ln, 0)
    mi = b""
    for i in range(1, count + 1):
        t = lib.alloc(ln)
        if lib.belsStdM(t, ln, i) != ERR_OK:
            raise Harness("belsStdM")
        mi += lib.rd(t, ln)
    m0b = lib.rd(m0, ln)
    c = Call("belsShare", lib.belsShare)
    for v in c.v:
        s = rb(rng, ln)
        si = lib.alloc(count * ln)
        v.args = [si, count, thr, ln, lib.mk(s), lib.mk(m0b), lib.mk(mi), lib.addr("brngCTRStepR"),
                  rng_state(lib, random.Random(17))]
        v.outs = [(si, count * ln)]      # the shares go to the caller
        v.pub = [m0b, mi]
        v.needles = [s]
    return c


def _bels_recover(lib, rng, size):
    ln = rng.choice([16, 24, 32])
    count = rng.randrange(2, 6)
    thr = rng.randrange(1, count + 1)
    m0 = lib.alloc(ln)
    lib.belsStdM(m0, ln, 0)
    m0b = lib.rd(m0, ln)
    mi = b""
    for i in range(1, count + 1):
        t = lib.alloc(ln)
        lib.belsStdM(t, ln, i)
        mi += lib.rd(t, ln)
    c = Call("belsRecover", lib.belsRecover)
    for v in c.v:
        s = rb(rng, ln)
        si = lib.alloc(count * ln)
        if lib.belsShare(si, count, thr, ln, lib.mk(s), lib.mk(m0b), lib.mk(mi), lib.addr("brngCTRStepR"),
                         rng_state(lib, random.Random(19))) != ERR_OK:
            raise Harness("belsShare failed")
        shares = lib.rd(si, count * ln)
        out = lib.alloc(ln)
        v.args = [out, thr, ln, lib.mk(shares[:thr * ln]), lib.mk(m0b), lib.mk(mi[:thr * ln])]
        v.outs = [(out, ln)]        # the recovered secret goes to the caller
        v.pub = [m0b, mi, s]
        v.needles = [shares[:ln]] if thr > 1 else []
    return c


def _bpki_privkey(unwrap, badpwd=False):
    def build(lib, rng, size):
        klen = rng.choice([32, 48, 64])
        salt = rb(rng, 8)
        it = 10000
        name = "bpkiPrivkey" + ("Unwrap" if unwrap else "Wrap") + (":bad-pwd" if badpwd else "")
        c = Call(name, lib.bpkiPrivkeyUnwrap if unwrap else lib.bpkiPrivkeyWrap, "bad-pwd" if badpwd else "ok")
        c.expect_ok = not badpwd
        for v in c.v:
            priv, pwd = rb(rng, klen), rb(rng, 12)
            ln = lib.alloc(8, 0)
            if lib.bpkiPrivkeyWrap(0, ln, lib.mk(priv), klen, lib.mk(pwd), 12, lib.mk(salt), it) != ERR_OK:
                raise Harness("bpkiPrivkeyWrap size probe failed")
            n = lib.rd_size(ln)
            if not unwrap:
                epki = lib.alloc(n)
                v.args = [epki, lib.alloc(8, 0), lib.mk(priv), klen, lib.mk(pwd), 12, lib.mk(salt), it]
                v.outs = [(epki, n)]
                v.pub = [salt]
                v.needles = [priv, pwd]
            else:
                epki = lib.alloc(n)
                if lib.bpkiPrivkeyWrap(epki, lib.alloc(8, 0), lib.mk(priv), klen, lib.mk(pwd), 12, lib.mk(salt), it) != ERR_OK:
                    raise Harness("bpkiPrivkeyWrap failed")
                cont = lib.rd(epki, n)
                usepwd = pwd if not badpwd else bytes([pwd[0] ^ 1]) + pwd[1:]
                out = lib.alloc(klen)
                v.args = [out, lib.alloc(8, 0), lib.mk(cont), n, lib.mk(usepwd), 12]
                v.outs = [(out, klen)]
                v.pub = [cont] + ([priv] if not badpwd else [])
                v.needles = [usepwd] + ([priv] if badpwd else [])
        return c
    return build


def _der_len(n):
    if n < 128:
        return bytes([n])
    b = n.to_bytes((n.bit_length() + 7) // 8, "big")
    return bytes([0x80 | len(b)]) + b


def _der_tl(b, i):
    """(tag, length, header size) of the TLV starting at b[i] (one-octet tags only)"""
    tag = b[i]
    l0 = b[i + 1]
    if l0 < 128:
        return tag, l0, 2
    k = l0 & 0x7F
    return tag, int.from_bytes(b[i + 2:i + 2 + k], "big"), 2 + k


def _oversize_container(cont, newlen, rng):
    """PKCS#8-style container SEQ { SEQ alg, OCTET STRING encData }: replace encData by newlen random octets"""
    tag, ln, h = _der_tl(cont, 0)
    if tag != 0x30:
        raise Harness("container is not a SEQUENCE")
    t1, l1, h1 = _der_tl(cont, h)
    first = cont[h:h + h1 + l1]
    t2, l2, h2 = _der_tl(cont, h + h1 + l1)
    if t2 != 0x04:
        raise Harness("second element is not an OCTET STRING")
    body = first + b"\x04" + _der_len(newlen) + rb(rng, newlen)
    return b"\x30" + _der_len(len(body)) + body


def _bpki_privkey_oversized(lib, rng, size):
    """error exit on an admissible-looking but oversized container: encData long enough to need a larger blob"""
    klen = rng.choice([32, 48, 64])
    salt = rb(rng, 8)
    it = 10000
    newlen = rng.choice([977, 1100, 2100, 5000])
    c = Call("bpkiPrivkeyUnwrap:oversized", lib.bpkiPrivkeyUnwrap, "oversized-container")
    c.expect_ok = False
    filler = random.Random(rng.getrandbits(32))
    fs = filler.getstate()
    for v in c.v:
        priv, pwd = rb(rng, klen), rb(rng, 12)
        ln = lib.alloc(8, 0)
        if lib.bpkiPrivkeyWrap(0, ln, lib.mk(priv), klen, lib.mk(pwd), 12, lib.mk(salt), it) != ERR_OK:
            raise Harness("bpkiPrivkeyWrap size probe failed")
        n = lib.rd_size(ln)
        epki = lib.alloc(n)
        if lib.bpkiPrivkeyWrap(epki, lib.alloc(8, 0), lib.mk(priv), klen, lib.mk(pwd), 12, lib.mk(salt), it) != ERR_OK:
            raise Harness("bpkiPrivkeyWrap failed")
        filler.setstate(fs)          # the same filler octets in both twins
        cont = _oversize_container(lib.rd(epki, n), newlen, filler)
        out = lib.alloc(newlen)
        v.args = [out, lib.alloc(8, 0), lib.mk(cont), len(cont), lib.mk(pwd), 12]
        v.outs = [(out, newlen)]
        v.pub = [cont]
        v.needles = [pwd, priv]
    return c


BUILDERS = {
    "beltECBEncr": _belt_mode("beltECBEncr", 16, 1, with_iv=False), "beltECBDecr": _belt_mode("beltECBDecr", 16, 1, with_iv=False),
    "beltCBCEncr": _belt_mode("beltCBCEncr", 16, 1), "beltCBCDecr": _belt_mode("beltCBCDecr", 16, 1),
    "beltCFBEncr": _belt_mode("beltCFBEncr", 1, 1), "beltCFBDecr": _belt_mode("beltCFBDecr", 1, 1),
    "beltCTR": _belt_mode("beltCTR", 1, 1),
    "beltBDEEncr": _belt_mode("beltBDEEncr", 16, 16), "beltBDEDecr": _belt_mode("beltBDEDecr", 16, 16),
    "beltSDEEncr": _belt_mode("beltSDEEncr", 32, 16), "beltSDEDecr": _belt_mode("beltSDEDecr", 32, 16),
    "beltMAC": _belt_mac("beltMAC", 8), "beltHMAC": _belt_mac("beltHMAC", 32, hmac=True),
    "beltDWPWrap": _aead("DWP"), "beltDWPUnwrap": _aead("DWP", True), "beltDWPUnwrap:bad": _aead("DWP", True, True),
    "beltCHEWrap": _aead("CHE"), "beltCHEUnwrap": _aead("CHE", True), "beltCHEUnwrap:bad": _aead("CHE", True, True),
    "beltKWPWrap": _kwp(), "beltKWPUnwrap": _kwp(True), "beltKWPUnwrap:bad": _kwp(True, True),
    "beltFMTEncr": _fmt, "beltKRP": _krp, "beltPBKDF2": _pbkdf2,
    "brngCTRRand": _brng_ctr, "brngHMACRand": _brng_hmac,
    "botpHOTPRand": _hotp, "botpTOTPRand": _totp, "botpOCRARand": _ocra,
    "bignSign": _bign_sign(False), "bignSign2": _bign_sign(True), "bignKeypairGen": _bign_keygen,
    "bignPubkeyCalc": _bign_pubcalc, "bignDH": _bign_dh, "bignKeyWrap": _bign_keywrap,
    "bignKeyUnwrap": _bign_keyunwrap(False), "bignKeyUnwrap:bad": _bign_keyunwrap(True),
    "bignKeyUnwrap:short": _bign_keyunwrap(True, True),
    "belsShare": _bels_share, "belsRecover": _bels_recover,
    "bpkiPrivkeyWrap": _bpki_privkey(False), "bpkiPrivkeyUnwrap": _bpki_privkey(True),
    "bpkiPrivkeyUnwrap:bad": _bpki_privkey(True, True),
    "bpkiPrivkeyUnwrap:oversized": _bpki_privkey_oversized,
}
HEAVY = {"bignSign", "bignSign2", "bignKeypairGen", "bignPubkeyCalc", "bignDH", "bignKeyWrap", "bignKeyUnwrap",
         "bignKeyUnwrap:bad", "bignKeyUnwrap:short", "bpkiPrivkeyWrap", "bpkiPrivkeyUnwrap", "bpkiPrivkeyUnwrap:bad", "bpkiPrivkeyUnwrap:oversized"}

# ---------------------------------------------------------------------------------------------------------------
# bake: the Run drivers (they allocate their protocol state with blobCreate).  The peer is a scripted channel: the
# honest transcript is recorded once in the parent (both parties over c04's in-memory pipe), then the party under
# test is run alone, with the same generator tape, against the recorded replies (optionally with the last reply's
# authentication tag spoiled, which makes the driver leave through its error path after most of the protocol).

_BAKE_ENV = {}


def _bake_run(proto, side, bad=False):
    name = "bake%sRun%s" % (proto, side) + (":badtag" if bad else "")

    def build(lib, rng, size):
        from . import c04
        env = _BAKE_ENV.get(id(lib))
        if env is None:
            env = _BAKE_ENV[id(lib)] = c04.Env(lib)
        c04._TAPES.clear()
        del c04._CB_ERR[:]
        l = 128
        n = rng.getrandbits(16)
        mine = 0 if side == "A" else 1
        c = Call(name, lambda thunk: thunk())
        c.expect_ok = not bad
        c.exit_class = "bad-peer-tag" if bad else "ok"
        cur = env.curve(l)
        for v in c.v:
            cfg = c04.base_cfg(proto, l, 1, 1, n, ks=rng.getrandbits(30))
            pwd = rb(rng, max(8, min(size, 40)))
            cfg["pwd"] = pwd.hex()
            h, ra, rbb = c04.run_pipe(env, cfg)
            if ra != 0 or rbb != 0 or c04._CB_ERR:
                raise Harness("honest %s run failed while recording the transcript (%r %r %r)" % (proto, ra, rbb, c04._CB_ERR))
            replies = [h.sent[nm] for nm in c04.SENDS[proto][1 - mine]]
            if bad:
                replies[-1] = replies[-1][:-1] + bytes([replies[-1][-1] ^ 0x40])
            P = c04.build(env, cfg)
            me = P[side]
            key, wbuf = lib.alloc(32), lib.alloc(1024, 0)
            f = lib.mk(mine.to_bytes(8, "little"))
            pipe = c04.Pipe(c04.SENDS[proto], lambda nm, d: d)
            for m in replies:
                pipe.inbox[mine].put(m)
            pipe.inbox[mine].put(c04._EOF)
            fn = getattr(lib, "bake%sRun%s" % (proto, side))
            if proto == "BMQV":
                a = [key, me.params, me.settings, me.privkey, me.cert, me.peer_cert, c04.READ_ADDR, c04.WRITE_ADDR, f]
            elif proto == "BSTS":
                a = [key, me.params, me.settings, me.privkey, me.cert, me.cv_peer, c04.READ_ADDR, c04.WRITE_ADDR, f]
            else:
                a = [key, me.params, me.settings, me.pwd, me.pwd_len, c04.READ_ADDR, c04.WRITE_ADDR, f]

            def thunk(fn=fn, a=a, pipe=pipe, wbuf=wbuf, mine=mine):
                c04._PIPE["p"] = pipe
                try:
                    ret = fn(*a)
                finally:
                    c04._PIPE["p"] = None
                out = b""
                q = pipe.inbox[1 - mine]
                while not q.empty():
                    out += q.get()
                lib.wr(wbuf, out[:1024])
                return ret
            v.args = [thunk]
            v.outs = [(key, 32), (wbuf, 1024)]
            d = env.keypair(l, side, cfg["ks"])[0]
            own, peer = c04.cert_data(env, cfg, side), c04.cert_data(env, cfg, "B" if side == "A" else "A", side)
            v.pub = list(replies) + [own, peer, cur["raw"]]
            if proto == "BPACE":
                hp = lib.alloc(32)
                lib.beltHash(hp, lib.mk(pwd), len(pwd))
                v.needles = [pwd, lib.rd(hp, 32)]
            else:
                v.needles = [d]
        return c
    return build


for _pr in ("BMQV", "BSTS", "BPACE"):
    for _sd in ("A", "B"):
        BUILDERS["bake%sRun%s" % (_pr, _sd)] = _bake_run(_pr, _sd)
        BUILDERS["bake%sRun%s:badtag" % (_pr, _sd)] = _bake_run(_pr, _sd, True)
        HEAVY.add("bake%sRun%s" % (_pr, _sd))
        HEAVY.add("bake%sRun%s:badtag" % (_pr, _sd))
