"""C04 -- bake (BMQV, BSTS, BPACE) and token BAUTH: honest runs agree on one
32-octet key, tampered / mismatched runs never do.

Pure protocol monitor, no model.  A unit hosts both parties in one process and
*is* the network: for every history it decides which message is delivered
unaltered, with one bit flipped in octet i, with its point replaced by an
off-curve / out-of-field / all-zero / twist encoding, or swapped with the
message of an independent run.  Verdict table (the statement):

  honest    every step ERR_OK and keyA == keyB
  altered   some step returns an error, or -- only when nobody confirms
            (kca == kcb == 0) -- both finish and keyA != keyB

RunA/RunB are driven over an in-memory message pipe (RunB in a second Python
thread, read_i/write_i are Python callbacks blocking on queue.Queue) and must
agree with the step-by-step run on the same generator tapes.
"""
import ctypes, hashlib, queue, random, threading

from ..core import Harness
from ..bee2 import errcode, errname

LEVEL = "exploration"

OIDS = {128: "1.2.112.0.2.0.34.101.45.3.1", 192: "1.2.112.0.2.0.34.101.45.3.2", 256: "1.2.112.0.2.0.34.101.45.3.3"}
FN = {"BMQV": "bakeBMQV", "BSTS": "bakeBSTS", "BPACE": "bakeBPACE", "BAUTH": "btokBAuth"}
PROTOS = ("BMQV", "BSTS", "BPACE", "BAUTH")
KC = {"BMQV": ((0, 0), (0, 1), (1, 0), (1, 1)), "BSTS": ((1, 1),), "BPACE": ((0, 0), (0, 1), (1, 0), (1, 1)),
      "BAUTH": ((1, 0), (1, 1))}
NAME_A, NAME_B = b"Alice", b"Bob"

c_void_p, c_size_t = ctypes.c_void_p, ctypes.c_size_t


class BignParams(ctypes.Structure):
    _fields_ = [("l", c_size_t), ("p", ctypes.c_ubyte * 64), ("a", ctypes.c_ubyte * 64), ("b", ctypes.c_ubyte * 64),
                ("q", ctypes.c_ubyte * 64), ("yG", ctypes.c_ubyte * 64), ("seed", ctypes.c_ubyte * 8)]


class BakeSettings(ctypes.Structure):
    _fields_ = [("kca", ctypes.c_int), ("kcb", ctypes.c_int), ("helloa", c_void_p), ("helloa_len", c_size_t),
                ("hellob", c_void_p), ("hellob_len", c_size_t), ("rng", c_void_p), ("rng_state", c_void_p)]


class BakeCert(ctypes.Structure):
    _fields_ = [("data", c_void_p), ("len", c_size_t), ("val", c_void_p)]


# ---------------------------------------------------------------------------
# callbacks: generator tapes, certificate validation, message pipe
# ---------------------------------------------------------------------------

_CB_ERR = []          # exceptions inside callbacks (=> Harness)
_TAPES = {}


class Tape:
    """octets handed out by a gen_i: a forced prefix, then a seeded stream"""

    def __init__(self, seed, skip=0, forced=b"", cyclic=None):
        self.r = random.Random(seed)
        self.pre = bytearray(self.r.randbytes(skip) + forced) if forced else bytearray()
        self.cyclic, self.pos = cyclic, 0
        self.drawn = 0

    def take(self, n):
        self.drawn += n
        if self.cyclic is not None:          # prngEcho semantics (appendix vectors)
            out = bytes(self.cyclic[(self.pos + i) % len(self.cyclic)] for i in range(n))
            self.pos = (self.pos + n) % len(self.cyclic)
            return out
        out = bytes(self.pre[:n])
        del self.pre[:n]
        if len(out) < n:
            out += self.r.randbytes(n - len(out))
        return out


def _gen(buf, count, state):
    try:
        tid = int.from_bytes(ctypes.string_at(state, 8), "little")
        ctypes.memmove(buf, _TAPES[tid].take(count), count)
    except BaseException as e:      # noqa
        _CB_ERR.append("gen: %r" % (e,))


GEN = ctypes.CFUNCTYPE(None, c_void_p, c_size_t, c_void_p)
_gen_c = GEN(_gen)
GEN_ADDR = ctypes.cast(_gen_c, c_void_p).value

CERTVAL = ctypes.CFUNCTYPE(ctypes.c_uint32, c_void_p, c_void_p, c_void_p, c_size_t)
_CV_STATE = {"offcurve": None, "other": None, "calls": 0}


def _plen(params):
    return int.from_bytes(ctypes.string_at(params, 8), "little") // 2


def _cv_good(pubkey, params, data, ln):
    try:
        _CV_STATE["calls"] += 1
        n = _plen(params)
        if ln < n:
            # a certificate that is only an identifier: the validator resolves it through its directory
            q = _CV_STATE.get("dir", {}).get(ctypes.string_at(data, ln))
            if q is None or len(q) != n:
                return errcode("ERR_BAD_CERT")
            if pubkey:
                ctypes.memmove(pubkey, q, n)
            return 0
        if pubkey:
            ctypes.memmove(pubkey, ctypes.string_at(data + (ln - n), n), n)
        return 0
    except BaseException as e:      # noqa
        _CB_ERR.append("cv: %r" % (e,))
        return errcode("ERR_BAD_CERT")


def _cv_reject(pubkey, params, data, ln):
    _CV_STATE["calls"] += 1
    return errcode("ERR_BAD_CERT")


def _cv_fixed(which):
    def f(pubkey, params, data, ln):
        try:
            _CV_STATE["calls"] += 1
            v = _CV_STATE[which]
            if pubkey:
                ctypes.memmove(pubkey, v, len(v))
            return 0
        except BaseException as e:      # noqa
            _CB_ERR.append("cv: %r" % (e,))
            return errcode("ERR_BAD_CERT")
    return f


_cv_objs = {"good": CERTVAL(_cv_good), "reject": CERTVAL(_cv_reject), "offcurve": CERTVAL(_cv_fixed("offcurve")),
            "other": CERTVAL(_cv_fixed("other"))}
CV = {k: ctypes.cast(v, c_void_p).value for k, v in _cv_objs.items()}

RW = ctypes.CFUNCTYPE(ctypes.c_uint32, c_void_p, c_void_p, c_size_t, c_void_p)
_EOF = object()
_PIPE = {"p": None}


class Pipe:
    """message-framed duplex channel with the semantics of bake_test.c's file: one write = one message;
    a read of more than what is left of the current message returns the rest with ERR_MAX"""

    def __init__(self, names, deliver):
        self.inbox = {0: queue.Queue(), 1: queue.Queue()}
        self.cur = {0: None, 1: None}
        self.off = {0: 0, 1: 0}
        self.nw = {0: 0, 1: 0}
        self.names, self.deliver = names, deliver
        self.timeout = False

    def write(self, side, data):
        nm = self.names[side][self.nw[side]] if self.nw[side] < len(self.names[side]) else "M?"
        self.nw[side] += 1
        self.inbox[1 - side].put(self.deliver(nm, data))

    def read(self, side, count):
        if self.cur[side] is None:
            try:
                m = self.inbox[side].get(timeout=60)
            except queue.Empty:
                self.timeout = True
                return None, errcode("ERR_FILE_READ")
            if m is _EOF:
                self.inbox[side].put(_EOF)
                return None, errcode("ERR_FILE_READ")
            self.cur[side], self.off[side] = m, 0
        m, off = self.cur[side], self.off[side]
        if count + off > len(m):
            self.cur[side] = None
            return m[off:], errcode("ERR_MAX")
        self.off[side] = off + count
        if self.off[side] == len(m):
            self.cur[side] = None
        return m[off:off + count], 0


def _side(file):
    return int.from_bytes(ctypes.string_at(file, 8), "little")


def _write(written, buf, count, file):
    try:
        _PIPE["p"].write(_side(file), ctypes.string_at(buf, count) if count else b"")
        c_size_t.from_address(written).value = count
        return 0
    except BaseException as e:      # noqa
        _CB_ERR.append("write: %r" % (e,))
        return errcode("ERR_FILE_WRITE")


def _read(readp, buf, count, file):
    try:
        data, code = _PIPE["p"].read(_side(file), count)
        if data is None:
            c_size_t.from_address(readp).value = 0
            return code
        if data:
            ctypes.memmove(buf, data, len(data))
        c_size_t.from_address(readp).value = len(data)
        return code
    except BaseException as e:      # noqa
        _CB_ERR.append("read: %r" % (e,))
        return errcode("ERR_FILE_READ")


_write_c, _read_c = RW(_write), RW(_read)
WRITE_ADDR = ctypes.cast(_write_c, c_void_p).value
READ_ADDR = ctypes.cast(_read_c, c_void_p).value


# ---------------------------------------------------------------------------
# curves, keys, message layouts
# ---------------------------------------------------------------------------

def layout(proto, l, kca, kcb, clen_a, clen_b):
    """message name -> list of (segment, length); mirrors the sizes documented in bake.h / btok.h"""
    no = l // 4
    m = {}
    if proto == "BMQV":
        m["M1"] = [("Vb.x", no), ("Vb.y", no)]
        m["M2"] = [("Va.x", no), ("Va.y", no)] + ([("Ta", 8)] if kca else [])
        if kcb:
            m["M3"] = [("Tb", 8)]
    elif proto == "BSTS":
        m["M1"] = [("Vb.x", no), ("Vb.y", no)]
        m["M2"] = [("Va.x", no), ("Va.y", no), ("Ya.s", no), ("Ya.cert", clen_a), ("Ta", 8)]
        m["M3"] = [("Yb.s", no), ("Yb.cert", clen_b), ("Tb", 8)]
    elif proto == "BPACE":
        m["M1"] = [("Yb", no // 2)]
        m["M2"] = [("Ya", no // 2), ("Va.x", no), ("Va.y", no)]
        m["M3"] = [("Vb.x", no), ("Vb.y", no)] + ([("Tb", 8)] if kcb else [])
        if kca:
            m["M4"] = [("Ta", 8)]
    elif proto == "BAUTH":
        m["M1"] = [("Vct.x", no), ("Vct.y", no), ("Zct", no // 2 + 16)]
        m["M2"] = [("Tt", 8)] + ([("Rt", 16)] if kcb else [])
        if kcb:
            m["M3"] = [("Zct.s", no), ("Zct.cert", clen_b), ("Tct", 8)]
    return m


def mlen(segs):
    return sum(n for _, n in segs)


def seg_at(segs, i):
    for nm, n in segs:
        if i < n:
            return nm
        i -= n
    return "?"


def point_off(segs):
    off = 0
    for nm, n in segs:
        if nm.endswith(".x"):
            return off
        off += n
    return None


# the step that consumes a point-carrying message: STB 34.101.66 prescribes the membership test V in E* there
# (bake.c marks these places "V \\in E*?"; the property's anchors name it as the mechanism)
RECV = {"BMQV": {"M1": "A.Step3", "M2": "B.Step4"}, "BSTS": {"M1": "A.Step3", "M2": "B.Step4"},
        "BPACE": {"M2": "B.Step4", "M3": "A.Step5"}, "BAUTH": {"M1": "A.Step3"}}

# who sends what (for the pipe) : side 0 = A, 1 = B
SENDS = {"BMQV": {1: ["M1", "M3"], 0: ["M2"]}, "BSTS": {1: ["M1", "M3"], 0: ["M2"]},
         "BPACE": {1: ["M1", "M3"], 0: ["M2", "M4"]}}


class Env:
    def __init__(self, lib):
        self.lib = lib
        self._curves, self._keys = {}, {}
        if ctypes.sizeof(BignParams) != 336 or ctypes.sizeof(BakeSettings) != 56 or ctypes.sizeof(BakeCert) != 24:
            raise Harness("struct layout")

    def curve(self, l):
        c = self._curves.get(l)
        if c is None:
            lib = self.lib
            pp = lib.alloc(ctypes.sizeof(BignParams))
            if lib.bignParamsStd(pp, lib.cstr(OIDS[l])) != 0:
                raise Harness("bignParamsStd")
            raw = lib.rd(pp, ctypes.sizeof(BignParams))
            bp = BignParams.from_buffer_copy(raw)
            no = l // 4
            g = lambda f: int.from_bytes(bytes(getattr(bp, f))[:no], "little")
            c = {"l": l, "no": no, "raw": raw, "p": g("p"), "a": g("a"), "b": g("b"), "q": g("q"), "yG": g("yG")}
            if bp.l != l or c["p"] % 4 != 3 or not self.on_curve(c, 0, c["yG"]):
                raise Harness("curve parameters not understood")
            self._curves[l] = c
        return c

    @staticmethod
    def on_curve(c, x, y):
        p = c["p"]
        return x < p and y < p and (y * y - (x * x * x + c["a"] * x + c["b"])) % p == 0

    def keypair(self, l, name, seed):
        k = (l, name, seed)
        v = self._keys.get(k)
        if v is None:
            lib, c = self.lib, self.curve(l)
            r = random.Random("c04key/%s/%s/%s" % (seed, l, name))
            d = r.randrange(1, c["q"]).to_bytes(c["no"], "little")
            pq = lib.alloc(2 * c["no"])
            if lib.bignPubkeyCalc(pq, lib.mk(c["raw"]), lib.mk(d)) != 0:
                raise Harness("bignPubkeyCalc")
            v = (d, lib.rd(pq, 2 * c["no"]))
            self._keys[k] = v
        return v


def enc_pt(c, x, y):
    no = c["no"]
    return (x % (1 << (8 * no))).to_bytes(no, "little") + (y % (1 << (8 * no))).to_bytes(no, "little")


def sub_point(c, kind, orig, r, prev=None):
    """replacement for the 2*no-octet point encoding `orig`"""
    no, p = c["no"], c["p"]
    x0, y0 = int.from_bytes(orig[:no], "little"), int.from_bytes(orig[no:], "little")
    top = (1 << (8 * no)) - 1
    if kind == "offcurve-y+1":
        return enc_pt(c, x0, (y0 + 1) % p)
    if kind == "offcurve-x+1":
        return enc_pt(c, (x0 + 1) % p, y0)
    if kind == "offcurve-rand":
        while True:
            x, y = r.randrange(p), r.randrange(p)
            if not Env.on_curve(c, x, y):
                return enc_pt(c, x, y)
    if kind == "offcurve-swapxy":
        if Env.on_curve(c, y0, x0):
            raise Harness("swapxy on curve")
        return enc_pt(c, y0, x0)
    if kind == "zero-point":
        return bytes(2 * no)
    if kind == "x=p":            # non-canonical encoding of G = (0, yG)
        return enc_pt(c, p, c["yG"])
    if kind == "x=max":
        return enc_pt(c, top, y0)
    if kind == "y=p":
        return enc_pt(c, x0, p)
    if kind == "y=max":
        return enc_pt(c, x0, top)
    if kind == "x+p":            # x0 + p if it fits, else p + (x0 mod small)
        return enc_pt(c, min(top, p + (x0 % (top - p + 1))), y0)
    if kind == "twist":
        while True:
            x = r.randrange(p)
            z = (x * x * x + c["a"] * x + c["b"]) % p
            if z and pow(z, (p - 1) // 2, p) == p - 1:
                y = pow((-z) % p, (p + 1) // 4, p)
                if (y * y + z) % p != 0 or Env.on_curve(c, x, y):
                    raise Harness("twist construction")
                return enc_pt(c, x, y)
    if kind == "G":
        return enc_pt(c, 0, c["yG"])
    if kind == "negated-point":
        return enc_pt(c, x0, (p - y0) % p)
    if kind == "reflect":
        return prev
    raise Harness("sub kind " + kind)


SUB_KINDS = ("offcurve-y+1", "offcurve-x+1", "offcurve-rand", "offcurve-swapxy", "zero-point", "x=p", "x=max", "y=p",
             "y=max", "x+p", "twist", "G", "reflect")
HELLOS = (None, b"", b"\x5a", bytes(range(1, 65)))          # null, empty, 1, 64 octets


def hello_bytes(idx, side):
    h = HELLOS[idx]
    if h and side == "b":
        h = bytes(reversed(h))
    return h


# ---------------------------------------------------------------------------
# one history
# ---------------------------------------------------------------------------

class Hist:
    def __init__(self, cfg, curve, donor=None):
        self.cfg, self.curve, self.donor = cfg, curve, donor
        self.steps = []            # (label, code)
        self.err = None            # first failing (label, code)
        self.sent, self.delivered = {}, {}
        self.key = {"A": None, "B": None}
        self.altered = False
        self.shared_steps = []
        self.bad_point = None       # name of a delivered message whose point encoding is not a point of the curve
        self.prev_point = None
        self.r = random.Random("c04sub/%r" % (cfg.get("tamper"),))

    def step(self, label, code):
        self.steps.append((label, code))
        if code != 0 and self.err is None:
            self.err = (label, code)
        return code != 0

    def deliver(self, name, data):
        self.sent[name] = data
        out = data
        t = self.cfg.get("tamper")
        segs = self.cfg["_layout"].get(name)
        if segs is None or mlen(segs) != len(data):
            raise Harness("message %s has %d octets, layout says %r" % (name, len(data), segs))
        po = point_off(segs)
        if t and t[1] == name:
            kind = t[0]
            if kind == "flip":
                b = bytearray(data)
                b[t[2]] ^= 1 << t[3]
                out = bytes(b)
            elif kind == "zero":
                out = bytes(len(data))
            elif kind == "swap":
                out = self.donor[name]
                if len(out) != len(data):
                    raise Harness("donor length")
            elif kind == "sub":
                no = self.curve["no"]
                new = sub_point(self.curve, t[2], data[po:po + 2 * no], self.r, self.prev_point)
                out = data[:po] + new + data[po + 2 * no:]
            else:
                raise Harness("tamper kind")
            if out == data:
                raise Harness("tamper %r left the message unchanged" % (t,))
            self.altered = True
        if po is not None:
            no = self.curve["no"]
            x, y = int.from_bytes(out[po:po + no], "little"), int.from_bytes(out[po + no:po + 2 * no], "little")
            if not Env.on_curve(self.curve, x, y):
                if out == data:
                    raise Harness("honest message %s carries a point that is not on the curve (per the harness)" % name)
                self.bad_point = name
            self.prev_point = data[po:po + 2 * no]
        self.delivered[name] = out
        return out


class Party:
    pass


def make_tape(lib, cfg, side, curve):
    """returns (rng address, rng_state pointer)"""
    kind = cfg.get("tape", "py")
    seed = "c04tape/%s/%s" % (cfg["ts"], side)
    if cfg.get("echo"):
        t = Tape(seed, cyclic=cfg["echo"][side])
    elif kind == "ctr":
        st = lib.alloc(lib.brngCTR_keep())
        h = hashlib.sha256(seed.encode()).digest()
        lib.brngCTRStart(st, lib.mk(h), lib.mk(hashlib.sha256(h).digest()))
        return lib.addr("brngCTRStepR"), st
    else:
        no, q = curve["no"], curve["q"]
        skip = no // 2 if cfg["proto"] in ("BPACE",) or (cfg["proto"] == "BAUTH" and side == "B") else 0
        forced = b""
        if not (cfg["proto"] == "BAUTH" and side == "A"):
            if kind == "u1":
                forced = (1).to_bytes(no, "little")
            elif kind == "uq1":
                forced = (q - 1).to_bytes(no, "little")
            elif kind == "rej":
                forced = q.to_bytes(no, "little") + b"\xff" * no
            elif kind == "z":
                forced = bytes(no)
        t = Tape(seed, skip, forced)
    tid = len(_TAPES) + 1
    _TAPES[tid] = t
    return GEN_ADDR, lib.mk(tid.to_bytes(8, "little"))


def cert_data(env, cfg, who, view=None):
    """certificate of party `who` ('A'/'B') as seen by `view` (None = the owner)"""
    l = cfg["l"]
    c = env.curve(l)
    name = (NAME_A if who == "A" else NAME_B) + bytes(cfg.get("cpad", {}).get(who, 0))
    d, q = env.keypair(l, who, cfg["ks"])
    mis = cfg.get("mis")
    tag = "%s:%s" % (who, view or who)
    if mis == "certname:" + tag:
        name = name[:-1] + bytes([name[-1] ^ 1])
    elif mis == "certkey:" + tag:
        q = env.keypair(l, who + "'", cfg["ks"])[1]
    elif mis == "offcurve:" + tag:
        q = sub_point(c, "offcurve-y+1", q, None)
    elif mis == "gep:" + tag:
        q = sub_point(c, "x=p", q, None)
    elif mis == "othercurve:" + tag:
        l2 = 192 if l != 192 else 128
        q2 = env.keypair(l2, who, cfg["ks"])[1]
        n2, no = l2 // 4, c["no"]
        x, y = q2[:n2], q2[n2:]
        q = (x + bytes(no))[:no] + (y + bytes(no))[:no]
        if Env.on_curve(c, int.from_bytes(q[:no], "little"), int.from_bytes(q[no:], "little")):
            raise Harness("othercurve point on curve")
    if who in cfg.get("shortcert", "") and not mis:
        ident = b"id" + who.encode() + b"\x01"            # 4 octets: shorter than l/4 - 8 on every curve
        _CV_STATE.setdefault("dir", {})[ident] = q
        return ident
    return name + q


def build(env, cfg):
    """allocate both parties' long-lived inputs (exact-size heap blocks)"""
    lib, l = env.lib, cfg["l"]
    c = env.curve(l)
    mis = cfg.get("mis") or ""
    P = {}
    for side in ("A", "B"):
        p = Party()
        p.params = lib.mk(c["raw"])
        rng, rst = make_tape(lib, cfg, side, c)
        hs = {}
        for hn, idx in (("a", cfg["ha"]), ("b", cfg["hb"])):
            h = hello_bytes(idx, hn)
            if h and mis == "hello%s:%s" % (hn, side):
                h = bytes([h[0] ^ 0x10]) + h[1:]
            hs[hn] = (0, cfg.get("hnull_len", 0)) if h is None else (lib.mk(h), len(h))
        st = BakeSettings(cfg["kca"], cfg["kcb"], hs["a"][0], hs["a"][1], hs["b"][0], hs["b"][1], rng, rst)
        p.settings = lib.mk(bytes(st))
        d = env.keypair(l, side, cfg["ks"])[0]
        if mis == "priv:" + side:
            d = env.keypair(l, side + "'", cfg["ks"])[0]
        p.privkey = lib.mk(d)
        other = "B" if side == "A" else "A"
        own, peer = cert_data(env, cfg, side), cert_data(env, cfg, other, side)
        p.cert_len, p.peer_len = len(own), len(peer)
        cvo = CV["reject"] if mis == "cvreject-own:" + side else CV["good"]
        cvp = CV["good"]
        for k in ("reject", "offcurve", "other"):
            if mis == "cv%s-peer:%s" % (k, side):
                cvp = CV[k]
        p.cert = lib.mk(bytes(BakeCert(lib.mk(own), len(own), cvo)))
        p.peer_cert = lib.mk(bytes(BakeCert(lib.mk(peer), len(peer), cvp)))
        p.cv_peer = cvp
        pw = bytes.fromhex(cfg.get("pwd", "38303836"))
        if mis.startswith("pwd") and side == "B":
            pw = {"pwd-bit": bytes([pw[0] ^ 1]) + pw[1:] if pw else b"\x01", "pwd-len": pw + b"\x00",
                  "pwd-empty": b"" if pw else b"x", "pwd-trunc": pw[:-1] if len(pw) > 1 else pw + b"y"}[mis]
        p.pwd, p.pwd_len = lib.mk(pw), len(pw)
        P[side] = p
    _CV_STATE["offcurve"] = sub_point(c, "offcurve-rand", bytes(2 * c["no"]), random.Random("c04cv"))
    _CV_STATE["other"] = env.keypair(l, "X", cfg["ks"])[1]
    ca, cb = P["A"].cert_len, P["B"].cert_len
    cfg["_layout"] = layout(cfg["proto"], l, cfg["kca"], cfg["kcb"], ca, cb)
    return P


def run_steps(env, cfg, donor=None):
    """host both parties step by step; returns Hist"""
    lib, l = env.lib, cfg["l"]
    c = env.curve(l)
    no = c["no"]
    P = build(env, cfg)
    A, B = P["A"], P["B"]
    h = Hist(cfg, c, donor)
    kca, kcb = cfg["kca"], cfg["kcb"]
    pr = cfg["proto"]
    key = lambda: lib.alloc(32)
    shared = cfg.get("shared")      # None, "all" or a list of step labels: these steps get ONE block as in and out

    def io(label, data, out_len):
        """input and output buffers of a step that consumes `data` and produces out_len octets"""
        if shared and out_len and (shared == "all" or label in shared):
            blk = lib.alloc(max(len(data), out_len))
            lib.wr(blk, data)
            h.shared_steps.append(label)
            return blk, blk
        return lib.mk(data), lib.alloc(out_len)

    def getkey(side, fn, st):
        k = key()
        if not h.step(side + ".StepG", fn(k, st)):
            h.key[side] = lib.rd(k, 32)

    if pr == "BMQV":
        sa, sb = lib.alloc(lib.bakeBMQV_keep(l)), lib.alloc(lib.bakeBMQV_keep(l))
        if h.step("A.Start", lib.bakeBMQVStart(sa, A.params, A.settings, A.privkey, A.cert)): return h
        if h.step("B.Start", lib.bakeBMQVStart(sb, B.params, B.settings, B.privkey, B.cert)): return h
        m1 = lib.alloc(2 * no)
        if h.step("B.Step2", lib.bakeBMQVStep2(m1, sb)): return h
        n2 = 2 * no + (8 if kca else 0)
        d1, m2 = io("A.Step3", h.deliver("M1", lib.rd(m1, 2 * no)), n2)
        if h.step("A.Step3", lib.bakeBMQVStep3(m2, d1, A.peer_cert, sa)): return h
        if not kcb:
            getkey("A", lib.bakeBMQVStepG, sa)
        n3 = 8 if kcb else 0
        d2, m3 = io("B.Step4", h.deliver("M2", lib.rd(m2, n2)), n3)
        if h.step("B.Step4", lib.bakeBMQVStep4(m3, d2, B.peer_cert, sb)): return h
        getkey("B", lib.bakeBMQVStepG, sb)
        if kcb:
            d3 = lib.mk(h.deliver("M3", lib.rd(m3, 8)))
            if h.step("A.Step5", lib.bakeBMQVStep5(d3, sa)): return h
            getkey("A", lib.bakeBMQVStepG, sa)
    elif pr == "BSTS":
        sa, sb = lib.alloc(lib.bakeBSTS_keep(l)), lib.alloc(lib.bakeBSTS_keep(l))
        if h.step("A.Start", lib.bakeBSTSStart(sa, A.params, A.settings, A.privkey, A.cert)): return h
        if h.step("B.Start", lib.bakeBSTSStart(sb, B.params, B.settings, B.privkey, B.cert)): return h
        m1 = lib.alloc(2 * no)
        if h.step("B.Step2", lib.bakeBSTSStep2(m1, sb)): return h
        n2 = 3 * no + A.cert_len + 8
        d1, m2 = io("A.Step3", h.deliver("M1", lib.rd(m1, 2 * no)), n2)
        if h.step("A.Step3", lib.bakeBSTSStep3(m2, d1, sa)): return h
        n3 = no + B.cert_len + 8
        d2, m3 = io("B.Step4", h.deliver("M2", lib.rd(m2, n2)), n3)
        if h.step("B.Step4", lib.bakeBSTSStep4(m3, d2, n2, B.cv_peer, sb)): return h
        getkey("B", lib.bakeBSTSStepG, sb)
        d3 = lib.mk(h.deliver("M3", lib.rd(m3, n3)))
        if h.step("A.Step5", lib.bakeBSTSStep5(d3, n3, A.cv_peer, sa)): return h
        getkey("A", lib.bakeBSTSStepG, sa)
    elif pr == "BPACE":
        sa, sb = lib.alloc(lib.bakeBPACE_keep(l)), lib.alloc(lib.bakeBPACE_keep(l))
        if h.step("A.Start", lib.bakeBPACEStart(sa, A.params, A.settings, A.pwd, A.pwd_len)): return h
        if h.step("B.Start", lib.bakeBPACEStart(sb, B.params, B.settings, B.pwd, B.pwd_len)): return h
        m1 = lib.alloc(no // 2)
        if h.step("B.Step2", lib.bakeBPACEStep2(m1, sb)): return h
        n2 = 5 * no // 2
        d1, m2 = io("A.Step3", h.deliver("M1", lib.rd(m1, no // 2)), n2)
        if h.step("A.Step3", lib.bakeBPACEStep3(m2, d1, sa)): return h
        n3 = 2 * no + (8 if kcb else 0)
        d2, m3 = io("B.Step4", h.deliver("M2", lib.rd(m2, n2)), n3)
        if h.step("B.Step4", lib.bakeBPACEStep4(m3, d2, sb)): return h
        if not kca:
            getkey("B", lib.bakeBPACEStepG, sb)
        n4 = 8 if kca else 0
        d3, m4 = io("A.Step5", h.deliver("M3", lib.rd(m3, n3)), n4)
        if h.step("A.Step5", lib.bakeBPACEStep5(m4, d3, sa)): return h
        getkey("A", lib.bakeBPACEStepG, sa)
        if kca:
            d4 = lib.mk(h.deliver("M4", lib.rd(m4, 8)))
            if h.step("B.Step6", lib.bakeBPACEStep6(d4, sb)): return h
            getkey("B", lib.bakeBPACEStepG, sb)
    elif pr == "BAUTH":      # A = terminal T, B = token CT
        sa, sb = lib.alloc(lib.btokBAuthT_keep(l)), lib.alloc(lib.btokBAuthCT_keep(l))
        if h.step("A.Start", lib.btokBAuthTStart(sa, A.params, A.settings, A.privkey, A.cert)): return h
        if h.step("B.Start", lib.btokBAuthCTStart(sb, B.params, B.settings, B.privkey, B.cert)): return h
        n1 = 2 * no + no // 2 + 16
        m1 = lib.alloc(n1)
        if h.step("B.Step2", lib.btokBAuthCTStep2(m1, B.peer_cert, sb)): return h
        n2 = 8 + (16 if kcb else 0)
        d1, m2 = io("A.Step3", h.deliver("M1", lib.rd(m1, n1)), n2)
        if h.step("A.Step3", lib.btokBAuthTStep3(m2, d1, sa)): return h
        if not kcb:
            getkey("A", lib.btokBAuthTStepG, sa)
        n3 = (8 + no + B.cert_len) if kcb else 0
        d2, m3 = io("B.Step4", h.deliver("M2", lib.rd(m2, n2)), n3)
        if h.step("B.Step4", lib.btokBAuthCTStep4(m3, d2, sb)): return h
        getkey("B", lib.btokBAuthCTStepG, sb)
        if kcb:
            d3 = lib.mk(h.deliver("M3", lib.rd(m3, n3)))
            if h.step("A.Step5", lib.btokBAuthTStep5(d3, n3, A.cv_peer, sa)): return h
            getkey("A", lib.btokBAuthTStepG, sa)
    else:
        raise Harness(pr)
    return h


def run_pipe(env, cfg, donor=None):
    """the same history through RunA / RunB over the in-memory pipe; returns (Hist, codeA, codeB)"""
    lib, l = env.lib, cfg["l"]
    c = env.curve(l)
    P = build(env, cfg)
    A, B = P["A"], P["B"]
    h = Hist(cfg, c, donor)
    pr = cfg["proto"]
    pipe = Pipe(SENDS[pr], h.deliver)
    _PIPE["p"] = pipe
    fa, fb = lib.mk((0).to_bytes(8, "little")), lib.mk((1).to_bytes(8, "little"))
    ka, kb = lib.alloc(32), lib.alloc(32)
    if pr == "BMQV":
        ra = lambda: lib.bakeBMQVRunA(ka, A.params, A.settings, A.privkey, A.cert, A.peer_cert, READ_ADDR, WRITE_ADDR, fa)
        rb = lambda: lib.bakeBMQVRunB(kb, B.params, B.settings, B.privkey, B.cert, B.peer_cert, READ_ADDR, WRITE_ADDR, fb)
    elif pr == "BSTS":
        ra = lambda: lib.bakeBSTSRunA(ka, A.params, A.settings, A.privkey, A.cert, A.cv_peer, READ_ADDR, WRITE_ADDR, fa)
        rb = lambda: lib.bakeBSTSRunB(kb, B.params, B.settings, B.privkey, B.cert, B.cv_peer, READ_ADDR, WRITE_ADDR, fb)
    elif pr == "BPACE":
        ra = lambda: lib.bakeBPACERunA(ka, A.params, A.settings, A.pwd, A.pwd_len, READ_ADDR, WRITE_ADDR, fa)
        rb = lambda: lib.bakeBPACERunB(kb, B.params, B.settings, B.pwd, B.pwd_len, READ_ADDR, WRITE_ADDR, fb)
    else:
        raise Harness("no Run functions for " + pr)
    res = {}

    def tb():
        try:
            res["b"] = rb()
        except BaseException as e:      # noqa
            _CB_ERR.append("thread B: %r" % (e,))
        finally:
            pipe.inbox[0].put(_EOF)

    t = threading.Thread(target=tb, daemon=True)
    t.start()
    try:
        res["a"] = ra()
    finally:
        pipe.inbox[1].put(_EOF)
    t.join(120)
    _PIPE["p"] = None
    if t.is_alive() or pipe.timeout or "b" not in res:
        raise Harness("RunA/RunB did not terminate over the pipe (%s)" % cfg)
    h.step("A.Run", res["a"])
    h.step("B.Run", res["b"])
    if res["a"] == 0:
        h.key["A"] = lib.rd(ka, 32)
    if res["b"] == 0:
        h.key["B"] = lib.rd(kb, 32)
    return h, res["a"], res["b"]


def finish_case(lib):
    lib.release()
    _TAPES.clear()
    if _CB_ERR:
        e = list(_CB_ERR)
        del _CB_ERR[:]
        raise Harness("callback failure: %s" % e)


def public(cfg):
    return {k: v for k, v in cfg.items() if not k.startswith("_")}


def tamper_class(cfg):
    t = cfg.get("tamper")
    if not t:
        return None
    if t[0] == "flip":
        segs = layout(cfg["proto"], cfg["l"], cfg["kca"], cfg["kcb"], cfg["_ca"], cfg["_cb"])[t[1]]
        return "flip@" + seg_at(segs, t[2])
    if t[0] == "sub":
        return t[2]
    return t[0]


def judge(ctx, cfg, h, how="step"):
    """the verdict table; returns the list of violation keys raised"""
    fn = FN[cfg["proto"]] + ("Run" if how == "run" else "")
    kc = "kca=%d,kcb=%d" % (cfg["kca"], cfg["kcb"])
    det = {"cfg": public(cfg), "steps": [(s, errname(c)) for s, c in h.steps],
           "sent": {k: v.hex() for k, v in h.sent.items()}, "delivered": {k: v.hex() for k, v in h.delivered.items()},
           "keyA": h.key["A"], "keyB": h.key["B"]}
    keys = []
    t, mis = cfg.get("tamper"), cfg.get("mis")

    def viol(key, what):
        keys.append(key)
        ctx.violation(key, what, det, replay={"unit": "c04:unit_one", "params": {"cfg": public(cfg), "how": how}})

    if not t and not mis:
        hv = "shared-buffer" if cfg.get("shared") else "honest"
        sig = "" if cfg.get("shared") else ",l=%d,%s" % (cfg["l"], kc)      # the shared-buffer keys name the step only
        if h.err:
            viol("%s:%s-step-error:%s,%s%s" % (fn, hv, h.err[0], errname(h.err[1]), sig),
                 "%s run: %s returned %s" % (hv, h.err[0], errname(h.err[1])))
        elif h.key["A"] is None or h.key["B"] is None:
            raise Harness("honest run without error but without keys")
        elif h.key["A"] != h.key["B"]:
            viol("%s:%s-keys-differ%s" % (fn, hv, (":" + sig[1:]) if sig else ""), "%s run: the two 32-octet keys differ" % hv)
        return keys
    if t and not h.altered:
        # the run stopped before the altered message was produced: only possible if an honest prefix failed
        if not h.err:
            raise Harness("tamper not applied and no error: %r" % (t,))
        viol("%s:honest-step-error:%s,%s,l=%d,%s" % (fn, h.err[0], errname(h.err[1]), cfg["l"], kc),
             "honest prefix of a tampered history: %s returned %s" % (h.err[0], errname(h.err[1])))
        return keys
    if t:
        cat, cls = "tampered-%s" % t[1], tamper_class(cfg)
    else:
        cat, cls = "mismatch", mis.replace(":", "-")
    must_error = bool(mis) and mis.split(":")[0] in MUST_ERROR
    if h.bad_point:
        # an encoding that is not a point of the curve must be refused by the step that receives it
        rs = RECV[cfg["proto"]][h.bad_point]
        if how == "run":
            rs = rs[0] + ".Run"
        if any(s == rs and c == 0 for s, c in h.steps):
            viol("%s:invalid-point-accepted-by-receiver:%s" % (fn, rs),
                 "%s returned ERR_OK for a message %s whose point is not on the curve" % (rs, h.bad_point))
    if h.err:
        return keys
    if cfg["kca"] or cfg["kcb"] or must_error:
        viol("%s:%s-accepted:%s,%s" % (fn, cat, cls, kc),
             "altered run completed without any error although %s" %
             ("a party verifies a confirmation tag" if not must_error else "the certificate must be rejected"))
    elif h.key["A"] == h.key["B"]:
        viol("%s:%s-same-key:%s" % (fn, cat, cls), "altered run without confirmation: both parties derived the same key")
    return keys


def fold(ctx, cfg, h):
    """transcript digest: octet-level unless the tape is brngCTR (its output depends on the prior content of the
    output buffer by design, i.e. on the scratch fill)"""
    codes = [(s, c) for s, c in h.steps]
    if cfg.get("tape") == "ctr":
        ctx.digest(repr(codes), h.key["A"] == h.key["B"])
    else:
        ctx.digest(repr(codes), repr(sorted(h.delivered.items())), h.key["A"] or b"", h.key["B"] or b"")


def tag(ctx, *labels):
    for x in labels:
        ctx.classes[x] += 1


# ---------------------------------------------------------------------------
# history enumeration (pure function of tier, seed)
# ---------------------------------------------------------------------------

def cert_lens(l, cpad=None):
    cpad = cpad or {}
    return len(NAME_A) + cpad.get("A", 0) + l // 2, len(NAME_B) + cpad.get("B", 0) + l // 2


def base_cfg(proto, l, kca, kcb, n, ks=0):
    return {"proto": proto, "l": l, "kca": kca, "kcb": kcb, "ha": n % 4, "hb": (n // 4) % 4, "ts": n % 200, "ks": ks,
            "tape": "py"}


def enum_honest(tier, seed):
    out = []
    q = tier == "quick"
    tapes = ("py", "ctr", "u1", "uq1", "rej", "z")
    n = 0
    for l in (128, 192, 256):
        for proto in PROTOS:
            for kca, kcb in KC[proto]:
                for ha in range(4):
                    for hb in range(4):
                        reps = 1 if q else 6
                        for rep in range(reps):
                            n += 1
                            c = base_cfg(proto, l, kca, kcb, n, ks=(n % 3))
                            c["ha"], c["hb"] = ha, hb
                            c["ts"] = "%s/%d" % (seed, n)
                            c["tape"] = tapes[n % len(tapes)] if q and (ha + hb) % 2 else tapes[rep] if not q else "py"
                            if ha == 0 and hb == 0 and rep == 0:
                                c["hnull_len"] = 7        # null pointer with a non-zero length field: still "null"
                            c["pwd"] = [b"8086", b"", b"p", bytes(range(64))][(ha + 2 * hb + rep) % 4].hex()
                            out.append(c)
    return out


def enum_tamper(tier, seed):
    out = []
    q = tier == "quick"
    r = random.Random("c04enum/%s/%s" % (seed, tier))
    n = 0
    for l in (128, 192, 256):
        for proto in PROTOS:
            for kca, kcb in KC[proto]:
                ca, cb = cert_lens(l)
                lay = layout(proto, l, kca, kcb, ca, cb)
                # (a) every octet of every message
                for m, segs in sorted(lay.items()):
                    for i in range(mlen(segs)):
                        if q:
                            if l != 128 and r.randrange(6):
                                continue
                            bits = [r.randrange(8)]
                        else:
                            bits = range(8) if l == 128 else sorted(r.sample(range(8), 4))
                        for b in bits:
                            n += 1
                            c = base_cfg(proto, l, kca, kcb, n)
                            c["tamper"] = ["flip", m, i, b]
                            out.append(c)
                # (b) point substitutions, zero message, swap with an independent run
                reps = 1 if q else 4
                for rep in range(reps):
                    seen_point = False
                    for m, segs in sorted(lay.items()):
                        kinds = [("zero", m), ("swap", m)]
                        if point_off(segs) is not None:
                            for k in SUB_KINDS:
                                if k == "reflect" and not seen_point:
                                    continue        # nothing to reflect yet
                                kinds.append(("sub", m, k))
                            seen_point = True
                        for k in kinds:
                            n += 1
                            c = base_cfg(proto, l, kca, kcb, n)
                            c["tamper"] = list(k)
                            out.append(c)
    return out


def neg_tallied_only(proto, kcb):
    """y-negated points (x, p - y).  Where the protocol binds the whole point the statement's verdict applies and the
    alteration is judged like any other: BMQV (K = s(V - (2^l+t)Q) changes with the sign of V), BSTS (Step4/Step5
    compare sG + (2^l+t)Q with the full point V), BAUTH with kcb = 1 (Step5 compares with the full Vct).
    Tallied only, never judged: BPACE M2/M3 and BAUTH with kcb = 0 -- STB 34.101.66 / 34.101.79 use only
    x-coordinates there (K = <u V>_2l, hash over <Va>_2l || <Vb>_2l; BAUTH kcb = 0 uses Vct only through
    <dt Vct>_2l), so -V gives the same key by the standards' design and the unchanged tree accepts it."""
    return proto == "BPACE" or (proto == "BAUTH" and not kcb)


def enum_neg(tier, seed):
    """every transmitted point of every message, on all three curves, replaced by its negation"""
    out = []
    n = 0
    reps = 4 if tier == "quick" else 12
    for l in (128, 192, 256):
        for proto in PROTOS:
            for kca, kcb in KC[proto]:
                ca, cb = cert_lens(l)
                for m, segs in sorted(layout(proto, l, kca, kcb, ca, cb).items()):
                    if point_off(segs) is None:
                        continue
                    for rep in range(reps):
                        n += 1
                        c = base_cfg(proto, l, kca, kcb, 3 * n + rep)
                        c["tamper"] = ["sub", m, "negated-point"]
                        if neg_tallied_only(proto, kcb):
                            c["info"] = True
                        out.append(c)
    return out


def enum_shared(tier, seed):
    """honest runs in which every step that has an input and an output message gets ONE heap block
    (max(in_len, out_len) octets) as both `in` and `out` -- the way test/crypto/btok_test.c calls the BAUTH steps;
    bake.h / btok.h do not forbid it"""
    out = []
    n = 0
    reps = 4 if tier == "quick" else 16
    for l in (128, 192, 256):
        for proto in PROTOS:
            for kca, kcb in KC[proto]:
                for rep in range(reps):
                    n += 1
                    c = base_cfg(proto, l, kca, kcb, 5 * n + rep, ks=rep % 3)
                    c["ts"] = "%s/shared/%d" % (seed, n)
                    c["shared"] = [x for x in SHARED_STEPS[proto] if (proto, x) not in SHARED_UNJUDGED] \
                        if SHARED_UNJUDGED else "all"
                    c["pwd"] = [b"8086", b"", bytes(range(64)), b"pw"][rep % 4].hex()
                    out.append(c)
    return out


# steps with an input and an output message
SHARED_STEPS = {"BMQV": ["A.Step3", "B.Step4"], "BSTS": ["A.Step3", "B.Step4"], "BPACE": ["A.Step3", "B.Step4", "A.Step5"],
                "BAUTH": ["A.Step3", "B.Step4"]}
# (protocol, step) pairs that fail with out == in on the UNCHANGED library would be listed here (tallied, not
# judged).  Probed on the tree of 2026-09-26 (after the BAUTH Rt fix): every step of every protocol, on the three
# curves and all flag combinations, passes with a shared block and produces the same transcript -- nothing is exempt.
SHARED_UNJUDGED = set()


# mismatches for which an error code is promised whatever the confirmation flags are: a certval callback that
# returns an error, and public keys that are not points of the curve (bake.h: "this check is always performed")
MUST_ERROR = ("cvreject-own", "cvreject-peer", "cvoffcurve-peer", "offcurve", "gep", "othercurve")

MIS = {
    "BMQV": ["priv:A", "priv:B", "certname:A:B", "certname:B:A", "certkey:A:B", "certkey:B:A", "cvreject-own:A",
             "cvreject-own:B", "cvreject-peer:A", "cvreject-peer:B", "cvoffcurve-peer:A", "cvoffcurve-peer:B",
             "offcurve:A:A", "offcurve:B:B", "offcurve:A:B", "offcurve:B:A", "gep:A:A", "gep:B:A", "othercurve:A:A",
             "othercurve:B:B", "othercurve:A:B", "helloa:A", "helloa:B", "hellob:A", "hellob:B"],
    "BSTS": ["priv:A", "priv:B", "cvreject-own:A", "cvreject-own:B", "cvreject-peer:A", "cvreject-peer:B",
             "cvoffcurve-peer:A", "cvoffcurve-peer:B", "cvother-peer:A", "cvother-peer:B", "offcurve:A:A", "offcurve:B:B",
             "gep:A:A", "gep:B:B", "othercurve:A:A", "othercurve:B:B", "helloa:A", "helloa:B", "hellob:A", "hellob:B"],
    "BPACE": ["pwd-bit", "pwd-len", "pwd-empty", "pwd-trunc", "helloa:A", "helloa:B", "hellob:A", "hellob:B"],
    "BAUTH": ["priv:A", "certkey:A:B", "cvreject-own:A", "cvreject-own:B", "cvreject-peer:B", "cvoffcurve-peer:B",
              "offcurve:A:A", "offcurve:B:B", "offcurve:A:B", "gep:A:A", "othercurve:A:A", "othercurve:B:B",
              "othercurve:A:B", "helloa:A", "helloa:B", "hellob:A", "hellob:B"],
    # only meaningful when the token authenticates itself (kcb = 1)
    "BAUTH+kcb": ["priv:B", "cvreject-peer:A", "cvoffcurve-peer:A", "cvother-peer:A"],
}


def enum_mismatch(tier, seed):
    out = []
    n = 0
    reps = 1 if tier == "quick" else 4
    for l in (128, 192, 256):
        for proto in PROTOS:
            for kca, kcb in KC[proto]:
                lst = list(MIS[proto])
                if proto == "BAUTH" and kcb:
                    lst += MIS["BAUTH+kcb"]
                for mis in lst:
                    for rep in range(reps):
                        n += 1
                        c = base_cfg(proto, l, kca, kcb, n, ks=rep)
                        c["mis"] = mis
                        if mis.startswith("hello"):
                            # the altered hello must be non-empty
                            c["ha" if mis[5] == "a" else "hb"] = 2 + (n % 2)
                        if mis.startswith("pwd"):
                            c["pwd"] = [b"8086", b"", bytes(range(64)), b"pw"][(n + rep) % 4].hex()
                        out.append(c)
    return out


def enum_run(tier, seed):
    out = []
    n = 0
    q = tier == "quick"
    r = random.Random("c04run/%s/%s" % (seed, tier))
    for l in (128, 192, 256):
        for proto in ("BMQV", "BSTS", "BPACE"):
            for kca, kcb in KC[proto]:
                for rep in range(3 if q else 12):
                    n += 1
                    c = base_cfg(proto, l, kca, kcb, n + 7 * rep, ks=rep % 3)
                    c["ts"] = "%s/run/%d" % (seed, n)
                    if rep % 3 == 2:
                        c["tape"] = "ctr"
                    if proto == "BSTS" and rep % 3 == 1:
                        # M2 / M3 longer than RunA/RunB's 512-octet read block, never a multiple of 512
                        c["cpad"] = {"A": 300 + l, "B": 401}
                    out.append(c)
                    if proto == "BSTS" and rep < 3:
                        # certificates that are 4-octet identifiers (shorter than l/4 - 8): M1 is then longer than B's M3 and the
                        # drivers' out buffer is sized by a MAX
                        n += 1
                        c = base_cfg(proto, l, kca, kcb, n + 11 * rep, ks=rep % 3)
                        c["ts"] = "%s/run-short/%d" % (seed, n)
                        c["shortcert"] = ("AB", "B", "A")[rep]
                        out.append(c)
                # tampered ones: compared with the step-by-step verdict on the same tapes
                ca, cb = cert_lens(l)
                lay = layout(proto, l, kca, kcb, ca, cb)
                for m, segs in sorted(lay.items()):
                    tl = [["flip", m, r.randrange(mlen(segs)), r.randrange(8)], ["swap", m]]
                    if point_off(segs) is not None:
                        tl.append(["sub", m, r.choice(("offcurve-y+1", "x=p", "zero-point", "twist"))])
                    for t in (tl if not q else tl[:1] + tl[2:]):
                        n += 1
                        c = base_cfg(proto, l, kca, kcb, n)
                        c["tamper"] = t
                        out.append(c)
                if proto == "BSTS":
                    # the same alterations on messages longer than the drivers' 512-octet read block (the multi-chunk branch of
                    # bakeBSTSRunA/RunB is separate code): a flip in the first chunk, one behind it, the last octet, a foreign message
                    cpad = {"A": 300 + l, "B": 401}
                    lay2 = layout(proto, l, kca, kcb, *cert_lens(l, cpad))
                    for m, segs in sorted(lay2.items()):
                        ml = mlen(segs)
                        tl = [["flip", m, r.randrange(min(ml, 512)), r.randrange(8)], ["flip", m, ml - 1, r.randrange(8)], ["swap", m]]
                        if ml > 512:
                            tl.append(["flip", m, r.randrange(512, ml), r.randrange(8)])
                        for t in (tl if not q else [tl[r.randrange(2)], tl[-1]]):
                            n += 1
                            c = base_cfg(proto, l, kca, kcb, n)
                            c["tamper"] = t
                            c["cpad"] = dict(cpad)
                            out.append(c)
    return out


ENUM = {"honest": lambda t, s: enum_honest(t, s) + enum_shared(t, s),
        "tamper": lambda t, s: enum_tamper(t, s) + enum_neg(t, s), "mismatch": enum_mismatch,
        "run": enum_run}


def select(lst, chunk, of, scale, grp=None):
    if grp is not None:
        if grp == "bake":
            lst = [c for c in lst if c["proto"] != "BAUTH"]
        else:
            _, gl, gk = grp.split("-")
            lst = [c for c in lst if c["proto"] == "BAUTH" and c["l"] == int(gl) and c["kcb"] == int(gk)]
    if scale < 1.0:
        step = max(1, int(round(1.0 / scale)))
        lst = lst[::step]
    return lst[chunk::of]


# ---------------------------------------------------------------------------
# units
# ---------------------------------------------------------------------------

def donor_for(env, cfg, cache):
    """honest transcript of an independent run (other tapes, same long-term keys and settings)"""
    k = (cfg["proto"], cfg["l"], cfg["kca"], cfg["kcb"], cfg["ha"], cfg["hb"], cfg["ks"], repr(cfg.get("cpad")))
    d = cache.get(k)
    if d is None:
        dc = {kk: v for kk, v in cfg.items() if kk not in ("tamper", "mis", "_layout")}
        dc["ts"] = "donor/%s" % (cfg["ts"],)
        dc["tape"] = "py"
        hh = run_steps(env, dc)
        if hh.err or hh.key["A"] != hh.key["B"]:
            d = cache[k] = False
        else:
            d = cache[k] = dict(hh.sent)
        finish_case(env.lib)
    return d


def prep(cfg):
    cfg["_ca"], cfg["_cb"] = cert_lens(cfg["l"], cfg.get("cpad"))
    if "A" in cfg.get("shortcert", ""):
        cfg["_ca"] = 4
    if "B" in cfg.get("shortcert", ""):
        cfg["_cb"] = 4


def selftest(env):
    """appendix B.2-B.4 of STB 34.101.66 as embedded in test/crypto/bake_test.c: anchors struct layouts, callbacks
    and the step order of this host"""
    hx = bytes.fromhex
    da = hx("1F66B5B84B7339674533F0329C74F21834281FED0732429E0C79235FC273E269")
    db = hx("4C0E74B2CD5811AD21F23DE7E0FA742C3ED6EC483C461CE15C33A77AA308B7D2")
    qa = hx("BD1A5650179D79E03FCEE49D4C2BD5DDF54CE46D0CF11E4FF87BF7A890857FD07AC6A60361E8C8173491686D461B2826190C2EDA5909054A9AB84D2AB9D99A90")
    qb = hx("CCEEF1A313A406649D15DA0A851D486A695B641B20611776252FFDCE39C710607C9EA1F33C23D20DFCB8485A88BE6523A28ECC3215B47FA289D6C9BE1CE837C0")
    ra = hx("0A4E8298BE0839E46F19409F637F4415572251DD0D39284F0F0390D93BBCE9EC")
    rb = hx("0F51D91347617C20BD4AB07AEF4F26A1AD1362A8F9A3D42FBE1B8E6F1C88AAD5")
    pa = hx("AD1362A8F9A3D42FBE1B8E6F1C88AAD5") + ra
    pb = hx("0F51D91347617C20BD4AB07AEF4F26A1F81B29D571F6452FF8B2B97F57E18A58BC946FEE45EAB32B06FCAC23A33F422B")
    want = {"BMQV": "C6F86D0E468D5EF1A9955B2EE0CF0581050C81D1B47727092408E863C7EEB48C",
            "BSTS": "78EF2C56BD6DA2116BB5BEE80CEE5C05394E7609183CF7F76DF0C2DCFB25C4AD",
            "BPACE": "DAC4D8F411F9C523D28BBAAB32A5270E4DFA1F0F757EF8E0F30AF08FBDE1E7F4"}
    env._keys[(128, "A", "std")] = (da, qa)
    env._keys[(128, "B", "std")] = (db, qb)
    env._keys[(128, "X", "std")] = (db, qb)
    for proto in ("BMQV", "BSTS", "BPACE"):
        cfg = {"proto": proto, "l": 128, "kca": 1, "kcb": 1, "ha": 0, "hb": 0, "ts": "std", "ks": "std", "tape": "py",
               "echo": {"A": ra if proto != "BPACE" else pa, "B": rb if proto != "BPACE" else pb}, "pwd": "38303836"}
        h = run_steps(env, cfg)
        ok = not h.err and h.key["A"] == h.key["B"] == bytes.fromhex(want[proto])
        finish_case(env.lib)
        if not ok:
            raise Harness("host self-test: %s does not reproduce the appendix vector (%r)" % (proto, h.steps))


def run_case(ctx, env, cfg, how, donors):
    """one history (already announced); returns violation keys"""
    prep(cfg)
    donor = None
    if cfg.get("tamper") and cfg["tamper"][0] == "swap":
        donor = donor_for(env, cfg, donors)
        if donor is False:
            raise Harness("donor run failed")
    if how == "step":
        h = run_steps(env, cfg, donor)
        fold(ctx, cfg, h)
        if cfg.get("info"):
            acc = not h.err and (cfg["kca"] or cfg["kcb"] or h.key["A"] == h.key["B"])
            d = ctx.extra.setdefault("info_negated_point", {})
            k = "%s-%s-%s" % (cfg["proto"], cfg["tamper"][1], "accepted" if acc else "rejected")
            d[k] = d.get(k, 0) + 1
            keys = []
        else:
            keys = judge(ctx, cfg, h)
        finish_case(env.lib)
        if cfg.get("shared") and cfg.get("tape", "py") != "ctr":
            # same tapes with separate buffers: the transcript must be the same octet for octet
            cfg2 = {k: v for k, v in cfg.items() if k not in ("_layout", "shared")}
            prep(cfg2)
            h2 = run_steps(env, cfg2, donor)
            finish_case(env.lib)
            if (h.steps, h.sent, h.key) != (h2.steps, h2.sent, h2.key):
                first = next((m for m in sorted(h2.sent) if h.sent.get(m) != h2.sent[m]), None)
                key = "%s:shared-buffer-differs:%s" % (FN[cfg["proto"]], first or "steps-or-key")
                keys.append(key)
                ctx.violation(key, "the same honest run gives another transcript when a step's in and out are one block",
                              {"cfg": public(cfg), "shared": {"steps": [(s, errname(c)) for s, c in h.steps], "sent": h.sent, "key": h.key},
                               "separate": {"steps": [(s, errname(c)) for s, c in h2.steps], "sent": h2.sent, "key": h2.key}},
                              replay={"unit": "c04:unit_one", "params": {"cfg": public(cfg), "how": how}})
        return keys
    # RunA / RunB, then the same tapes step by step
    h, ca, cb = run_pipe(env, cfg, donor)
    fold(ctx, cfg, h)
    keys = judge(ctx, cfg, h, "run")
    finish_case(env.lib)
    if cfg.get("tape") != "ctr":
        cfg2 = {k: v for k, v in cfg.items() if k != "_layout"}
        hs = run_steps(env, cfg2, donor)
        finish_case(env.lib)
        eof = errcode("ERR_FILE_READ")
        exp = {}
        for side in ("A", "B"):
            errs = [c for s, c in hs.steps if s.startswith(side + ".") and c]
            if errs:
                exp[side] = (errs[0], None)
            elif hs.key[side] is not None:
                exp[side] = (0, hs.key[side])
            else:
                exp[side] = (eof, None)         # starved: the peer stopped
        got = {"A": (ca, h.key["A"]), "B": (cb, h.key["B"])}
        if exp != got:
            key = "%sRun:differs-from-steps:%s,kca=%d,kcb=%d" % (FN[cfg["proto"]], tamper_class(cfg) or "honest",
                                                                cfg["kca"], cfg["kcb"])
            keys.append(key)
            ctx.violation(key, "RunA/RunB and the step functions disagree on the same tapes",
                          {"cfg": public(cfg), "steps": {k: (errname(v[0]), v[1]) for k, v in exp.items()},
                           "run": {k: (errname(v[0]), v[1]) for k, v in got.items()}},
                          replay={"unit": "c04:unit_one", "params": {"cfg": public(cfg), "how": "run"}})
        ctx.digest(repr(sorted(exp.items())))
    return keys


def labels(cfg, how):
    p = cfg["proto"]
    out = ["%s:l=%d" % (p, cfg["l"]), "%s:kca=%d,kcb=%d" % (p, cfg["kca"], cfg["kcb"])]
    if cfg.get("tamper"):
        out.append("%s:%s:%s" % (p, cfg["tamper"][1], tamper_class(cfg)))
    elif cfg.get("mis"):
        out.append("mis:%s:%s" % (p, cfg["mis"]))
    else:
        out.append("hello:%s/%s" % tuple(("null", "empty", "1", "64")[cfg[k]] for k in ("ha", "hb")))
        out.append("tape:" + cfg.get("tape", "py"))
        if cfg.get("shared"):
            out.append("shared-buffer:%s" % p)
        if cfg.get("cpad"):
            out.append("run:multi-block-cert")
    return out


def main_class(cfg, how):
    p = cfg["proto"]
    pre = "run-" if how == "run" else ""
    if cfg.get("info"):
        return "info-negated:" + p
    if cfg.get("tamper"):
        t = cfg["tamper"]
        k = t[0] if t[0] != "sub" else ("offcurve" if t[2].startswith("offcurve") else
                                         "out-of-field" if t[2] in ("x=p", "x=max", "y=p", "y=max", "x+p") else t[2])
        return "%s%s:%s" % (pre, k, p)
    if cfg.get("mis"):
        return "mismatch:%s:%s" % (p, cfg["mis"].split(":")[0].split("-")[0])
    if cfg.get("shared"):
        return "honest:shared-buffer"
    return "%shonest:%s" % (pre, p)


def unit_hist(ctx):
    kind = ctx.params["kind"]
    env = Env(ctx.lib)
    selftest(env)
    lst = select(ENUM[kind](ctx.tier if not ctx.params.get("as_quick") else "quick", ctx.seed),
                 ctx.params["chunk"], ctx.params["of"], ctx.params.get("scale", 1.0), ctx.params.get("grp"))
    how = "run" if kind == "run" else "step"
    donors = {}
    for cfg in lst:
        prep(cfg)
        if not ctx.case(public(cfg), main_class(cfg, how)):
            continue
        tag(ctx, *labels(cfg, how))
        run_case(ctx, env, cfg, how, donors)
    ctx.note("certval_callbacks", _CV_STATE["calls"])


def unit_short_m2(ctx):
    """BSTS, party B against a peer that knows the session keys and sends a *short* M2 with a valid tag:
    M2 = Va || Ya || Ta with |Ya| = k <= l/4 cannot hold s_a || cert_a; bakeBSTSStep4 must refuse it by its length
    (bake.h: in_len > 3 l/4 + 8 ... ) without reading what is not there (M2 is an exact-size block under ASan).
    The keys are derived as the library's own party A derives them: K = belt-hash(DH), K1 = belt-krp(K, FF^12, <1>)."""
    env = Env(ctx.lib)
    lib, rng = ctx.lib, ctx.rng
    BAD_INPUT = errcode("ERR_BAD_INPUT")
    for l in (128, 192, 256):
        no = l // 4
        for k in (0, 1, 5, no - 1, no, no + 1):
            seed = rng.getrandbits(30)
            if not ctx.case(["bsts-short-M2", l, k, seed], "short-M2:%s" % ("k<=l/4" if k <= no else "k=l/4+1")):
                continue
            cfg = base_cfg("BSTS", l, 1, 1, seed % 977, ks=seed)
            P = build(env, cfg)
            B = P["B"]
            sb = lib.alloc(lib.bakeBSTS_keep(l))
            if lib.bakeBSTSStart(sb, B.params, B.settings, B.privkey, B.cert) != 0:
                raise Harness("bakeBSTSStart")
            m1 = lib.alloc(2 * no)
            if lib.bakeBSTSStep2(m1, sb) != 0:
                raise Harness("bakeBSTSStep2")
            # the peer: ephemeral key pair, shared keys
            ua = random.Random(seed).randrange(1, env.curve(l)["q"]).to_bytes(no, "little")
            Va, K, K1 = lib.alloc(2 * no), lib.alloc(no), lib.alloc(32)
            if lib.bignPubkeyCalc(Va, B.params, lib.mk(ua)) != 0 or lib.bignDH(K, B.params, lib.mk(ua), m1, no) != 0:
                raise Harness("peer key agreement")
            Kh = lib.alloc(32)
            lib.beltHash(Kh, K, no)
            if lib.beltKRP(K1, 32, Kh, 32, lib.mk(b"\xff" * 12), lib.mk(b"\x01" + bytes(15))) != 0:
                raise Harness("beltKRP")
            Ya = bytes(rng.getrandbits(8) for _ in range(k))
            ta = lib.alloc(8)
            if lib.beltMAC(ta, lib.mk(Ya + bytes(16)), k + 16, K1, 32) != 0:
                raise Harness("beltMAC")
            M2 = lib.rd(Va, 2 * no) + Ya + lib.rd(ta, 8)
            out = lib.alloc(no + B.cert_len + 8)
            r = lib.bakeBSTSStep4(out, lib.mk(M2), len(M2), B.cv_peer, sb)
            ctx.digest(r)
            if k <= no and r != BAD_INPUT:
                ctx.violation("bakeBSTSStep4:short-M2:not-refused-by-length", "M2 too short to hold s_a || cert_a is not refused with ERR_BAD_INPUT",
                              {"l": l, "k": k, "ret": errname(r), "M2": M2})
            if r == 0:
                ctx.violation("bakeBSTSStep4:short-M2:accepted", "a short M2 was accepted", {"l": l, "k": k, "M2": M2})
            finish_case(lib)


def unit_one(ctx):
    """replay of one literal history"""
    env = Env(ctx.lib)
    selftest(env)
    cfg = dict(ctx.params["cfg"])
    prep(cfg)
    ctx.case(public(cfg), "replay")
    run_case(ctx, env, cfg, ctx.params.get("how", "step"), {})


# ---------------------------------------------------------------------------
# jobs
# ---------------------------------------------------------------------------

# Jobs are partitioned by protocol family and, for the token protocol, by (curve, kcb): a worker that dies loses
# the statistics of its segment, so a defect that kills the worker in one configuration must not share jobs with
# the others.
def jobs(tier, scale=1.0):
    q = tier == "quick"
    out = []
    groups = ["bake"] + ["bauth-%d-%d" % (l, k) for l in (128, 192, 256) for k in (0, 1)]
    for kind in ("honest", "tamper", "mismatch", "run"):
        for grp in groups:
            if kind == "run" and grp != "bake":
                continue
            if grp == "bake":
                of = {"honest": 10, "tamper": 28, "mismatch": 6, "run": 10}[kind]
            else:
                of = {"honest": 1, "tamper": 3 if q else 8, "mismatch": 1}[kind]
            for k in range(of):
                p = {"kind": kind, "chunk": k, "of": of, "grp": grp}
                if scale != 1.0:
                    p["scale"] = scale
                out.append({"unit": "c04:unit_hist", "params": p})
    out.append({"unit": "c04:unit_short_m2", "params": {}, "always": True})
    return out


REQUIRED = tuple("%s:%s" % (k, p) for p in PROTOS for k in ("honest", "flip", "zero", "swap", "offcurve", "out-of-field",
                                                              "zero-point", "twist")) + \
    tuple("run-honest:%s" % p for p in ("BMQV", "BSTS", "BPACE")) + \
    tuple("run-flip:%s" % p for p in ("BMQV", "BSTS", "BPACE")) + \
    ("honest:shared-buffer", "shared-buffer:BMQV", "shared-buffer:BSTS", "shared-buffer:BPACE", "shared-buffer:BAUTH",
     "negated-point:BMQV", "negated-point:BSTS", "negated-point:BAUTH", "info-negated:BPACE", "info-negated:BAUTH",
     "mismatch:BPACE:pwd", "mismatch:BMQV:priv", "mismatch:BSTS:cvreject", "mismatch:BAUTH:certkey",
     "mismatch:BMQV:othercurve", "mismatch:BSTS:hellob", "tape:ctr", "tape:u1", "tape:uq1", "tape:rej", "tape:z",
     "hello:null/null", "hello:64/64", "hello:empty/1", "run:multi-block-cert")


def main(run):
    js = [dict(j, cfg="asan64") for j in jobs(run.tier)]
    if run.tier != "quick":
        # the 32-bit-word build on a reduced copy of the quick workload
        for j in jobs("quick", 0.25):
            j = dict(j, cfg="asan32")
            j["params"] = dict(j["params"], as_quick=1)
            js.append(j)
    run.run_jobs(js, max_restarts=600)
    return run.finish(
        rule="one case = one protocol history (protocol, curve, kca/kcb, hello pair, generator tapes, long-term keys, "
             "alteration); distinct = distinct descriptors; every case runs the whole protocol between two parties "
             "hosted in one process on exact-size heap buffers",
        assumptions=[
            "certificates are opaque name||pubkey strings checked by a caller-supplied callback, as in test/crypto/bake_test.c",
            "an altered history is accepted as detected when any step of either party returns an error; without "
            "confirmation (kca=kcb=0) differing keys are required instead",
            "additionally, a delivered message whose point encoding is not a point of the curve (off-curve, coordinate >= p, "
            "zero, twist) must be refused by the very step that receives it: STB 34.101.66 places the test V in E* there",
            "y-negated points (x, p-y) are judged by the statement's verdict wherever the protocol binds the whole point "
            "(BMQV, BSTS, BAUTH with kcb=1); in BPACE (M2, M3) and BAUTH with kcb=0 the standards use x-coordinates only, "
            "-V yields the same key by design: those are run and tallied in info_negated_point, never judged",
            "honest:shared-buffer: a step's input and output message may be one block (bake.h does not forbid it, "
            "btok_test.c calls the BAUTH steps so); every step passes this on the unchanged tree, so all are judged",
            "BAUTH with kcb=0 does not authenticate the token, so a token key/certificate mismatch is only tested with kcb=1",
            "the pipe delivers whole messages (bake_test.c file semantics); message lengths that are multiples of the "
            "512-octet read block of bakeBSTSRunA/B are not generated",
            "hello strings are compared as the concatenation helloa||hellob (null and empty are the same string)"],
        min_eval=1000, required_classes=REQUIRED)
