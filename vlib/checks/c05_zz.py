"""C05, first half — word helpers (u16/u32/u64), multi-word layer (ww.h) and big-integer layer (zz.h)
against exact Python-integer oracles written from the header formulas.

Every exported function is driven with operand lengths 0..20 words, a boundary-value catalogue, every
aliasing the header allows, exact-size heap buffers and scratch stacks of exactly `_deep()` octets.
SAFE/FAST pairs are both driven and compared with each other.  Everything is word-size agnostic
(lib.W = 4 or 8).

No main(): the maintainer's c05.py combines jobs() of this module with c05_pp.jobs().
"""
import ctypes, math, os, re, signal, tempfile
from collections import Counter
from ..core import Harness

LEVEL = "exploration"
LENS = list(range(0, 21))

# functions that have a regular edition f and a fast edition f_fast
PAIRS = {
    "u16CTZ", "u16CLZ", "u32CTZ", "u32CLZ", "u64CTZ", "u64CLZ",
    "wwEq", "wwCmp", "wwCmp2", "wwCmpW", "wwIsZero", "wwIsW", "wwIsRepW",
    "zzIsSumEq", "zzIsSumWEq", "zzAddMod", "zzAddWMod", "zzSubMod", "zzSubWMod", "zzNegMod",
    "zzDoubleMod", "zzHalfMod", "zzRedCrand", "zzRedBarr", "zzRedMont", "zzRedCrandMont",
}

# bign standard parameters (STB 34.101.45, curves 128/192/256): p = 2^l - c, q
STD = {
    256: (2**256 - 189, 0xffffffffffffffffffffffffffffffffd95c8ed60dfb4dfc7e5abf99263d6607),
    384: (2**384 - 317, 0xfffffffffffffffffffffffffffffffffffffffffffffffe6cccc40373af7bbb8046dae7a6a4ff0a3db7dc3ff30ca7b7),
    512: (2**512 - 569, 0xffffffffffffffffffffffffffffffffffffffffffffffffffffffffffffffffb2c0092c0198004ef26bebb02e2113f4361bcae59556df32dcffad490d068ef1),
}


# ----------------------------------------------------------------------------------------------
# reference helpers (naive on purpose)
# ----------------------------------------------------------------------------------------------

def is_prime(n):
    if n < 2:
        return False
    small = (2, 3, 5, 7, 11, 13, 17, 19, 23, 29, 31, 37)
    for p in small:
        if n % p == 0:
            return n == p
    d, s = n - 1, 0
    while d % 2 == 0:
        d //= 2
        s += 1
    for a in small:
        x = pow(a, d, n)
        if x in (1, n - 1):
            continue
        for _ in range(s - 1):
            x = x * x % n
            if x == n - 1:
                break
        else:
            return False
    return True


_PRIMES = {}


def primes_for(n, bw):
    """a few primes with exactly n words of bw bits (n*bw <= 256): largest below B^n, smallest above
    2^(n*bw-1), smallest above B^(n-1)"""
    key = (n, bw)
    if key not in _PRIMES:
        top = 1 << (n * bw)
        out = []
        p = top - 1
        while not is_prime(p):
            p -= 2
        out.append(p)
        p = (top >> 1) + 1
        while not is_prime(p):
            p += 2
        out.append(p)
        if n > 1:
            p = (top >> bw) + 1
            while not is_prime(p):
                p += 2
            out.append(p)
        _PRIMES[key] = out
    return _PRIMES[key]


def jacobi(a, b):
    """Jacobi symbol (a/b), b odd positive — textbook binary algorithm"""
    a %= b
    t = 1
    while a:
        while a % 2 == 0:
            a //= 2
            if b % 8 in (3, 5):
                t = -t
        a, b = b, a
        if a % 4 == 3 and b % 4 == 3:
            t = -t
        a %= b
    return t if b == 1 else 0


def naf_digits(a, w):
    """window NAF of a as documented in ww.h (including the documented suffix replacement)"""
    digs = []
    x = a
    while x:
        if x & 1:
            d = x & ((1 << w) - 1)
            if d >= (1 << (w - 1)):
                d -= 1 << w
            x -= d
        else:
            d = 0
        digs.append(d)
        x >>= 1
    l = len(digs)
    if l >= w + 1 and digs[-1] == 1 and all(d == 0 for d in digs[l - w:l - 1]) and digs[l - w - 1] < 0:
        alpha = digs[l - w - 1]
        digs = digs[:l - w - 1] + [(1 << (w - 1)) + alpha] + [0] * (w - 2) + [1]
    return digs


def naf_encode(digs, w):
    code, pos = 0, 0
    for d in reversed(digs):           # a_{l-1} occupies the first (lowest) positions
        if d == 0:
            pos += 1
        else:
            sym = d if d > 0 else ((1 << (w - 1)) | -d)
            code |= sym << pos
            pos += w
    return code


def bitrev(w, bits):
    return int(format(w, "0%db" % bits)[::-1], 2)


def shuffle(w, bits):
    h = bits // 2
    r = 0
    for i in range(h):
        r |= ((w >> i) & 1) << (2 * i)
        r |= ((w >> (h + i)) & 1) << (2 * i + 1)
    return r


def deshuffle(w, bits):
    h = bits // 2
    r = 0
    for i in range(h):
        r |= ((w >> (2 * i)) & 1) << i
        r |= ((w >> (2 * i + 1)) & 1) << (h + i)
    return r


def ctz(w, bits):
    return bits if w == 0 else (w & -w).bit_length() - 1


def selftest():
    for p in (3, 5, 7, 11, 13, 101, 257):
        for a in range(0, 2 * p + 1):
            e = pow(a, (p - 1) // 2, p)
            e = -1 if e == p - 1 else e
            if jacobi(a, p) != e:
                raise Harness("jacobi model vs Euler criterion: (%d/%d)" % (a, p))
    for b, fs in ((15, (3, 5)), (21, (3, 7)), (45, (3, 3, 5)), (1155, (3, 5, 7, 11))):
        for a in range(0, 2 * b):
            e = 1
            for p in fs:
                e *= jacobi(a, p)
            if jacobi(a, b) != e:
                raise Harness("jacobi model not multiplicative: (%d/%d)" % (a, b))
    for w in (2, 3, 4, 5, 7):
        for a in list(range(0, 600)) + [2**64 - 1, 2**64 - 3, 0xF0F0F0F0F0F0F0F1, 3 << 70]:
            d = naf_digits(a, w)
            if sum(x << i for i, x in enumerate(d)) != a:
                raise Harness("naf model: value")
            if any(x and (x % 2 == 0 or abs(x) >= (1 << (w - 1))) for x in d):
                raise Harness("naf model: digit set")
            if a and d[-1] == 0:
                raise Harness("naf model: top digit")
            if len(d) > a.bit_length() + 1:
                raise Harness("naf model: length")
            # non-adjacency holds except across the documented replaced suffix
            nz = [i for i, x in enumerate(d) if x]
            for i, j in zip(nz, nz[1:]):
                if j - i < w and j != len(d) - 1:
                    raise Harness("naf model: adjacency")
    for bits in (16, 32, 64):
        for w in (0, 1, 0x8001, 0x1234, (1 << bits) - 1, 0xA5A5 << (bits - 16)):
            if deshuffle(shuffle(w, bits), bits) != w or bitrev(bitrev(w, bits), bits) != w:
                raise Harness("shuffle/bitrev model")
    if shuffle(0x00FF, 16) != 0x5555 or shuffle(0xFF00, 16) != 0xAAAA:
        raise Harness("shuffle model orientation")
    if not (is_prime(2**256 - 189) and is_prime(STD[256][1]) and not is_prime(2**256 - 187)):
        raise Harness("Miller-Rabin model")


# ----------------------------------------------------------------------------------------------
# value catalogues
# ----------------------------------------------------------------------------------------------

VAL_KINDS = ("0", "1", "2", "B-1", "B^n-1", "B^(n-1)", "bit-at-word-boundary", "bit-below-word-boundary",
             "all-ones-words", "alt-0F", "alt-F0", "special-words", "sparse", "random", "random", "random-short")


def special_words(rng, n, bw):
    B = 1 << bw
    sw = (0, 0, 1, 2, B // 2 - 1, B // 2, B // 2 + 1, B - 2, B - 1, B - 1, rng.getrandbits(bw))
    v = 0
    for i in range(n):
        v |= rng.choice(sw) << (bw * i)
    return v


def val(rng, n, bw, kind=None):
    """(label, value): an n-word operand from the boundary catalogue"""
    if n == 0:
        return "0", 0
    B = 1 << bw
    top = 1 << (bw * n)
    k = kind or rng.choice(VAL_KINDS)
    if k == "0":
        v = 0
    elif k == "1":
        v = 1
    elif k == "2":
        v = 2
    elif k == "B-1":
        v = B - 1
    elif k == "B^n-1":
        v = top - 1
    elif k == "B^(n-1)":
        v = top >> bw
    elif k == "bit-at-word-boundary":
        v = 1 << (bw * rng.randrange(n))
    elif k == "bit-below-word-boundary":
        v = 1 << (bw * rng.randrange(1, n + 1) - 1)
    elif k == "all-ones-words":
        v = 0
        for i in range(n):
            if rng.random() < 0.6:
                v |= (B - 1) << (bw * i)
    elif k == "alt-0F":
        v = sum((B - 1) << (bw * i) for i in range(1, n, 2))
    elif k == "alt-F0":
        v = sum((B - 1) << (bw * i) for i in range(0, n, 2))
    elif k == "special-words":
        v = special_words(rng, n, bw)
    elif k == "sparse":
        v = 0
        for _ in range(rng.randrange(1, 5)):
            v |= 1 << rng.randrange(bw * n)
    elif k == "random-short":
        v = rng.getrandbits(rng.randrange(1, bw * n + 1))
    else:
        k = "random"
        v = rng.getrandbits(bw * n)
    return k, v


def word(rng, bw, nz=False):
    B = 1 << bw
    w = rng.choice((0, 1, 2, 3, B // 2 - 1, B // 2, B // 2 + 1, B - 2, B - 1,
                    rng.getrandbits(bw), rng.getrandbits(bw), rng.getrandbits(bw // 2)))
    if nz and w == 0:
        w = 1
    return w


MOD_KINDS = ("B^n-1", "crandall", "crandall", "B^(n-1)", "B^(n-1)+1", "top-bit-only+1", "odd-top-set", "odd-top-set",
             "odd-top-clear", "even-top-set", "even-top-clear", "small-top-word", "std", "prime", "composite", "tiny",
             "B^n-B^j+c", "B^n-B^j+c")


def modulus(rng, n, bw, odd=False, kinds=None):
    """(label, m) with max(2, B^(n-1)) <= m < B^n, n >= 1"""
    B = 1 << bw
    top = 1 << (bw * n)
    lo = top >> bw
    k = rng.choice(kinds or MOD_KINDS)
    r = rng.getrandbits(bw * n)
    c = rng.choice((1, 3, 5, 189, 317, 569, B - 1, B - 3, 2, B - 2, 1 + r % (B - 1), (r % (B - 1)) | 1))
    if k == "std":
        if n * bw in STD:
            m = STD[n * bw][r & 1]
            k = "std-p" if m == STD[n * bw][0] else "std-q"
        else:
            k = "crandall"
    if k == "prime":
        if n * bw <= 256:
            ps = primes_for(n, bw)
            m = ps[r % len(ps)]
        else:
            k = "odd-top-set"
    if k == "B^n-B^j+c":
        # high words all ones, then zeros: Barrett's quotient estimate is off by 2 for such moduli
        if n > 1:
            j = n // 2 if r & 1 else 1 + (r >> 1) % (n - 1)
            m = top - (1 << (bw * j)) + (1, 1, 3, 1 + (r >> 8) % (1 << (bw * j // 2)))[(r >> 4) % 4]
        else:
            k = "crandall"
    if k == "B^n-1":
        m = top - 1
    elif k == "crandall":
        m = top - c
    elif k == "B^(n-1)":
        m = lo
    elif k == "B^(n-1)+1":
        m = lo + 1
    elif k == "top-bit-only+1":
        m = (top >> 1) + 1
    elif k == "odd-top-set":
        m = r | (top >> 1) | 1
    elif k == "odd-top-clear":
        m = (r & ~(top >> 1)) | 1 | (lo if n > 1 else 0)
    elif k == "even-top-set":
        m = (r | (top >> 1)) & ~1
    elif k == "even-top-clear":
        m = ((r & ~(top >> 1)) & ~1) | (lo if n > 1 else 2)
    elif k == "small-top-word":
        m = (1 + r % 3) * lo + ((r >> 2) % lo)
    elif k == "composite":
        h = (bw * n) // 2
        x = (r >> h) | 1 | (1 << (bw * n - h - 1))
        y = (r & ((1 << h) - 1)) | 1 | (1 << max(h - 1, 0))
        m = x * y
        if not lo <= m < top:
            m = (r | (top >> 1) | 1)
            k = "odd-top-set"
    elif k == "tiny":
        t = (1, 2, 3, 4, 5, 7, 9, 15, 16, 255)[r % 10]
        m = t if n == 1 else lo + t
    if odd and m % 2 == 0:
        m |= 1
        k += "|1"
    if m == 1:                                   # the property quantifies over moduli > 1
        m, k = (3 if odd else 2), "tiny"
    if not (lo <= m < top) or m < 2:
        raise Harness("modulus generator: %s n=%d" % (k, n))
    return k, m


BELOW_KINDS = ("0", "1", "2", "mod-1", "mod-2", "half", "half+1", "low-word-ones", "B^k", "random", "random", "random")


def below(rng, m, n, bw, kind=None, nz=False):
    """(label, value) with 0 <= value < m"""
    k = kind or rng.choice(BELOW_KINDS)
    r = rng.randrange(m)
    if k == "0":
        v = 0
    elif k == "1":
        v = 1 % m
    elif k == "2":
        v = 2 % m
    elif k == "mod-1":
        v = m - 1
    elif k == "mod-2":
        v = (m - 2) % m
    elif k == "half":
        v = m // 2
    elif k == "half+1":
        v = (m // 2 + 1) % m
    elif k == "low-word-ones":
        v = ((1 << bw) - 1) % m
    elif k == "B^k":
        v = (1 << (bw * (r % max(n, 1)))) % m
    else:
        k, v = "random", r
    if nz and v == 0:
        v = 1 % m
        k = "1"
    return k, v


# ----------------------------------------------------------------------------------------------
# signatures: kind:name[:size expression]   kinds: i input array, o output array, x in/out array,
# z size_t, w word, I int, s scratch stack (size in octets).  Sizes are in words; the expressions see
# the case's scalar arguments, L = the library (for _deep), W = octets per word.
# ----------------------------------------------------------------------------------------------

SPEC = {
    # ww.h
    "wwCopy": ("v", "o:b:n i:a:n z:n"),
    "wwSwap": ("v", "x:a:n x:b:n z:n"),
    "wwEq": ("b", "i:a:n i:b:n z:n"),
    "wwCmp": ("i", "i:a:n i:b:n z:n"),
    "wwCmp2": ("i", "i:a:n z:n i:b:m z:m"),
    "wwCmpW": ("i", "i:a:n z:n w:w"),
    "wwXor": ("v", "o:c:n i:a:n i:b:n z:n"),
    "wwXor2": ("v", "x:b:n i:a:n z:n"),
    "wwSetZero": ("v", "o:a:n z:n"),
    "wwSetW": ("v", "o:a:n z:n w:w"),
    "wwRepW": ("v", "o:a:n z:n w:w"),
    "wwIsZero": ("b", "i:a:n z:n"),
    "wwIsW": ("b", "i:a:n z:n w:w"),
    "wwIsRepW": ("b", "i:a:n z:n w:w"),
    "wwWordSize": ("z", "i:a:n z:n"),
    "wwOctetSize": ("z", "i:a:n z:n"),
    "wwTestBit": ("b", "i:a:n z:pos"),
    "wwGetBits": ("w", "i:a:n z:pos z:width"),
    "wwSetBit": ("v", "x:a:n z:pos I:val"),
    "wwSetBits": ("v", "x:a:n z:pos z:width w:val"),
    "wwFlipBit": ("v", "x:a:n z:pos"),
    "wwLoZeroBits": ("z", "i:a:n z:n"),
    "wwHiZeroBits": ("z", "i:a:n z:n"),
    "wwBitSize": ("z", "i:a:n z:n"),
    "wwNAF": ("z", "o:naf:2*n+1 i:a:n z:n z:w"),
    "wwShLo": ("v", "x:a:n z:n z:shift"),
    "wwShLoCarry": ("w", "x:a:n z:n z:shift w:carry"),
    "wwShHi": ("v", "x:a:n z:n z:shift"),
    "wwShHiCarry": ("w", "x:a:n z:n z:shift w:carry"),
    "wwTrimLo": ("v", "x:a:n z:n z:pos"),
    "wwTrimHi": ("v", "x:a:n z:n z:pos"),
    # zz.h: additive, multiplicative
    "zzIsEven": ("b", "i:a:n z:n"),
    "zzIsOdd": ("b", "i:a:n z:n"),
    "zzAdd": ("w", "o:c:n i:a:n i:b:n z:n"),
    "zzAdd2": ("w", "x:b:n i:a:n z:n"),
    "zzAdd3": ("w", "o:c:max(n,m) i:a:n z:n i:b:m z:m"),
    "zzAddW": ("w", "o:b:n i:a:n z:n w:w"),
    "zzAddW2": ("w", "x:a:n z:n w:w"),
    "zzIsSumEq": ("b", "i:c:n i:a:n i:b:n z:n"),
    "zzIsSumWEq": ("b", "i:b:n i:a:n z:n w:w"),
    "zzSub": ("w", "o:c:n i:a:n i:b:n z:n"),
    "zzSub2": ("w", "x:b:n i:a:n z:n"),
    "zzSubW": ("w", "o:b:n i:a:n z:n w:w"),
    "zzSubW2": ("w", "x:a:n z:n w:w"),
    "zzNeg": ("v", "o:b:n i:a:n z:n"),
    "zzMulW": ("w", "o:b:n i:a:n z:n w:w"),
    "zzAddMulW": ("w", "x:b:n i:a:n z:n w:w"),
    "zzSubMulW": ("w", "x:b:n i:a:n z:n w:w"),
    "zzMul": ("v", "o:c:n+m i:a:n z:n i:b:m z:m s:L.zzMul_deep(n,m)"),
    "zzSqr": ("v", "o:b:2*n i:a:n z:n s:L.zzSqr_deep(n)"),
    "zzSqrt": ("b", "o:b:(n+1)//2 i:a:n z:n s:L.zzSqrt_deep(n)"),
    "zzDivW": ("w", "o:q:n i:a:n z:n w:w"),
    "zzModW": ("w", "i:a:n z:n w:w"),
    "zzModW2": ("w", "i:a:n z:n w:w"),
    "zzDiv": ("v", "o:q:n-m+1 o:r:m i:a:n z:n i:b:m z:m s:L.zzDiv_deep(n,m)"),
    "zzMod": ("v", "o:r:m i:a:n z:n i:b:m z:m s:L.zzMod_deep(n,m)"),
    # gcd family
    "zzGCD": ("v", "o:d:min(n,m) i:a:n z:n i:b:m z:m s:L.zzGCD_deep(n,m)"),
    "zzIsCoprime": ("b", "i:a:n z:n i:b:m z:m s:L.zzIsCoprime_deep(n,m)"),
    "zzLCM": ("v", "o:d:n+m i:a:n z:n i:b:m z:m s:L.zzLCM_deep(n,m)"),
    "zzExGCD": ("v", "o:d:min(n,m) o:da:m o:db:n i:a:n z:n i:b:m z:m s:L.zzExGCD_deep(n,m)"),
    "zzJacobi": ("i", "i:a:n z:n i:b:m z:m s:L.zzJacobi_deep(n,m)"),
    # modular
    "zzAddMod": ("v", "o:c:n i:a:n i:b:n i:mod:n z:n"),
    "zzAddWMod": ("v", "o:b:n i:a:n w:w i:mod:n z:n"),
    "zzSubMod": ("v", "o:c:n i:a:n i:b:n i:mod:n z:n"),
    "zzSubWMod": ("v", "o:b:n i:a:n w:w i:mod:n z:n"),
    "zzNegMod": ("v", "o:b:n i:a:n i:mod:n z:n"),
    "zzMulMod": ("v", "o:c:n i:a:n i:b:n i:mod:n z:n s:L.zzMulMod_deep(n)"),
    "zzMulWMod": ("v", "o:b:n i:a:n w:w i:mod:n z:n s:L.zzMulWMod_deep(n)"),
    "zzSqrMod": ("v", "o:b:n i:a:n i:mod:n z:n s:L.zzSqrMod_deep(n)"),
    "zzInvMod": ("v", "o:b:n i:a:n i:mod:n z:n s:L.zzInvMod_deep(n)"),
    "zzDivMod": ("v", "o:b:n i:divident:n i:a:n i:mod:n z:n s:L.zzDivMod_deep(n)"),
    "zzDoubleMod": ("v", "o:b:n i:a:n i:mod:n z:n"),
    "zzHalfMod": ("v", "o:b:n i:a:n i:mod:n z:n"),
    "zzAlmostInvMod": ("z", "o:b:n i:a:n i:mod:n z:n s:L.zzAlmostInvMod_deep(n)"),
    # reductions
    "zzRed": ("v", "x:a:2*n i:mod:n z:n s:L.zzRed_deep(n)"),
    "zzRedCrand": ("v", "x:a:2*n i:mod:n z:n s:L.zzRedCrand_deep(n)"),
    "zzRedBarrStart": ("v", "o:barr_param:n+2 i:mod:n z:n s:L.zzRedBarrStart_deep(n)"),
    "zzRedBarr": ("v", "x:a:2*n i:mod:n z:n i:barr_param:n+2 s:L.zzRedBarr_deep(n)"),
    "zzRedMont": ("v", "x:a:2*n i:mod:n z:n w:mont_param s:L.zzRedMont_deep(n)"),
    "zzRedCrandMont": ("v", "x:a:2*n i:mod:n z:n w:mont_param s:L.zzRedCrandMont_deep(n)"),
    # powers
    "zzPowerMod": ("v", "o:c:n i:a:n z:n i:b:m z:m i:mod:n s:L.zzPowerMod_deep(n,m)"),
    "zzPowerModW": ("w", "w:a w:b w:mod s:L.zzPowerModW_deep()"),
}


class Args(dict):
    __getattr__ = dict.__getitem__


def _cmp(a, b):
    return (a > b) - (a < b)


def _shr(a, s):
    return 0 if s >= a.bit_length() else a >> s


def _shl(a, s, nbits):
    return 0 if s >= nbits else (a << s) & ((1 << nbits) - 1)


def _rep(w, n, bw):
    return sum(w << (bw * i) for i in range(n))


def _bn(A, n):
    return 1 << (A.bw * n)


def R(**kw):
    return kw


def _o_shlo_carry(A):
    nb = A.bw * A.n
    X = A.a | (A.carry << nb)
    if A.shift >= nb + 2 * A.bw:
        return R(ret=0, a=0)
    return R(ret=((X << A.bw) >> A.shift) % A.B, a=(X >> A.shift) % (1 << nb))


def _o_shhi_carry(A):
    nb = A.bw * A.n
    if A.shift >= nb + 2 * A.bw:
        return R(ret=0, a=0)
    Y = ((A.a << A.bw) | A.carry) << A.shift
    return R(ret=(Y >> (nb + A.bw)) % A.B, a=(Y >> A.bw) % (1 << nb))


def _o_setbits(A):
    mask = (1 << A.width) - 1
    return R(a=(A.a & ~(mask << A.pos)) | ((A.val & mask) << A.pos))


def _o_naf(A):
    d = naf_digits(A.a, A.w)
    return R(ret=len(d), naf=naf_encode(d, A.w))


def _o_exgcd(A):
    g = math.gcd(A.a, A.b)

    def rel(ret, outs):
        if outs["da"] * A.a - outs["db"] * A.b != g:
            return "bezout", "da*a - db*b != gcd(a,b)"
    return R(d=g, da=None, db=None, _rel=rel)


def _o_inv(A, num=1):
    if math.gcd(A.a, A.mod) != 1:
        return R(b=0)                                   # \remark: gcd(a, mod) != 1 => b <- 0
    return R(b=num * pow(A.a, -1, A.mod) % A.mod, _lt={"b": A.mod})


def _o_almost(A):
    l = A.mod.bit_length()
    g = math.gcd(A.a, A.mod)

    def rel(ret, outs):
        if g == 1 and not l <= ret <= 2 * l:
            return "ret", "k outside [bitsize(mod), 2 bitsize(mod)]"
        if g == 1 and outs["b"] != pow(A.a, -1, A.mod) * pow(2, ret, A.mod) % A.mod:
            return "value", "b != a^-1 2^k mod mod"
    return R(b=(0 if g != 1 else None), _rel=rel, _lt={"b": A.mod})


def _o_red(A, mont=False):
    R_ = _bn(A, A.n)
    v = (A.a * pow(R_, -1, A.mod) if mont else A.a) % A.mod
    return {"a": v, "_low": {"a": A.n}, "_lt": {"a": A.mod}}


ORACLE = {
    "wwCopy": lambda A: R(b=A.a),
    "wwSwap": lambda A: R(a=A.b, b=A.a),
    "wwEq": lambda A: R(ret=int(A.a == A.b)),
    "wwCmp": lambda A: R(ret=_cmp(A.a, A.b)),
    "wwCmp2": lambda A: R(ret=_cmp(A.a, A.b)),
    "wwCmpW": lambda A: R(ret=_cmp(A.a, A.w)),
    "wwXor": lambda A: R(c=A.a ^ A.b),
    "wwXor2": lambda A: R(b=A.a ^ A.b),
    "wwSetZero": lambda A: R(a=0),
    "wwSetW": lambda A: R(a=A.w),
    "wwRepW": lambda A: R(a=_rep(A.w, A.n, A.bw)),
    "wwIsZero": lambda A: R(ret=int(A.a == 0)),
    "wwIsW": lambda A: R(ret=int(A.a == A.w)),
    "wwIsRepW": lambda A: R(ret=int(A.a == _rep(A.w, A.n, A.bw) and (A.n > 0 or A.w == 0))),
    "wwWordSize": lambda A: R(ret=-(-A.a.bit_length() // A.bw)),
    "wwOctetSize": lambda A: R(ret=(A.a.bit_length() + 7) // 8),
    "wwTestBit": lambda A: R(ret=(A.a >> A.pos) & 1),
    "wwGetBits": lambda A: R(ret=(A.a >> A.pos) & ((1 << A.width) - 1)),
    "wwSetBit": lambda A: R(a=(A.a & ~(1 << A.pos)) | (A.val << A.pos)),
    "wwSetBits": _o_setbits,
    "wwFlipBit": lambda A: R(a=A.a ^ (1 << A.pos)),
    "wwLoZeroBits": lambda A: R(ret=ctz(A.a, A.bw * A.n)),
    "wwHiZeroBits": lambda A: R(ret=A.bw * A.n - A.a.bit_length()),
    "wwBitSize": lambda A: R(ret=A.a.bit_length()),
    "wwNAF": _o_naf,
    "wwShLo": lambda A: R(a=_shr(A.a, A.shift)),
    "wwShLoCarry": _o_shlo_carry,
    "wwShHi": lambda A: R(a=_shl(A.a, A.shift, A.bw * A.n)),
    "wwShHiCarry": _o_shhi_carry,
    "wwTrimLo": lambda A: R(a=A.a & ~((1 << min(A.pos, A.bw * A.n)) - 1)),
    "wwTrimHi": lambda A: R(a=A.a & ((1 << A.pos) - 1) if A.pos < A.bw * A.n else A.a),

    "zzIsEven": lambda A: R(ret=int(A.a % 2 == 0)),
    "zzIsOdd": lambda A: R(ret=A.a % 2),
    "zzAdd": lambda A: R(ret=(A.a + A.b) // _bn(A, A.n), c=(A.a + A.b) % _bn(A, A.n)),
    "zzAdd2": lambda A: R(ret=(A.a + A.b) // _bn(A, A.n), b=(A.a + A.b) % _bn(A, A.n)),
    "zzAdd3": lambda A: R(ret=(A.a + A.b) // _bn(A, max(A.n, A.m)), c=(A.a + A.b) % _bn(A, max(A.n, A.m))),
    "zzAddW": lambda A: R(ret=(A.a + A.w) // _bn(A, A.n), b=(A.a + A.w) % _bn(A, A.n)),
    "zzAddW2": lambda A: R(ret=(A.a + A.w) // _bn(A, A.n), a=(A.a + A.w) % _bn(A, A.n)),
    "zzIsSumEq": lambda A: R(ret=int(A.a + A.b == A.c)),
    "zzIsSumWEq": lambda A: R(ret=int(A.a + A.w == A.b)),
    "zzSub": lambda A: R(ret=int(A.a < A.b), c=(A.a - A.b) % _bn(A, A.n)),
    "zzSub2": lambda A: R(ret=int(A.b < A.a), b=(A.b - A.a) % _bn(A, A.n)),
    "zzSubW": lambda A: R(ret=int(A.a < A.w), b=(A.a - A.w) % _bn(A, A.n)),
    "zzSubW2": lambda A: R(ret=int(A.a < A.w), a=(A.a - A.w) % _bn(A, A.n)),
    "zzNeg": lambda A: R(b=(_bn(A, A.n) - A.a) % _bn(A, A.n)),
    "zzMulW": lambda A: R(ret=(A.a * A.w) // _bn(A, A.n), b=(A.a * A.w) % _bn(A, A.n)),
    "zzAddMulW": lambda A: R(ret=(A.b + A.a * A.w) // _bn(A, A.n), b=(A.b + A.a * A.w) % _bn(A, A.n)),
    "zzSubMulW": lambda A: R(ret=int(A.b < A.a * A.w), b=(A.b - A.a * A.w) % _bn(A, A.n)),
    "zzMul": lambda A: R(c=A.a * A.b),
    "zzSqr": lambda A: R(b=A.a * A.a),
    "zzSqrt": lambda A: R(ret=int(math.isqrt(A.a) ** 2 == A.a), b=math.isqrt(A.a)),
    "zzDivW": lambda A: R(ret=A.a % A.w, q=A.a // A.w),
    "zzModW": lambda A: R(ret=A.a % A.w),
    "zzModW2": lambda A: R(ret=A.a % A.w),
    "zzDiv": lambda A: R(q=A.a // A.b, r=A.a % A.b, _lt={"r": A.b}),
    "zzMod": lambda A: R(r=A.a % A.b, _lt={"r": A.b}),
    "zzGCD": lambda A: R(d=math.gcd(A.a, A.b)),
    "zzIsCoprime": lambda A: R(ret=int(math.gcd(A.a, A.b) == 1)),
    "zzLCM": lambda A: R(d=A.a * A.b // math.gcd(A.a, A.b)),
    "zzExGCD": _o_exgcd,
    "zzJacobi": lambda A: R(ret=jacobi(A.a, A.b)),
    "zzAddMod": lambda A: R(c=(A.a + A.b) % A.mod, _lt={"c": A.mod}),
    "zzAddWMod": lambda A: R(b=(A.a + A.w) % A.mod, _lt={"b": A.mod}),
    "zzSubMod": lambda A: R(c=(A.a - A.b) % A.mod, _lt={"c": A.mod}),
    "zzSubWMod": lambda A: R(b=(A.a - A.w) % A.mod, _lt={"b": A.mod}),
    "zzNegMod": lambda A: R(b=-A.a % A.mod, _lt={"b": A.mod}),
    "zzMulMod": lambda A: R(c=A.a * A.b % A.mod, _lt={"c": A.mod}),
    "zzMulWMod": lambda A: R(b=A.a * A.w % A.mod, _lt={"b": A.mod}),
    "zzSqrMod": lambda A: R(b=A.a * A.a % A.mod, _lt={"b": A.mod}),
    "zzInvMod": _o_inv,
    "zzDivMod": lambda A: _o_inv(A, A.divident),
    "zzDoubleMod": lambda A: R(b=2 * A.a % A.mod, _lt={"b": A.mod}),
    "zzHalfMod": lambda A: R(b=A.a * pow(2, -1, A.mod) % A.mod if A.mod > 1 else 0, _lt={"b": A.mod}),
    "zzAlmostInvMod": _o_almost,
    "zzRed": _o_red,
    "zzRedCrand": _o_red,
    "zzRedBarrStart": lambda A: R(barr_param=_bn(A, 2 * A.n) // A.mod),
    "zzRedBarr": _o_red,
    "zzRedMont": lambda A: _o_red(A, True),
    "zzRedCrandMont": lambda A: _o_red(A, True),
    "zzPowerMod": lambda A: {"c": pow(A.a, A.b, A.mod), "_lt": {"c": A.mod}},
    "zzPowerModW": lambda A: {"ret": pow(A.a, A.b, A.mod), "_ltret": A.mod},
}

# aliasing the headers allow: tuples of (x, y) = "x is passed the same pointer as y"
_C_AB = [(), (("c", "a"),), (("c", "b"),), (("b", "a"),), (("c", "a"), ("b", "a"))]
_B_A = [(), (("b", "a"),)]
ALIAS = {
    "wwCopy": _B_A, "wwXor": _C_AB, "wwXor2": _B_A,
    "wwEq": [(), (("b", "a"),)], "wwCmp": [(), (("b", "a"),)],
    "zzAdd": _C_AB, "zzSub": _C_AB, "zzAdd2": _B_A, "zzSub2": _B_A,
    "zzAdd3": [(), (("c", "a"),), (("c", "b"),)],
    "zzAddW": _B_A, "zzSubW": _B_A, "zzNeg": _B_A, "zzMulW": _B_A, "zzAddMulW": _B_A, "zzSubMulW": _B_A,
    "zzIsSumEq": [(), (("b", "a"),), (("c", "a"),)],
    "zzMul": [(), (("b", "a"),)],
    "zzDivW": [(), (("q", "a"),)], "zzDiv": [(), (("r", "a"),)], "zzMod": [(), (("r", "a"),)],
    "zzGCD": [(), (("b", "a"),)], "zzLCM": [(), (("b", "a"),)], "zzIsCoprime": [(), (("b", "a"),)],
    "zzExGCD": [(), (("b", "a"),)],
    "zzAddMod": _C_AB, "zzSubMod": _C_AB, "zzAddWMod": _B_A, "zzSubWMod": _B_A, "zzNegMod": _B_A,
    "zzDoubleMod": _B_A, "zzHalfMod": _B_A, "zzMulMod": [(), (("b", "a"),)],
}


# Carry / borrow words.  The headers say "\\return Слово переноса / заема": the returned word is the multi-precision
# carry (borrow) that makes   c + ret * B^n == a + b   (resp.  c - ret * B^n == a - b)   hold — the identity zz.h spells
# out for zzAdd and zzSub.  Given the n output words the identity determines ret uniquely; it implies the boolean
# shorthand of the \\code blocks ("borrow <- (a < w)", "carry <- (b < a * w)") whenever the borrow is 0 or 1, and it
# is the stronger statement where the shorthand is inexact: zzSubMulW (borrow word up to B - 1) and the W-functions
# with n == 0 (zzSubW(.., 0, w) returns w, exactly as zzAddW(.., 0, w) does).  The classes "borrow-word>1" and "n=0"
# stay in the keys.

def _borrow(A, x):
    """(x mod B^n, borrow word) for the exact difference x"""
    Bn = _bn(A, A.n)
    return x % Bn, (x % Bn - x) // Bn


ORACLE["zzSubW"] = lambda A: R(b=_borrow(A, A.a - A.w)[0], ret=_borrow(A, A.a - A.w)[1])
ORACLE["zzSubW2"] = lambda A: R(a=_borrow(A, A.a - A.w)[0], ret=_borrow(A, A.a - A.w)[1])
ORACLE["zzSubMulW"] = lambda A: R(b=_borrow(A, A.b - A.a * A.w)[0], ret=_borrow(A, A.b - A.a * A.w)[1])


# ----------------------------------------------------------------------------------------------
# executor
# ----------------------------------------------------------------------------------------------

class T:
    MAX_EMIT = 3

    def __init__(self, ctx):
        self.ctx = ctx
        self.lib = lib = ctx.lib
        self.W = lib.W
        self.bw = 8 * lib.W
        self.B = 1 << self.bw
        self.ns = {"L": lib, "W": lib.W, "min": min, "max": max, "__builtins__": {}}
        self.specs = {}
        self.fn = Counter()
        self.sub = Counter()
        self.vcount = Counter()
        self.thorough = ctx.tier == "thorough"
        self.chunk = int(ctx.params.get("chunk", 0))
        self.lens = LENS + ([32, 64] if self.thorough else [])

    def length(self, i):
        return self.lens[(i + 5 * self.chunk) % len(self.lens)]

    def spec(self, name):
        s = self.specs.get(name)
        if s is None:
            ret, sig = SPEC[name]
            items = []
            for tok in sig.split():
                p = tok.split(":", 2) if tok[0] != "s" else ["s", "stack", tok[2:]]
                items.append((p[0], p[1], compile(p[2], "<spec %s>" % name, "eval") if len(p) > 2 and p[2] else None))
            s = self.specs[name] = (ret, items)
        return s

    # -- one real call -------------------------------------------------------------------
    def call(self, libname, specname, A, alias=()):
        """returns (ret, {name: int} for o/x arrays, [names of pure inputs that changed])"""
        lib, W = self.lib, self.W
        ret_kind, items = self.spec(specname)
        rep = {}
        for x, y in alias:
            rep[x] = rep.get(y, y)
        sizes, gsize, gval, gout = {}, {}, {}, set()
        for kind, name, code in items:
            if kind in "iox":
                sz = sizes[name] = eval(code, self.ns, A)
                if sz < 0:
                    raise Harness("negative size for %s.%s" % (specname, name))
                g = rep.get(name, name)
                if sz > gsize.get(g, -1):
                    gsize[g] = sz
                if kind != "o":
                    v = A[name]
                    if g in gval and gval[g] != (v, sz):
                        raise Harness("aliased inputs differ: %s.%s" % (specname, name))
                    gval[g] = (v, sz)
                if kind != "i":
                    gout.add(g)
        ptr, orig = {}, {}
        for g, sz in gsize.items():
            if g in gval:
                v, nv = gval[g]
                try:
                    data = v.to_bytes(nv * W, "little")
                except OverflowError:
                    raise Harness("generator: %s.%s does not fit %d words" % (specname, g, nv))
                if sz > nv:
                    data += bytes([lib.fillbyte]) * ((sz - nv) * W)
                ptr[g] = lib.mk(data)
                if g not in gout:
                    orig[g] = data
            else:
                ptr[g] = lib.alloc(sz * W)
        args = []
        for kind, name, code in items:
            if kind in "iox":
                args.append(ptr[rep.get(name, name)])
            elif kind == "s":
                args.append(lib.alloc(eval(code, self.ns, A)))
            else:
                args.append(A[name])
        ret = getattr(lib, libname)(*args)
        outs = {}
        for kind, name, code in items:
            if kind in "ox":
                outs[name] = lib.rdw(ptr[rep.get(name, name)], sizes[name])
        changed = [g for g, data in orig.items() if lib.rd(ptr[g], len(data)) != data]
        if ret_kind == "v":
            ret = None
        return ret, outs, changed

    def isolated(self, libname, specname, A, alias=(), seconds=20):
        """(facility, unused while nothing aborts or hangs) the same call in a forked child under alarm(): ('ok', (ret, outs, changed)) or (reason, stderr text) with
        reason = 'hang' | 'assert:<file>' | 'asan:<kind>' | 'died:<status>'.  Used where the library is known to abort
        or never return on admissible input, so that one such case does not cost a worker restart."""
        r, w = os.pipe()
        errf = tempfile.TemporaryFile()
        pid = os.fork()
        if pid == 0:
            try:
                os.close(r)
                os.dup2(errf.fileno(), 2)
                signal.signal(signal.SIGALRM, signal.SIG_DFL)
                signal.alarm(seconds)
                res = self.call(libname, specname, A, alias)
                os.write(w, repr(res).encode())
            finally:
                os._exit(0)
        os.close(w)
        data = b""
        while True:
            c = os.read(r, 1 << 16)
            if not c:
                break
            data += c
        os.close(r)
        _, status = os.waitpid(pid, 0)
        errf.seek(0)
        err = errf.read().decode(errors="replace")
        errf.close()
        self.lib.release()
        if data:
            return "ok", eval(data.decode(), {"__builtins__": {}})
        if os.WIFSIGNALED(status) and os.WTERMSIG(status) == signal.SIGALRM:
            return "hang", err
        m = re.search(r"Assertion in (\S+?)::(\d+)", err)
        if m:
            return "assert:" + os.path.basename(m.group(1)), err
        m = re.search(r"ERROR: AddressSanitizer: ([\w-]+)", err)
        if m:
            return "asan:" + m.group(1), err
        return "died:%d" % status, err

    # -- verdicts ------------------------------------------------------------------------
    def violation(self, key, what, detail):
        self.vcount[key] += 1
        if self.vcount[key] <= self.MAX_EMIT:
            self.ctx.violation(key, what, detail)

    def judge(self, libname, A, exp, ret, outs, changed):
        """list of (category, what, witness) — empty when the call met the header"""
        bad = []

        def flag(cat, what, **kw):
            d = {"args": {k: (hex(v) if isinstance(v, int) else v) for k, v in A.items()}, "W": self.W}
            d.update({k: (hex(v) if isinstance(v, int) and not isinstance(v, bool) and v >= 0 else v) for k, v in kw.items()})
            bad.append((cat, "%s: %s" % (libname, what), d))
        er = exp.get("ret")
        lt = exp.get("_ltret")
        if lt is not None and ret >= lt and (ret - er) % lt == 0:
            flag("not-reduced", "returned residue is congruent to the right value but not below the modulus",
                 expected=er, got=ret, mod=lt)
        elif er is not None and ret != er:
            flag("ret", "return value differs from the header formula", expected=er, got=ret)
        low = exp.get("_low", {})
        lts = exp.get("_lt", {})
        for name, ev in exp.items():
            if name[0] == "_" or name == "ret" or ev is None:
                continue
            got = outs[name]
            if name in low:
                got %= 1 << (self.bw * low[name])
            m = lts.get(name)
            if m is not None and got >= m and (got - ev) % m == 0:
                flag("not-reduced", "output %s is congruent to the right value but not below the modulus" % name,
                     expected=ev, got=got, mod=m)
            elif got != ev:
                flag("value", "output %s differs from the header formula" % name, expected=ev, got=got)
        for name, m in lts.items():
            if exp.get(name) is None and name in outs and outs[name] >= m:
                flag("not-reduced", "output %s is not below the modulus" % name, got=outs[name], mod=m)
        rel = exp.get("_rel")
        if rel is not None:
            r = rel(ret, outs)
            if r:
                flag(r[0], r[1], ret=ret, outs={k: hex(v) for k, v in outs.items()})
        if changed:
            flag("input-modified", "const input buffer(s) %s changed" % changed)
        return bad

    def drive(self, fname, A, cls, alias=(), keycls=None, spec=None, isolate=0):
        """one case: regular edition (and fast edition) of fname on arguments A; isolate = watchdog seconds when the
        call has to run in a forked child"""
        ctx = self.ctx
        spec = spec or fname
        _, items = self.spec(spec)
        kinds = {name: kind for kind, name, _ in items}
        for x, y in alias:
            if kinds.get(x) != "o" and y in A:
                A[x] = A[y]
        if callable(keycls):
            keycls = keycls(A)
        al = ",".join("%s=%s" % p for p in alias)
        desc = [spec, al, {k: (format(v, "x") if isinstance(v, int) else v) for k, v in A.items()}]
        if not ctx.case(desc, cls):
            return None
        self.fn[fname] += 1
        if al:
            self.sub["alias:" + al] += 1
        if "n" in A:
            self.sub["n=%d" % A["n"]] += 1
        AA = Args(A)
        AA["bw"], AA["B"] = self.bw, self.B
        exp = ORACLE[spec](AA)
        res = []
        # (in a SAFE_FAST build the fast edition *is* the public name: there is no separate f_fast symbol)
        names = (fname, fname + "_fast") if fname in PAIRS and self.lib.has(fname + "_fast") else (fname,)
        for nm in names:
            if isolate:
                st, r = self.isolated(nm, spec, A, alias, isolate)
                if st != "ok":
                    what = {"hang": "does not return within %d s" % isolate}.get(st, "kills the process (%s)" % st)
                    self.violation("%s:%s%s" % (nm, st.split(":")[0] if st.startswith("died") else st, ":" + keycls if keycls else ""),
                                   "%s %s on admissible arguments" % (nm, what),
                                   {"args": desc[2], "W": self.W, "status": st, "stderr": r[:1200]})
                    ctx.digest(st)
                    return None
                ret, outs, changed = r
            else:
                ret, outs, changed = self.call(nm, spec, A, alias)
            found = self.judge(nm, A, exp, ret, outs, changed)
            base = ()
            if found and alias and not isolate:
                # does the same deviation occur with disjoint buffers?  then aliasing is not part of its signature
                self.lib.release()
                base = {c for c, _, _ in self.judge(nm, A, exp, *self.call(nm, spec, A, ()))}
            for cat, what, det in found:
                tag = ",".join(x for x in (keycls, al if cat not in base else "") if x)
                if al:
                    det["aliasing"] = al
                self.violation("%s:%s%s" % (nm, cat, ":" + tag if tag else ""), what, det)
            res.append((ret, outs))
            self.lib.release()
        if len(res) == 2:
            (r0, o0), (r1, o1) = res
            lw = exp.get("_low", {})
            same = r0 == r1 and all((o0[k] - o1[k]) % (1 << (self.bw * lw[k])) == 0 if k in lw else o0[k] == o1[k]
                                    for k in o0 if exp.get(k) is not None)
            if not same:
                self.violation("%s:safe-vs-fast%s" % (fname, ":" + keycls if keycls else ""),
                               "%s and %s_fast disagree" % (fname, fname),
                               {"args": desc[2], "regular": [r0, {k: hex(v) for k, v in o0.items()}],
                                "fast": [r1, {k: hex(v) for k, v in o1.items()}], "W": self.W})
            ctx.count(1)
        r0, o0 = res[0]
        ctx.digest(r0, *[o0[k] % (1 << (self.bw * exp["_low"][k])) if k in exp.get("_low", {}) else o0[k]
                         for k in sorted(o0) if exp.get(k) is not None])
        return res[0]

    def pick_alias(self, fname, i, ok=lambda al: True):
        als = [al for al in ALIAS.get(fname, [()]) if ok(al)]
        return als[(i // len(self.lens)) % len(als)]

    def finish(self):
        self.ctx.note("c05zz_cases_per_function", dict(self.fn))
        self.ctx.note("c05zz_lengths_and_aliasing", dict(self.sub))
        if self.vcount:
            self.ctx.note("c05zz_violating_cases_per_key", dict(self.vcount))


# ----------------------------------------------------------------------------------------------
# u16 / u32 / u64
# ----------------------------------------------------------------------------------------------

def _u_oracles(bits):
    M = (1 << bits) - 1
    return {
        "Rev": lambda w: int.from_bytes(w.to_bytes(bits // 8, "little"), "big"),
        "Bitrev": lambda w: bitrev(w, bits),
        "Weight": lambda w: bin(w).count("1"),
        "Parity": lambda w: bin(w).count("1") & 1,
        "CTZ": lambda w: ctz(w, bits),
        "CLZ": lambda w: bits - w.bit_length(),
        "Shuffle": lambda w: shuffle(w, bits),
        "Deshuffle": lambda w: deshuffle(w, bits),
        "NegInv": lambda w: (-pow(w, -1, M + 1)) & M,
    }


def _u_class(w, bits):
    if w == 0:
        return "0"
    if w == (1 << bits) - 1:
        return "max"
    if w & (w - 1) == 0:
        return "single-bit"
    if (w ^ ((1 << bits) - 1)) & ((w ^ ((1 << bits) - 1)) - 1) == 0:
        return "single-zero-bit"
    return "other"


def _u_scalar(t, bits, w, orc, fns):
    """all scalar helpers of one width on one input; returns number of library calls"""
    lib, ctx = t.lib, t.ctx
    pfx = "u%d" % bits
    if not ctx.case([pfx, format(w, "x")], "%s/%s" % (pfx, _u_class(w, bits))):
        return
    got = []
    calls = 0
    for f in fns:
        if f == "NegInv" and w % 2 == 0:
            continue                                        # \pre w odd
        e = orc[f](w)
        names = (pfx + f, pfx + f + "_fast") if pfx + f in PAIRS and lib.has(pfx + f + "_fast") else (pfx + f,)
        rs = []
        for nm in names:
            r = getattr(lib, nm)(w)
            calls += 1
            rs.append(r)
            if r != e:
                t.violation("%s:value" % nm, "%s differs from the header's definition" % nm,
                            {"w": hex(w), "expected": e, "got": r})
        if len(rs) == 2 and rs[0] != rs[1]:
            t.violation("%s:safe-vs-fast" % (pfx + f), "regular and fast editions disagree", {"w": hex(w), "got": rs})
        got.append(rs[0])
        t.fn[pfx + f] += 1
    ctx.digest(*got)
    ctx.count(calls - 1)


def _u_arrays(t, bits, count_cases):
    """uNNRev2 / uNNFrom / uNNTo on exact-size buffers, octet counts that are not multiples of the word size"""
    lib, ctx, rng = t.lib, t.ctx, t.ctx.rng
    o = bits // 8
    pfx = "u%d" % bits
    for i in range(count_cases):
        cnt = (i + 3 * t.chunk) % 42 if i % 7 else rng.choice((0, 1, o - 1, o, o + 1, 64, 65, 100))
        data = bytes(rng.getrandbits(8) for _ in range(cnt)) if i % 5 else bytes(rng.choice((0, 0xFF, 0x80, 1)) for _ in range(cnt))
        nw = (cnt + o - 1) // o
        tail = bytes(rng.getrandbits(8) for _ in range(nw * o - cnt))
        words = bytes(rng.getrandbits(8) for _ in range(o * (i % 23)))
        nwords = i % 23
        # From
        cls = "%s/array-%s" % (pfx, "aligned" if cnt % o == 0 else "partial-word")
        if ctx.case([pfx + "From", cnt, data], cls):
            src, dest = lib.mk(data), lib.alloc(nw * o)
            getattr(lib, pfx + "From")(dest, src, cnt)
            got = lib.rd(dest, nw * o)
            if int.from_bytes(got, "little") != int.from_bytes(data, "little") or lib.rd(src, cnt) != data:
                t.violation(pfx + "From:value", "words do not hold the octets little-endian with a zero-padded last word",
                            {"count": cnt, "src": data.hex(), "dest": got.hex()})
            ctx.digest(got)
            lib.release()
            t.fn[pfx + "From"] += 1
        # To
        if ctx.case([pfx + "To", cnt, data + tail], cls):
            src, dest = lib.mk(data + tail), lib.alloc(cnt)
            getattr(lib, pfx + "To")(dest, cnt, src)
            got = lib.rd(dest, cnt)
            if got != data or lib.rd(src, nw * o) != data + tail:
                t.violation(pfx + "To:value", "octets are not the little-endian image of the words",
                            {"count": cnt, "src": (data + tail).hex(), "dest": got.hex()})
            ctx.digest(got)
            lib.release()
            t.fn[pfx + "To"] += 1
        # Rev2
        if ctx.case([pfx + "Rev2", nwords, words], "%s/array-rev" % pfx):
            buf = lib.mk(words)
            getattr(lib, pfx + "Rev2")(buf, nwords)
            got = lib.rd(buf, len(words))
            e = b"".join(words[j:j + o][::-1] for j in range(0, len(words), o))
            if got != e:
                t.violation(pfx + "Rev2:value", "octets of each word are not reversed", {"count": nwords, "buf": words.hex(), "got": got.hex()})
            ctx.digest(got)
            lib.release()
            t.fn[pfx + "Rev2"] += 1


U_FNS = ("Rev", "Bitrev", "Weight", "Parity", "CTZ", "CLZ", "Shuffle", "Deshuffle", "NegInv")


def unit_u16(ctx):
    """complete enumeration of the 16-bit helpers (step > 1 only when scale < 1) + array conversions"""
    selftest()
    t = T(ctx)
    p = ctx.params
    orc = _u_oracles(16)
    for w in range(p["chunk"] * p.get("step", 1), 65536, p["chunks"] * p.get("step", 1)):
        _u_scalar(t, 16, w, orc, U_FNS)
    _u_arrays(t, 16, p["arrays"])
    if p.get("step", 1) == 1:
        ctx.note("c05zz_u16_exhaustive", True)
    t.finish()


def u_values(rng, bits, nrandom):
    M = (1 << bits) - 1
    vals = [0, 1, 2, 3, M, M - 1, M >> 1, (M >> 1) + 1]
    vals += [1 << i for i in range(bits)] + [M ^ (1 << i) for i in range(bits)]
    vals += [(1 << i) - 1 for i in range(2, bits)] + [M ^ ((1 << i) - 1) for i in range(2, bits)]
    for pat in (0x55, 0xAA, 0x0F, 0xF0, 0x33, 0xCC, 0x01, 0x80, 0xFF00FF00FF00FF00, 0x00FF00FF00FF00FF,
                0xFFFF0000FFFF0000, 0x0000FFFF0000FFFF, 0xFFFFFFFF00000000, 0x00000000FFFFFFFF, 0x0123456789ABCDEF):
        v = pat if pat > 0xFF else int.from_bytes(bytes([pat]) * 8, "little")
        vals.append(v & M)
    for _ in range(nrandom):
        k = rng.randrange(4)
        if k == 0:
            v = rng.getrandbits(bits)
        elif k == 1:
            v = rng.getrandbits(rng.randrange(1, bits + 1))            # leading zeros
        elif k == 2:
            v = (rng.getrandbits(bits) << rng.randrange(bits)) & M   # trailing zeros
        else:
            v = rng.getrandbits(bits) | 1                            # odd (NegInv)
        vals.append(v)
    return vals


def unit_uNN(ctx):
    """u32 / u64 helpers: boundary catalogue + random; array conversions"""
    selftest()
    t = T(ctx)
    bits = ctx.params["bits"]
    orc = _u_oracles(bits)
    for w in u_values(ctx.rng, bits, ctx.params["random"]):
        _u_scalar(t, bits, w, orc, U_FNS)
    _u_arrays(t, bits, ctx.params["arrays"])
    t.finish()


# ----------------------------------------------------------------------------------------------
# ww.h
# ----------------------------------------------------------------------------------------------

WW_FNS = ("wwCopy", "wwSwap", "wwEq", "wwCmp", "wwCmp2", "wwCmpW", "wwXor", "wwXor2", "wwSetZero", "wwSetW",
          "wwRepW", "wwIsZero", "wwIsW", "wwIsRepW", "wwWordSize", "wwOctetSize", "wwTestBit", "wwGetBits",
          "wwSetBit", "wwSetBits", "wwFlipBit", "wwLoZeroBits", "wwHiZeroBits", "wwBitSize", "wwNAF", "wwShLo",
          "wwShLoCarry", "wwShHi", "wwShHiCarry", "wwTrimLo", "wwTrimHi")


def _related(rng, a, n, bw):
    """(label, b): a second n-word operand related to a"""
    k = rng.randrange(6)
    if n == 0:
        return "equal", 0
    if k == 0:
        return "equal", a
    if k == 1:
        return "differ-top-word", a ^ (1 << (bw * (n - 1) + rng.randrange(bw)))
    if k == 2:
        return "differ-low-word", a ^ (1 << rng.randrange(bw))
    if k == 3:
        return "differ-one-bit", a ^ (1 << rng.randrange(bw * n))
    if k == 4:
        return "words-crossed", (a ^ (1 << (bw * n - 1))) ^ 1                # top says one thing, bottom another
    return "independent", val(rng, n, bw)[1]


def _bitpos(rng, n, bw, width=1):
    """a bit position whose last touched word is word max(n,1)-1, biased to word boundaries"""
    base = bw * (max(n, 1) - 1)
    off = rng.choice((0, 1, bw // 2, bw - 2, bw - 1, rng.randrange(bw)))
    return base + off


def _shift(rng, n, bw):
    nb = n * bw
    c = (0, 1, bw - 1, bw, bw + 1, bw * rng.randrange(0, n + 3), nb - 1 if nb else 0, nb, nb + 1, nb + bw - 1, nb + bw,
         nb + bw + 1, nb + 2 * bw - 1, nb + 2 * bw, nb + 2 * bw + 1, 1 << 32, (1 << 64) - 1, rng.randrange(nb + 2 * bw + 1),
         rng.randrange(nb + 1), rng.randrange(nb + 1))
    return rng.choice(c)


def gen_ww(t, f, n, i):
    rng, bw, B = t.ctx.rng, t.bw, t.B
    la, a = val(rng, n, bw)
    cls = "ww/" + la
    A = {"a": a, "n": n}
    if f in ("wwSwap", "wwXor", "wwXor2"):
        A["b"] = val(rng, n, bw)[1]
    elif f in ("wwEq", "wwCmp"):
        lb, A["b"] = _related(rng, a, n, bw)
        cls = "ww/cmp-" + lb
    elif f == "wwCmp2":
        m = rng.choice(t.lens)
        k = min(n, m)
        lv, v = val(rng, k, bw)
        s = rng.randrange(5)
        hi = 0 if s < 2 or n == m else 1 << (bw * rng.randrange(k, max(n, m)) + rng.randrange(bw))
        a, b = (v | hi, v) if n > m else (v, v | hi)
        if s == 3 and k:
            a ^= 1 << rng.randrange(bw * k)
        if s == 4:
            a, b = val(rng, n, bw)[1], val(rng, m, bw)[1]
        A = {"a": a, "n": n, "b": b, "m": m}
        cls = "ww/cmp2-" + ("equal-padded" if a == b else "high-words-nonzero" if hi else "differ")
    elif f in ("wwCmpW", "wwIsW"):
        w = word(rng, bw)
        s = rng.randrange(6)
        if n:
            a = (w, (w + 1) % B, (w - 1) % B, w | (1 << (bw * rng.randrange(n) + rng.randrange(bw))),
                 w | (1 << (bw * n - 1)), a)[s]
        A = {"a": a, "n": n, "w": w}
        cls = "ww/w-" + ("equal" if a == w else "high-words-nonzero" if a >= B else "differ")
    elif f == "wwIsRepW":
        w = word(rng, bw)
        s = rng.randrange(4)
        r = _rep(w, n, bw)
        if n:
            a = (r, r, r ^ (1 << rng.randrange(bw * n)), a)[s]
        A = {"a": a, "n": n, "w": w}
        cls = "ww/rep-" + ("equal" if a == r else "differ")
    elif f in ("wwSetW", "wwRepW"):
        A = {"n": n, "w": word(rng, bw) if n else 0}                        # \pre n > 0 or w == 0
        cls = "ww/set"
    elif f == "wwSetZero":
        A = {"n": n}
        cls = "ww/set"
    elif f in ("wwTestBit", "wwSetBit", "wwFlipBit"):
        pos = _bitpos(rng, n, bw)
        nn = pos // bw + 1
        a = val(rng, nn, bw)[1]
        A = {"a": a, "n": nn, "pos": pos}
        if f == "wwSetBit":
            A["val"] = rng.randrange(2)
        cls = "ww/bit-" + ("word-boundary" if pos % bw in (0, bw - 1) else "inner")
    elif f in ("wwGetBits", "wwSetBits"):
        pos = _bitpos(rng, n, bw)
        width = rng.choice((0, 1, 2, bw // 2, bw - 1, bw, bw, rng.randrange(bw + 1)))
        nn = (pos + width + bw - 1) // bw
        a = val(rng, nn, bw)[1]
        A = {"a": a, "n": nn, "pos": pos, "width": width}
        if f == "wwSetBits":
            A["val"] = word(rng, bw)
        cls = "ww/bits-" + ("straddle" if pos % bw + width > bw else "width=0" if width == 0 else
                            "full-word" if width == bw else "inner")
        return A, cls, ("width=0" if width == 0 else "straddle" if pos % bw + width > bw else None)
    elif f == "wwNAF":
        A["w"] = rng.choice((2, 2, 3, 4, 5, 6, 7, 8, bw // 2, bw - 2, bw - 1, rng.randrange(2, bw)))
        cls = "ww/naf-" + la
    elif f in ("wwShLo", "wwShHi", "wwShLoCarry", "wwShHiCarry"):
        A["shift"] = s = _shift(rng, n, bw)
        if f.endswith("Carry"):
            A["carry"] = word(rng, bw)
        cls = "ww/shift-" + ("0" if s == 0 else "lt-word" if s < bw else "word-multiple" if s % bw == 0 and s <= (n + 2) * bw
                             else "inside" if s < n * bw else "beyond-length")
    elif f in ("wwTrimLo", "wwTrimHi"):
        A["pos"] = s = _shift(rng, n, bw)
        cls = "ww/trim-" + ("word-boundary" if s % bw == 0 else "inside" if s < n * bw else "beyond-length")
    return A, cls, None


def unit_ww(ctx):
    selftest()
    t = T(ctx)
    for f in WW_FNS:
        for i in range(ctx.params["per"]):
            n = t.length(i)
            A, cls, keycls = gen_ww(t, f, n, i)
            al = t.pick_alias(f, i)
            t.drive(f, A, cls, al, keycls)
    t.finish()


# ----------------------------------------------------------------------------------------------
# zz.h: additive and multiplicative operations, division by a word
# ----------------------------------------------------------------------------------------------

ZZ_ADD_FNS = ("zzIsEven", "zzIsOdd", "zzAdd", "zzAdd2", "zzAdd3", "zzAddW", "zzAddW2", "zzIsSumEq", "zzIsSumWEq",
              "zzSub", "zzSub2", "zzSubW", "zzSubW2", "zzNeg", "zzMulW", "zzAddMulW", "zzSubMulW", "zzMul", "zzSqr",
              "zzDivW", "zzModW", "zzModW2")


def _pair(rng, n, bw):
    """(label, a, b): two n-word operands, biased to extreme carry / borrow chains"""
    top = 1 << (bw * n)
    la, a = val(rng, n, bw)
    k = rng.randrange(9)
    if k == 0:
        return "b=a", a, a
    if k == 1:
        return "a+b=B^n-1", a, top - 1 - a
    if k == 2:
        return "a+b=B^n", a, (top - a) % top
    if k == 3:
        return "b=a+1", a, (a + 1) % top
    if k == 4:
        return "b=a-1", a, (a - 1) % top
    if k == 5:
        return "a+b=B^n+1", a, (top + 1 - a) % top
    return la, a, val(rng, n, bw)[1]


def gen_zz_add(t, f, n, i):
    rng, bw, B = t.ctx.rng, t.bw, t.B
    top = 1 << (bw * n)
    if f in ("zzIsEven", "zzIsOdd", "zzNeg", "zzSqr"):
        la, a = val(rng, n, bw)
        return {"a": a, "n": n}, "zz_add/" + la, None
    if f in ("zzAdd", "zzAdd2", "zzSub", "zzSub2"):
        lp, a, b = _pair(rng, n, bw)
        return {"a": a, "b": b, "n": n}, "zz_add/" + lp, None
    if f == "zzAdd3":
        m = rng.choice(t.lens)
        la, a = val(rng, n, bw)
        lb, b = val(rng, m, bw)
        s = rng.randrange(4)
        if s == 0:                                                           # carry runs through the longer operand
            N = max(n, m)
            full = (1 << (bw * N)) - 1
            if n >= m:
                a, b = full - b, b
            else:
                a, b = a, full - a
            if rng.randrange(2) and min(n, m):
                if n >= m:
                    b = (b + 1) % (1 << (bw * m)) or b
                else:
                    a = (a + 1) % (1 << (bw * n)) or a
            la = "carry-through-longer"
        return {"a": a, "n": n, "b": b, "m": m}, "zz_add/" + la, None
    if f in ("zzAddW", "zzAddW2", "zzSubW", "zzSubW2", "zzMulW"):
        la, a = val(rng, n, bw)
        w = word(rng, bw)
        s = rng.randrange(6)
        if s == 0 and n:
            a, la = top - 1, "B^n-1"
        elif s == 1 and n:
            a, la = (top - w) % top, "a=B^n-w"
        elif s == 2 and n:
            a, la = w % top, "a=w"
        elif s == 3 and n:
            a, la = (w - 1) % top, "a=w-1"
        return {"a": a, "n": n, "w": w}, "zz_add/" + la, ("n=0" if n == 0 and f in ("zzSubW", "zzSubW2") else None)
    if f == "zzIsSumEq":
        lp, a, b = _pair(rng, n, bw)
        s = rng.randrange(5)
        c = (a + b) % top if n else 0
        if s == 1 and n:
            c ^= 1 << rng.randrange(bw * n)
        elif s == 2 and n:
            c = val(rng, n, bw)[1]
        elif s == 3 and n:                                                   # make the sum fit: TRUE cases
            a >>= 1
            b >>= 1
            c = a + b
        cl = "true" if a + b == c else "carry-lost" if (a + b) % top == c else "false"
        return {"c": c, "a": a, "b": b, "n": n}, "zz_add/sumeq-" + cl, None
    if f == "zzIsSumWEq":
        la, a = val(rng, n, bw)
        w = word(rng, bw)
        s = rng.randrange(5)
        if s == 0 and n:
            a = top - 1 - rng.randrange(3)
        b = (a + w) % top if n else 0
        if s == 1 and n:
            b ^= 1 << rng.randrange(bw * n)
        elif s == 2:
            b = val(rng, n, bw)[1]
        cl = "true" if a + w == b else "carry-lost" if n and (a + w) % top == b else "false"
        return {"b": b, "a": a, "n": n, "w": w}, "zz_add/sumeq-" + cl, None
    if f in ("zzAddMulW", "zzSubMulW"):
        lp, a, b = _pair(rng, n, bw)
        w = word(rng, bw)
        s = rng.randrange(5)
        if s == 0 and n:
            a, b, w, lp = top - 1, top - 1, B - 1, "max-carry"
        elif s == 1 and n:
            b, lp = a * w % top, "b=a*w mod B^n"
        elif s == 2 and n:
            a, b, lp = a >> bw, min((a >> bw) * w, top - 1), "b=a*w"
        return {"b": b, "a": a, "n": n, "w": w}, "zz_add/" + lp, ((lambda A: "borrow-word>1" if A["a"] * A["w"] - A["b"] > (1 << (bw * A["n"])) else None) if f == "zzSubMulW" else None)
    if f == "zzMul":
        m = rng.choice(t.lens)
        la, a = val(rng, n, bw)
        lb, b = val(rng, m, bw)
        return {"a": a, "n": n, "b": b, "m": m}, "zz_add/mul-" + la, None
    if f in ("zzDivW", "zzModW"):
        la, a = val(rng, n, bw)
        w = word(rng, bw, nz=True)
        s = rng.randrange(5)
        if s == 0 and n:
            q = val(rng, n, bw)[1] // w
            a, la = min(q * w + (w - 1), top - 1), "a=q*w+(w-1)"
        elif s == 1 and n:
            a, la = val(rng, n, bw)[1] // w * w, "a=q*w"
        return {"a": a, "n": n, "w": w}, "zz_add/" + la, None
    if f == "zzModW2":
        h = 1 << (bw // 2)
        la, a = val(rng, n, bw)
        w = rng.choice((1, 2, 3, 5, 255, h - 1, h, h, h - 1, rng.randrange(1, h + 1), rng.randrange(1, h + 1)))   # w^2 <= B
        return {"a": a, "n": n, "w": w}, "zz_add/" + la, ("w=sqrt(B)" if w == h else None)
    raise Harness("no generator for " + f)


def unit_zz_add(ctx):
    selftest()
    t = T(ctx)
    for f in ZZ_ADD_FNS:
        for i in range(ctx.params["per"]):
            n = t.length(i)
            A, cls, keycls = gen_zz_add(t, f, n, i)
            al = t.pick_alias(f, i, lambda al: "m" not in A or A["m"] == A["n"] or al in ((), (("c", "a"),), (("c", "b"),)))
            t.drive(f, A, cls, al, keycls)
    t.finish()


# ----------------------------------------------------------------------------------------------
# zz.h: general division, square root
# ----------------------------------------------------------------------------------------------

def _divisor(rng, m, bw):
    """(label, b): m-word divisor with non-zero top word"""
    B = 1 << bw
    k = rng.randrange(8)
    topw = (1, 2, B // 2 - 1, B // 2, B // 2 + 1, B - 1, 1 + rng.getrandbits(bw) % (B - 1), B // 2)[k]
    low = special_words(rng, m - 1, bw) if rng.randrange(2) else rng.getrandbits(bw * (m - 1)) if m > 1 else 0
    if k == 7:
        low = (1 << (bw * (m - 1))) - 1 if rng.randrange(2) else 0
    lab = "b-normalised" if topw >= B // 2 else "b-top-word-small" if topw <= 2 else "b-not-normalised"
    return lab, (topw << (bw * (m - 1))) | low


def _dividend(rng, b, n, m, bw):
    """(label, a): n-word dividend (n >= m) aimed at the quotient-digit estimation / correction branches"""
    top = 1 << (bw * n)
    k = rng.randrange(12)
    qmax = (top - 1) // b
    if k == 0:
        q = min(val(rng, n - m + 1, bw)[1], (top - b) // b)
        return "a=q*b+(b-1)", q * b + b - 1
    if k == 1:
        return "a=q*b", min(val(rng, n - m + 1, bw)[1], qmax) * b
    if k == 2:
        return "q-all-ones", min((1 << (bw * (n - m + 1))) - 1, qmax) * b + rng.randrange(b)
    if k == 3:
        return "top-words-equal", (b << (bw * (n - m))) | rng.getrandbits(bw * (n - m))
    if k == 4:
        return "top-words-equal-minus", max(((b << (bw * (n - m))) | rng.getrandbits(bw * (n - m))) - (1 << (bw * (n - m))) * rng.randrange(1, 3), 0)
    if k == 5:
        return "a<b", rng.randrange(b)
    if k == 6:
        return "a=b+-1", min(b + rng.randrange(-1, 2), top - 1)
    if k == 7:
        return "special-words", special_words(rng, n, bw)
    if k == 8:
        q = min(special_words(rng, n - m + 1, bw), qmax)
        return "q-special-words", min(q * b + rng.choice((0, 1, b - 1, b // 2)), top - 1)
    if k == 9:
        return "B^n-1", top - 1
    return val(rng, n, bw)


def gen_zz_div(t, f, n, i):
    rng, bw = t.ctx.rng, t.bw
    if f == "zzSqrt":
        top = 1 << (bw * n)
        k = rng.randrange(7)
        x = min(val(rng, (n + 1) // 2, bw)[1], math.isqrt(top - 1))
        if k == 0:
            la, a = "x^2", x * x
        elif k == 1:
            la, a = "x^2-1", max(x * x - 1, 0)
        elif k == 2:
            la, a = "x^2+1", min(x * x + 1, top - 1)
        elif k == 3:
            la, a = "(x+1)^2-1", min(x * x + 2 * x, top - 1)
        else:
            la, a = val(rng, n, bw)
        return {"a": a, "n": n}, "zz_div/sqrt-" + la, None
    if f == "zzDiv":
        n = max(n, 1)
        m = rng.choice((1, 1, 2, n, n, max(n - 1, 1), max(n // 2, 1), rng.randrange(1, n + 1), rng.randrange(1, n + 1)))
        m = min(m, n)                                                        # \pre n >= m > 0
    else:
        m = rng.choice((1, 2, max(n, 1), max(n, 1), n + 1, max(n - 1, 1), rng.randrange(1, 22), rng.randrange(1, 22)))
    lb, b = _divisor(rng, m, bw)
    if n >= m:
        la, a = _dividend(rng, b, n, m, bw)
        a = min(a, (1 << (bw * n)) - 1)
    else:
        la, a = val(rng, n, bw)
        la = "n<m"
    sh = "m=1" if m == 1 else "n=m" if n == m else "n<m" if n < m else "n>m"
    t.sub["div-shape:" + sh] += 1
    t.sub["div:" + lb] += 1
    return {"a": a, "n": n, "b": b, "m": m}, "zz_div/" + la, None


def unit_zz_div(ctx):
    selftest()
    t = T(ctx)
    for f in ("zzDiv", "zzMod", "zzSqrt"):
        for i in range(ctx.params["per"]):
            n = t.length(i)
            A, cls, keycls = gen_zz_div(t, f, n, i)
            t.drive(f, A, cls, t.pick_alias(f, i), keycls)
    t.finish()


# ----------------------------------------------------------------------------------------------
# zz.h: gcd family, Jacobi symbol
# ----------------------------------------------------------------------------------------------

_FIB = [1, 1]


def _fib_below(limit):
    """largest k with F_k < limit, list extended on demand"""
    while _FIB[-1] < limit:
        _FIB.append(_FIB[-1] + _FIB[-2])
    lo, hi = 1, len(_FIB) - 1
    while lo < hi:
        mid = (lo + hi + 1) // 2
        if _FIB[mid] < limit:
            lo = mid
        else:
            hi = mid - 1
    return lo


def _nz(rng, n, bw):
    la, v = val(rng, n, bw)
    return (la, v) if v else ("1", 1)


def gen_zz_gcd(t, f, n, i):
    rng, bw = t.ctx.rng, t.bw
    zero_ok = f == "zzIsCoprime"
    if f == "zzJacobi":
        m = max(rng.choice((1, 2, n, n, n, n + 1, max(n - 1, 1), rng.randrange(1, 22))), 1)
        k = rng.randrange(8)
        if k == 0 and m * bw <= 256:
            ps = primes_for(m, bw)
            lb, b = "b-prime", ps[rng.randrange(len(ps))]
        elif k == 1:
            lb, b = "b-small-in-long-buffer", rng.choice((1, 3, 5, 7, 9, 15, 255, (1 << bw) - 1))
        else:
            lb, b = modulus(rng, m, bw, odd=True)
            lb = "b-" + lb
        s = rng.randrange(9)
        top = 1 << (bw * n)
        la, a = val(rng, n, bw)
        if s == 0:
            la, a = "a=k*b", (rng.randrange(4) * b) % top if b < top else 0
        elif s == 1:
            la, a = "a=b-1", (b - 1) % top
        elif s == 2:
            la, a = "a=x^2 mod b", pow(val(rng, m, bw)[1], 2, b) % top
        elif s == 3:
            la, a = "a=2^k", (1 << rng.randrange(bw * n)) if n else 0
        nb = -(-b.bit_length() // bw)
        keycls = "n<m" if n < nb else None
        t.sub["jacobi:" + ("n<size(b)" if n < nb else "n=size(b)" if n == nb else "n>size(b)")] += 1
        return {"a": a, "n": n, "b": b, "m": m}, "zz_gcd/jacobi-" + (la if s < 4 else lb), keycls
    if zero_ok:
        m = rng.choice(t.lens)
    else:
        n = max(n, 1)
        m = max(rng.choice((1, n, n, n + 1, max(n - 1, 1), rng.randrange(1, 22))), 1)
    ta, tb = 1 << (bw * n), 1 << (bw * m)
    k = rng.randrange(10)
    la, a = _nz(rng, n, bw) if n else ("0", 0)
    lb, b = _nz(rng, m, bw) if m else ("0", 0)
    lab = "independent"
    if k == 0 and n and m:
        lab, b = "equal", a % tb or 1
        a = b if b < ta else a
    elif k == 1 and n and m:
        lab, a, b = "powers-of-two", 1 << rng.randrange(bw * n), 1 << rng.randrange(bw * m)
    elif k == 2 and n and m:
        j = _fib_below(min(ta, tb))
        j = max(2, j - rng.randrange(3))
        lab = "fibonacci"
        a, b = (_FIB[j], _FIB[j - 1]) if rng.randrange(2) else (_FIB[j - 1], _FIB[j])
    elif k == 3 and n and m:
        g = val(rng, min(n, m), bw)[1] >> rng.randrange(1, bw * min(n, m)) or 1
        g <<= rng.randrange(0, 70) if g.bit_length() + 70 < bw * min(n, m) else 0
        x = max(rng.randrange(ta // g + 1), 1)
        y = max(rng.randrange(tb // g + 1), 1)
        lab, a, b = "common-factor", min(g * x, ta - 1), min(g * y, tb - 1)
    elif k == 4 and n and m:
        lab, a = "a=k*b", min(b * max(rng.randrange(ta // b + 1), 1), ta - 1) if b < ta else a
    elif k == 5 and n and m:
        lab, a = "one", 1
    elif k == 6 and n and m:
        g = math.gcd(a, b)
        lab, a, b = "coprime", a // g, b // g
    elif k == 7 and zero_ok:
        lab = "zero"
        if rng.randrange(2):
            a = 0
        else:
            b = 0
        if rng.randrange(4) == 0:
            a = b = 0
    elif k == 8 and n and m:
        lab, a, b = "B^n-1", ta - 1, tb - 1
    return {"a": a, "n": n, "b": b, "m": m}, "zz_gcd/" + lab, None


def unit_zz_gcd(ctx):
    selftest()
    t = T(ctx)
    for f in ("zzGCD", "zzIsCoprime", "zzLCM", "zzExGCD", "zzJacobi"):
        for i in range(ctx.params["per"]):
            n = t.length(i)
            A, cls, keycls = gen_zz_gcd(t, f, n, i)
            al = t.pick_alias(f, i, lambda al: not al or (A["m"] == A["n"] and cls.endswith("equal")))
            t.drive(f, A, cls, al, keycls)
    t.finish()


# ----------------------------------------------------------------------------------------------
# zz.h: modular arithmetic
# ----------------------------------------------------------------------------------------------

ZZ_MOD_FNS = ("zzAddMod", "zzAddWMod", "zzSubMod", "zzSubWMod", "zzNegMod", "zzMulMod", "zzMulWMod", "zzSqrMod",
              "zzInvMod", "zzDivMod", "zzDoubleMod", "zzHalfMod", "zzAlmostInvMod")
_ODD_MOD = ("zzInvMod", "zzDivMod", "zzHalfMod", "zzAlmostInvMod")
# functions whose header does not require mod[n - 1] != 0
_TOP_ZERO_OK = ("zzAddMod", "zzAddWMod", "zzSubWMod", "zzDoubleMod")


def gen_zz_mod(t, f, n, i):
    rng, bw, B = t.ctx.rng, t.bw, t.B
    n = max(n, 1)
    nm = n
    topzero = f in _TOP_ZERO_OK and n >= 2 and rng.randrange(8) == 0
    if topzero:
        nm = rng.randrange(1, n)
    lm, mod = modulus(rng, nm, bw, odd=f in _ODD_MOD)
    if topzero:
        lm = "mod-top-word-zero"
    la, a = below(rng, mod, n, bw)
    lb, b = below(rng, mod, n, bw)
    k = rng.randrange(8)
    if k == 0:
        lb, b = "a+b=mod", (mod - a) % mod
    elif k == 1:
        lb, b = "a+b=mod-1", (mod - 1 - a) % mod
    elif k == 2:
        lb, b = "a+b=mod+1", (mod + 1 - a) % mod
    elif k == 3:
        lb, b = "b=a", a
    elif k == 4:
        lb, b = "b=a+1", (a + 1) % mod
    cls = "zz_mod/" + (lm if i % 2 else la if i % 4 else lb)
    keycls = None
    A = {"a": a, "mod": mod, "n": n}
    if f in ("zzAddMod", "zzSubMod", "zzMulMod"):
        A["b"] = b
    elif f in ("zzAddWMod", "zzSubWMod"):
        wmax = min(B, mod)                                                   # \pre w < mod
        A["w"] = rng.choice((0, 1 % wmax, wmax - 1, wmax - 1, rng.randrange(wmax), (mod - a) % mod % wmax, a % wmax,
                             (mod - a) if mod - a < wmax else 0))
        if f == "zzAddWMod" and a + A["w"] == mod:
            keycls, cls = "a+w=mod", "zz_mod/a+w=mod"
    elif f == "zzMulWMod":
        A["w"] = word(rng, bw)
    elif f in ("zzInvMod", "zzDivMod", "zzAlmostInvMod"):
        if k == 5:
            g = rng.choice((3, 5, 7, 9, 15, 255))
            if mod % g == 0 and mod > g:
                a = g * max(rng.randrange(mod // g), 1)
        if k == 6 and f != "zzAlmostInvMod":
            a = 0                                                            # gcd(0, mod) = mod != 1: b <- 0
        if a == 0 and f == "zzAlmostInvMod":
            a = 1                                                            # \pre 0 < a
        A["a"] = a
        if a == 0:
            keycls = "a=0"
            cls = "zz_mod/a=0"
        elif math.gcd(a, mod) != 1:
            keycls = "gcd!=1"
            cls = "zz_mod/gcd!=1"
        if f == "zzDivMod":
            A["divident"] = b
    return A, cls, keycls


class Tape:
    """deterministic gen_i: hands out the octets of a fixed tape, then zeros"""
    PROTO = ctypes.CFUNCTYPE(None, ctypes.c_void_p, ctypes.c_size_t, ctypes.c_void_p)

    def __init__(self, data):
        self.data, self.pos, self.calls = data, 0, 0
        self.cb = self.PROTO(self._gen)
        self.addr = ctypes.cast(self.cb, ctypes.c_void_p).value

    def _gen(self, buf, count, state):
        chunk = self.data[self.pos:self.pos + count]
        chunk += b"\0" * (count - len(chunk))
        self.pos += count
        self.calls += 1
        if count:
            ctypes.memmove(buf, chunk, count)


def rand_cases(t, per):
    """zzRandMod / zzRandNZMod with a deterministic generator: the header promises a in {0|1..mod-1} whenever
    TRUE is returned, and a bounded number of requests"""
    ctx, lib, rng, bw, W = t.ctx, t.lib, t.ctx.rng, t.bw, t.W
    for f in ("zzRandMod", "zzRandNZMod"):
        for i in range(per):
            n = max(t.length(i), 1)
            lm, mod = modulus(rng, n, bw)
            l = mod.bit_length()
            no = (l + 7) // 8
            k = rng.randrange(6)
            bad = bytes([0xFF]) * no                                         # trimmed to l bits: 2^l - 1 >= mod
            good = rng.randrange(mod).to_bytes(no, "little")
            if k == 0:
                kind, tape = "first-candidate", good
            elif k == 1:
                kind, tape = "later-candidate", bad * rng.randrange(1, 6) + good
            elif k == 2:
                kind, tape = "never-below-mod", bad * 400
            elif k == 3:
                kind, tape = "all-zero", b""
            elif k == 4:
                kind, tape = "candidate=mod-then-mod-1", mod.to_bytes(no, "little") + (mod - 1).to_bytes(no, "little")
            else:
                kind, tape = "random", bytes(rng.getrandbits(8) for _ in range(no * 8))
            if not ctx.case([f, format(mod, "x"), n, kind, tape[:4 * no]], "zz_mod/rand-" + kind):
                continue
            t.fn[f] += 1
            tp = Tape(tape)
            pm, pa, st = lib.mkw(mod, n), lib.outw(n), lib.alloc(8)
            ret = getattr(lib, f)(pa, pm, n, tp.addr, st)
            a = lib.rdw(pa, n)
            det = {"mod": hex(mod), "n": n, "tape": kind, "ret": ret, "a": hex(a), "W": W}
            if ret not in (0, 1):
                t.violation(f + ":ret", "return value is not a bool_t flag", det)
            if ret == 1 and a >= mod:
                t.violation(f + ":not-reduced:" + kind, "TRUE returned but a >= mod", det)
            if ret == 1 and f == "zzRandNZMod" and a == 0:
                t.violation(f + ":value:" + kind, "TRUE returned but a == 0", det)
            if lib.rdw(pm, n) != mod:
                t.violation(f + ":input-modified", "modulus changed", det)
            if tp.calls > 4096:
                t.violation(f + ":unbounded", "more than 4096 generator requests", det)
            ctx.digest(ret, a if ret else 0)
            lib.release()


def unit_zz_mod(ctx):
    selftest()
    t = T(ctx)
    for f in ZZ_MOD_FNS:
        for i in range(ctx.params["per"]):
            n = t.length(i)
            A, cls, keycls = gen_zz_mod(t, f, n, i)
            t.drive(f, A, cls, t.pick_alias(f, i), keycls)
    rand_cases(t, ctx.params["per"] // 2)
    t.finish()


# ----------------------------------------------------------------------------------------------
# zz.h: reductions
# ----------------------------------------------------------------------------------------------

RED_FNS = ("zzRed", "zzRedCrand", "zzRedBarrStart", "zzRedBarr", "zzRedMont", "zzRedCrandMont")


def _red_input(rng, mod, n, bw, limit, near=False):
    """(label, a) with 0 <= a < limit <= B^2n; near: prefer products of residues just below the modulus"""
    Rn = 1 << (bw * n)
    k = rng.randrange(19)
    if near and rng.randrange(2):
        k = 16
    kk = rng.choice((1, 1, 2, 3, Rn - 1, Rn - 2, Rn // 2, 1 << (bw * rng.randrange(n)), rng.randrange(1, Rn), rng.randrange(1, Rn)))
    if k <= 3:
        la, a = "a=k*mod", kk * mod
    elif k == 4:
        la, a = "a=k*mod-1", kk * mod - 1
    elif k == 5:
        la, a = "a=k*mod+1", kk * mod + 1
    elif k == 6:
        la, a = "a=limit-1", limit - 1
    elif k == 7:
        la, a = "a=mod*R-1", mod * Rn - 1
    elif k == 8:
        la, a = "a=x*y", rng.randrange(mod) * rng.randrange(mod)
    elif k == 9:
        la, a = "a=(mod-1)^2", (mod - 1) ** 2
    elif k == 10:
        la, a = rng.choice((("0", 0), ("1", 1), ("a=mod-1", mod - 1), ("a=R-1", Rn - 1), ("a=R", Rn), ("a=R+1", Rn + 1)))
    elif k == 11:
        la, a = "special-words", special_words(rng, 2 * n, bw)
    elif k == 12:
        la, a = val(rng, 2 * n, bw)
    elif k >= 16:
        # product of two residues just below the modulus: maximal quotient, where the Barrett estimate errs most
        sb = rng.choice((1, bw // 2, bw, bw + 6, 2 * bw, rng.randrange(1, 2 * bw + 8), rng.randrange(1, bw * n), rng.randrange(1, bw * n),
                         rng.randrange(1, bw * n), bw * (n // 2) // 2 + rng.randrange(1, bw + 8)))
        la, a = "a=(mod-s)(mod-t)", (mod - 1 - rng.getrandbits(sb) % mod) * (mod - 1 - rng.getrandbits(sb) % mod)
    else:
        la, a = "random", rng.randrange(limit)
    if a >= limit:
        la, a = "random", a % limit
    if a and a % mod == 0:
        la = "a=k*mod"
    return la, a


def gen_zz_red(t, f, n, i):
    rng, bw, B = t.ctx.rng, t.bw, t.B
    crand = "Crand" in f
    n = max(n, 2 if crand else 1)
    Rn = 1 << (bw * n)
    if crand:
        lm, mod = modulus(rng, n, bw, odd="Mont" in f, kinds=("B^n-1", "crandall", "crandall", "crandall", "std"))
        if Rn - mod >= B:                                                    # std q is not of Crandall form
            lm, mod = "std-p" if n * bw in STD else "crandall", (STD[n * bw][0] if n * bw in STD else Rn - 189)
    else:
        lm, mod = modulus(rng, n, bw, odd="Mont" in f)
    if f == "zzRedBarrStart":
        return {"mod": mod, "n": n}, "zz_red/" + lm, None
    mont = "Mont" in f
    la, a = _red_input(rng, mod, n, bw, mod * Rn if mont else Rn * Rn, near=lm.startswith("B^n-B^j"))
    A = {"a": a, "mod": mod, "n": n}
    if f == "zzRedBarr":
        A["barr_param"] = mu = Rn * Rn // mod                                # = what zzRedBarrStart must produce
        # input class: how far Barrett's quotient estimate (a div B^(n-1) * mu) div B^(n+1) is below a div mod (0, 1 or 2);
        # 2 is the rare extreme that needs both final subtractions
        if a // mod - (((a >> (bw * (n - 1))) * mu) >> (bw * (n + 1))) == 2:
            la = "barr-estimate-off-by-2"
    if mont:
        A["mont_param"] = (-pow(mod, -1, B)) % B                             # wordNegInv(mod[0])
    t.sub["red-mod:" + lm] += 1
    return A, "zz_red/" + la, la


def unit_zz_red(ctx):
    selftest()
    t = T(ctx)
    for f in RED_FNS:
        for i in range(ctx.params["per"]):
            n = t.length(i)
            A, cls, keycls = gen_zz_red(t, f, n, i)
            t.drive(f, A, cls, (), keycls)
    t.finish()


# ----------------------------------------------------------------------------------------------
# zz.h: powers
# ----------------------------------------------------------------------------------------------

def gen_zz_pow(t, f, n, i):
    rng, bw, B = t.ctx.rng, t.bw, t.B
    if f == "zzPowerModW":
        mod = word(rng, bw, nz=True)
        a = rng.choice((0, 1, mod - 1, mod, (mod + 1) % B, B - 1, rng.randrange(mod), word(rng, bw)))
        b = rng.choice((0, 0, 1, 1, 2, 3, 4, 7, 8, B - 1, B // 2, word(rng, bw), rng.getrandbits(bw)))
        mod = max(mod, 2)
        keycls = "a>=mod" if a >= mod else None
        cls = "zz_pow/w-" + ("b=0" if b == 0 else "b=1" if b == 1 else keycls or "a<mod")
        return {"a": a, "b": b, "mod": mod}, cls, keycls
    n = max(n, 1)
    m = rng.choice((0, 1, 1, 1, 2, 2, 3, min(n, 4))) if n > 8 else rng.choice((0, 1, 1, 2, n, rng.randrange(0, n + 2)))
    lm, mod = modulus(rng, n, bw)
    la, a = below(rng, mod, n, bw)
    lb, b = val(rng, m, bw)
    if i % 9 == 0:
        a, b, la = 0, 0, "0^0"
    keycls = None if mod % 2 else "even-mod"          # even modulus: zmCreate() selects the Barrett ring (zzRedBarr inside)
    cls = "zz_pow/" + (la if la == "0^0" else "b=0" if b == 0 else ("mod-odd-" if mod % 2 else "mod-even-") + lm)
    return {"a": a, "n": n, "b": b, "m": m, "mod": mod}, cls, keycls


def unit_zz_pow(ctx):
    selftest()
    t = T(ctx)
    for i in range(ctx.params["per"]):
        A, cls, keycls = gen_zz_pow(t, "zzPowerMod", t.length(i), i)
        t.drive("zzPowerMod", A, cls, (), keycls)
    for i in range(ctx.params["per"] * 4):
        A, cls, keycls = gen_zz_pow(t, "zzPowerModW", 1, i)
        t.drive("zzPowerModW", A, cls, (), keycls)
    t.finish()


# ----------------------------------------------------------------------------------------------
# regression cases: one literal witness per defect this check demonstrated on the pinned tree (all repaired in
# /repo since), under a stable class label regress/<what>; the keys are the ones the value streams produce
# ----------------------------------------------------------------------------------------------

def regress_cases(bw):
    B = 1 << bw
    crand = B * B - B + 3                                    # ff..ff 00..03: odd, not of Crandall form
    cm = B * B - 189                                         # Crandall form
    out = []
    for k in (1, 2, 3, 5, 7, B - 1, B * B - 1):
        out.append(("zzRedMont", {"a": k * crand, "mod": crand, "n": 2, "mont_param": (-pow(crand, -1, B)) % B},
                    "mont-a=k*mod", "a=k*mod", ()))
        out.append(("zzRedCrandMont", {"a": k * cm, "mod": cm, "n": 2, "mont_param": (-pow(cm, -1, B)) % B},
                    "mont-a=k*mod", "a=k*mod", ()))
    mb = B ** 4 - B ** 2 + 1                                 # regular zzRedBarr: estimate off by 2 and a[n] == 2
    for x, y in ((mb - (37 * B + 12345), mb - (41 * B + 777)), (mb - (B * B // 5), mb - (B * B // 7)),
                 (0xfffffffffffffffefff830a1f34e1d64, 0xfffffffffffffffefffffffffe82650a)):
        if x < mb and y < mb:
            out.append(("zzRedBarr", {"a": x * y, "mod": mb, "n": 4, "barr_param": B ** 8 // mb}, "barr-estimate-off-by-2",
                        "barr-estimate-off-by-2", ()))
    out += [
        ("zzAddWMod", {"a": 1, "w": 1, "mod": 2, "n": 1}, "addwmod-a+w=mod", "a+w=mod", ()),
        ("zzAddWMod", {"a": B - 2, "w": B - 1, "mod": 2 * B - 3, "n": 2}, "addwmod-a+w=mod", "a+w=mod", (("b", "a"),)),
        ("zzInvMod", {"a": 0, "mod": 7, "n": 1}, "inv-a=0", "a=0", ()),
        ("zzDivMod", {"divident": 3, "a": 0, "mod": 7, "n": 1}, "inv-a=0", "a=0", ()),
        ("zzInvMod", {"a": 0, "mod": B + 1, "n": 2}, "inv-a=0", "a=0", ()),
        ("zzInvMod", {"a": 3, "mod": 15, "n": 1}, "inv-gcd!=1", "gcd!=1", ()),
        ("zzDivMod", {"divident": 2, "a": 5, "mod": 15, "n": 1}, "inv-gcd!=1", "gcd!=1", ()),
        ("zzAlmostInvMod", {"a": 3, "mod": 15, "n": 1}, "inv-gcd!=1", "gcd!=1", ()),
        ("zzExGCD", {"a": 2, "n": 1, "b": 1, "m": 1}, "exgcd-operand-1", None, ()),
        ("zzExGCD", {"a": 1, "n": 1, "b": B - 1, "m": 1}, "exgcd-operand-1", None, ()),
        ("zzExGCD", {"a": 1, "n": 13, "b": 0x13ec57714b4c1b00 % B or 12, "m": 1}, "exgcd-operand-1", None, ()),
        ("zzExGCD", {"a": (1 << (8 * bw + bw - 1)) | (1 << (3 * bw)), "n": 9, "b": 1, "m": 9}, "exgcd-operand-1", None, ()),
        ("zzExGCD", {"a": (1 << (7 * bw + bw - 2)) | (1 << (3 * bw + 22)) | 1, "n": 8, "b": 1 << (bw + 9), "m": 8},
         "exgcd-small-vs-large", None, ()),
        ("zzJacobi", {"a": 2, "n": 1, "b": 3 * B + 5, "m": 2}, "jacobi-n<m", "n<m", ()),
        ("zzJacobi", {"a": 0, "n": 0, "b": 3 * B + 5, "m": 2}, "jacobi-n<m", "n<m", ()),
        ("zzSqrt", {"a": B ** 3 - 1, "n": 3}, "declared-deep", None, ()),
        ("zzSqrt", {"a": B ** 20 - 1, "n": 20}, "declared-deep", None, ()),
        ("zzPowerMod", {"a": 3, "n": 1, "b": 5, "m": 1, "mod": 7}, "declared-deep", None, ()),
        ("zzPowerMod", {"a": 3, "n": 4, "b": 5, "m": 1, "mod": B ** 4 - 189}, "declared-deep", None, ()),
        ("zzPowerMod", {"a": 3, "n": 15, "b": 0x267c7f831e5942de % B, "m": 1, "mod": B ** 14 + 1}, "declared-deep", None, ()),
        ("zzPowerMod", {"a": 3, "n": 15, "b": 0x267c7f831e5942de % B, "m": 1, "mod": B ** 14}, "declared-deep-even-mod", None, ()),
        ("zzPowerModW", {"a": B - 1, "b": 1, "mod": B // 2}, "powermodw-a>=mod", "a>=mod", ()),
        ("wwGetBits", {"a": 5, "n": 1, "pos": bw, "width": 0}, "bits-width=0", "width=0", ()),
        ("wwSetBits", {"a": 5, "n": 1, "pos": bw, "width": 0, "val": 1}, "bits-width=0", "width=0", ()),
        ("wwSetBits", {"a": 0, "n": 1, "pos": 5, "width": 0, "val": 3}, "bits-width=0", "width=0", ()),
        ("wwSetBits", {"a": B * B - 1, "n": 2, "pos": bw - 2, "width": 4, "val": 0}, "bits-straddle", "straddle", ()),
        ("zzSubMulW", {"b": 0, "a": B - 1, "n": 1, "w": B - 1}, "borrow-word", "borrow-word>1", ()),
        ("zzSubW", {"a": 0, "n": 0, "w": 5}, "borrow-word", "n=0", ()),
        ("zzSubW2", {"a": 0, "n": 0, "w": 5}, "borrow-word", "n=0", ()),
        ("zzAddW", {"a": 0, "n": 0, "w": 5}, "borrow-word", "n=0", ()),
        ("zzAddW2", {"a": 0, "n": 0, "w": 5}, "borrow-word", "n=0", ()),
    ]
    return out


def unit_regress(ctx):
    selftest()
    t = T(ctx)
    for f, A, label, keycls, alias in regress_cases(t.bw):
        t.drive(f, A, "regress/" + label, alias, keycls)
    t.finish()


# ----------------------------------------------------------------------------------------------
# jobs
# ----------------------------------------------------------------------------------------------

# classes the maintainer's main() may pass to run.finish(required_classes=...)
REQUIRED_CLASSES = (
    "u16/0", "u16/max", "u16/single-bit", "u16/other", "u32/single-bit", "u64/single-bit", "u16/array-partial-word",
    "u32/array-partial-word", "u64/array-partial-word", "ww/B^n-1", "ww/cmp-equal", "ww/cmp2-equal-padded",
    "ww/shift-beyond-length", "ww/bits-straddle", "zz_add/a+b=B^n", "zz_add/a+b=B^n-1", "zz_add/sumeq-carry-lost",
    "zz_add/max-carry", "zz_div/a=q*b+(b-1)", "zz_div/top-words-equal", "zz_div/n<m", "zz_div/sqrt-x^2",
    "zz_gcd/fibonacci", "zz_gcd/powers-of-two", "zz_gcd/equal", "zz_gcd/coprime", "zz_gcd/zero", "zz_gcd/jacobi-a=k*b",
    "zz_mod/mod-1", "zz_mod/crandall", "zz_mod/mod-top-word-zero", "zz_mod/gcd!=1", "zz_mod/rand-never-below-mod",
    "zz_red/a=k*mod", "zz_red/a=mod*R-1", "zz_red/0", "zz_pow/0^0", "zz_pow/w-b=1", "zz_mod/a=0", "ww/bits-width=0",
    "regress/barr-estimate-off-by-2", "zz_red/a=(mod-s)(mod-t)", "zz_red/barr-estimate-off-by-2", "regress/mont-a=k*mod", "regress/addwmod-a+w=mod", "regress/inv-a=0", "regress/inv-gcd!=1", "regress/exgcd-operand-1",
    "regress/exgcd-small-vs-large", "regress/jacobi-n<m", "regress/declared-deep", "regress/powermodw-a>=mod",
    "regress/bits-width=0", "regress/bits-straddle", "regress/borrow-word", "regress/declared-deep-even-mod",
)

RULE = ("one case = one call of one function (its fast edition too where there is one) on operands drawn from a boundary "
        "catalogue x lengths 0..20 words x documented aliasing; non-trivial = distinct (function, aliasing, operands)")
ASSUMPTIONS = [
    "little-endian host: uNNFrom/uNNTo/wwFrom oracles read words as little-endian integers",
    "wwShLoCarry/wwShHiCarry: the header's prose is read as a shift of the (n+1)-word value a + carry*B^n (resp. a*B + carry); "
    "the returned word holds the last B_PER_W displaced bits",
    "zzRandMod/zzRandNZMod: only what the header promises is judged (flag; a in range when TRUE; bounded requests), not the "
    "way generator octets are consumed",
    "carry / borrow words are judged by the multi-precision identity (c + ret*B^n == a + b, c - ret*B^n == a - b) that the "
    "headers' '\\return carry/borrow word' implies, not by the boolean shorthand of the \\code block (zzSubMulW; n == 0)",
    "moduli are > 1 (the property's quantifier); zzJacobi still sees b = 1",
    "word.h macros, zzMulADK (declared, not defined in the library) are not driven",
]


def jobs(tier, scale=1.0):
    q = tier == "quick"

    def N(qv, tv):
        return max(1, int((qv if q else tv) * scale))
    J = []

    def add(unit, **p):
        J.append({"unit": "c05_zz:" + unit, "params": p})
    step = 1 if scale >= 1 else max(1, int(round(1 / scale)))
    add("unit_regress")
    for k in range(4):
        add("unit_zz_gcd", chunk=k, per=N(800, 8000))
    for k in range(4):
        add("unit_u16", chunk=k, chunks=4, step=step, arrays=N(150, 1500))
    for bits in (32, 64):
        for k in range(1 if q else 4):
            add("unit_uNN", bits=bits, chunk=k, random=N(4000, 30000), arrays=N(300, 1500))
    for k in range(4):
        add("unit_ww", chunk=k, per=N(500, 6000))
    for k in range(4):
        add("unit_zz_add", chunk=k, per=N(700, 8000))
    for k in range(4):
        add("unit_zz_div", chunk=k, per=N(3000, 40000))
    for k in range(4):
        add("unit_zz_mod", chunk=k, per=N(700, 8000))
    for k in range(4):
        add("unit_zz_red", chunk=k, per=N(2500, 30000))
    for k in range(4):
        add("unit_zz_pow", chunk=k, per=N(500, 5000))
    return J
