"""C05, first half — word helpers (u16/u32/u64), multi-word layer (ww.h) and big-integer layer (zz.h)
against exact Python-integer oracles written from the header formulas.

Every exported function is driven with operand lengths 0..20 words, a boundary-value catalogue, every
aliasing the header allows, exact-size heap buffers and scratch stacks of exactly `_deep()` octets.
SAFE/FAST pairs are both driven and compared with each other.  Everything is word-size agnostic
(lib.W = 4 or 8).

No main(): the maintainer's c05.py combines jobs() of this module with c05_pp.jobs().
"""
import ctypes, math, os, signal
from collections import Counter
from ..core import Harness

LEVEL = "exploration"
LENS = list(range(0, 21))

# functions that have a regular edition f and a fast edition f_fast
PAIRS = {
    "u16CTZ", "u16CLZ", "u32CTZ", "u32CLZ", "u64CTZ", "u64CLZ",
    "wwEq", "wwCmp", "wwCmp2", "wwCmpW", "wwIsZero", "wwIsW", "wwIsRepW",
    "zzIsSumEq", "zzIsSumWEq", "zzAddMod", "zzAddWMod", "zzSubMod", "zzSubWMod", "zzNegMod",
    "zzDoubleMod", "zzHalfMod", "zzRedCrand", "zzRedBarr", "zzRedMont", "zzRedCrandMont",
}

# bign standard parameters (STB 34.101.45, curves 128/192/256): p = 2^l - c, q
STD = {
    256: (2**256 - 189, 0xffffffffffffffffffffffffffffffffd95c8ed60dfb4dfc7e5abf99263d6607),
    384: (2**384 - 317, 0xfffffffffffffffffffffffffffffffffffffffffffffffe6cccc40373af7bbb8046dae7a6a4ff0a3db7dc3ff30ca7b7),
    512: (2**512 - 569, 0xffffffffffffffffffffffffffffffffffffffffffffffffffffffffffffffffb2c0092c0198004ef26bebb02e2113f4361bcae59556df32dcffad490d068ef1),
}


# ----------------------------------------------------------------------------------------------
# reference helpers (naive on purpose)
# ----------------------------------------------------------------------------------------------

def is_prime(n):
    if n < 2:
        return False
    small = (2, 3, 5, 7, 11, 13, 17, 19, 23, 29, 31, 37)
    for p in small:
        if n % p == 0:
            return n == p
    d, s = n - 1, 0
    while d % 2 == 0:
        d //= 2
        s += 1
    for a in small:
        x = pow(a, d, n)
        if x in (1, n - 1):
            continue
        for _ in range(s - 1):
            x = x * x % n
            if x == n - 1:
                break
        else:
            return False
    return True


_PRIMES = {}


def primes_for(n, bw):
    """a few primes with exactly n words of bw bits (n*bw <= 256): largest below B^n, smallest above
    2^(n*bw-1), smallest above B^(n-1)"""
    key = (n, bw)
    if key not in _PRIMES:
        top = 1 << (n * bw)
        out = []
        p = top - 1
        while not is_prime(p):
            p -= 2
        out.append(p)
        p = (top >> 1) + 1
        while not is_prime(p):
            p += 2
        out.append(p)
        if n > 1:
            p = (top >> bw) + 1
            while not is_prime(p):
                p += 2
            out.append(p)
        _PRIMES[key] = out
    return _PRIMES[key]


def jacobi(a, b):
    """Jacobi symbol (a/b), b odd positive — textbook binary algorithm"""
    a %= b
    t = 1
    while a:
        while a % 2 == 0:
            a //= 2
            if b % 8 in (3, 5):
                t = -t
        a, b = b, a
        if a % 4 == 3 and b % 4 == 3:
            t = -t
        a %= b
    return t if b == 1 else 0


def naf_digits(a, w):
    """window NAF of a as documented in ww.h (including the documented suffix replacement)"""
    digs = []
    x = a
    while x:
        if x & 1:
            d = x & ((1 << w) - 1)
            if d >= (1 << (w - 1)):
                d -= 1 << w
            x -= d
        else:
            d = 0
        digs.append(d)
        x >>= 1
    l = len(digs)
    if l >= w + 1 and digs[-1] == 1 and all(d == 0 for d in digs[l - w:l - 1]) and digs[l - w - 1] < 0:
        alpha = digs[l - w - 1]
        digs = digs[:l - w - 1] + [(1 << (w - 1)) + alpha] + [0] * (w - 2) + [1]
    return digs


def naf_encode(digs, w):
    code, pos = 0, 0
    for d in reversed(digs):           # a_{l-1} occupies the first (lowest) positions
        if d == 0:
            pos += 1
        else:
            sym = d if d > 0 else ((1 << (w - 1)) | -d)
            code |= sym << pos
            pos += w
    return code


def bitrev(w, bits):
    return int(format(w, "0%db" % bits)[::-1], 2)


def shuffle(w, bits):
    h = bits // 2
    r = 0
    for i in range(h):
        r |= ((w >> i) & 1) << (2 * i)
        r |= ((w >> (h + i)) & 1) << (2 * i + 1)
    return r


def deshuffle(w, bits):
    h = bits // 2
    r = 0
    for i in range(h):
        r |= ((w >> (2 * i)) & 1) << i
        r |= ((w >> (2 * i + 1)) & 1) << (h + i)
    return r


def ctz(w, bits):
    return bits if w == 0 else (w & -w).bit_length() - 1


def selftest():
    for p in (3, 5, 7, 11, 13, 101, 257):
        for a in range(0, 2 * p + 1):
            e = pow(a, (p - 1) // 2, p)
            e = -1 if e == p - 1 else e
            if jacobi(a, p) != e:
                raise Harness("jacobi model vs Euler criterion: (%d/%d)" % (a, p))
    for b, fs in ((15, (3, 5)), (21, (3, 7)), (45, (3, 3, 5)), (1155, (3, 5, 7, 11))):
        for a in range(0, 2 * b):
            e = 1
            for p in fs:
                e *= jacobi(a, p)
            if jacobi(a, b) != e:
                raise Harness("jacobi model not multiplicative: (%d/%d)" % (a, b))
    for w in (2, 3, 4, 5, 7):
        for a in list(range(0, 600)) + [2**64 - 1, 2**64 - 3, 0xF0F0F0F0F0F0F0F1, 3 << 70]:
            d = naf_digits(a, w)
            if sum(x << i for i, x in enumerate(d)) != a:
                raise Harness("naf model: value")
            if any(x and (x % 2 == 0 or abs(x) >= (1 << (w - 1))) for x in d):
                raise Harness("naf model: digit set")
            if a and d[-1] == 0:
                raise Harness("naf model: top digit")
            if len(d) > a.bit_length() + 1:
                raise Harness("naf model: length")
            # non-adjacency holds except across the documented replaced suffix
            nz = [i for i, x in enumerate(d) if x]
            for i, j in zip(nz, nz[1:]):
                if j - i < w and j != len(d) - 1:
                    raise Harness("naf model: adjacency")
    for bits in (16, 32, 64):
        for w in (0, 1, 0x8001, 0x1234, (1 << bits) - 1, 0xA5A5 << (bits - 16)):
            if deshuffle(shuffle(w, bits), bits) != w or bitrev(bitrev(w, bits), bits) != w:
                raise Harness("shuffle/bitrev model")
    if shuffle(0x00FF, 16) != 0x5555 or shuffle(0xFF00, 16) != 0xAAAA:
        raise Harness("shuffle model orientation")
    if not (is_prime(2**256 - 189) and is_prime(STD[256][1]) and not is_prime(2**256 - 187)):
        raise Harness("Miller-Rabin model")


# ----------------------------------------------------------------------------------------------
# value catalogues
# ----------------------------------------------------------------------------------------------

VAL_KINDS = ("0", "1", "2", "B-1", "B^n-1", "B^(n-1)", "bit-at-word-boundary", "bit-below-word-boundary",
             "all-ones-words", "alt-0F", "alt-F0", "special-words", "sparse", "random", "random", "random-short")


def special_words(rng, n, bw):
    B = 1 << bw
    sw = (0, 0, 1, 2, B // 2 - 1, B // 2, B // 2 + 1, B - 2, B - 1, B - 1, rng.getrandbits(bw))
    v = 0
    for i in range(n):
        v |= rng.choice(sw) << (bw * i)
    return v


def val(rng, n, bw, kind=None):
    """(label, value): an n-word operand from the boundary catalogue"""
    if n == 0:
        return "0", 0
    B = 1 << bw
    top = 1 << (bw * n)
    k = kind or rng.choice(VAL_KINDS)
    if k == "0":
        v = 0
    elif k == "1":
        v = 1
    elif k == "2":
        v = 2
    elif k == "B-1":
        v = B - 1
    elif k == "B^n-1":
        v = top - 1
    elif k == "B^(n-1)":
        v = top >> bw
    elif k == "bit-at-word-boundary":
        v = 1 << (bw * rng.randrange(n))
    elif k == "bit-below-word-boundary":
        v = 1 << (bw * rng.randrange(1, n + 1) - 1)
    elif k == "all-ones-words":
        v = 0
        for i in range(n):
            if rng.random() < 0.6:
                v |= (B - 1) << (bw * i)
    elif k == "alt-0F":
        v = sum((B - 1) << (bw * i) for i in range(1, n, 2))
    elif k == "alt-F0":
        v = sum((B - 1) << (bw * i) for i in range(0, n, 2))
    elif k == "special-words":
        v = special_words(rng, n, bw)
    elif k == "sparse":
        v = 0
        for _ in range(rng.randrange(1, 5)):
            v |= 1 << rng.randrange(bw * n)
    elif k == "random-short":
        v = rng.getrandbits(rng.randrange(1, bw * n + 1))
    else:
        k = "random"
        v = rng.getrandbits(bw * n)
    return k, v


def word(rng, bw, nz=False):
    B = 1 << bw
    w = rng.choice((0, 1, 2, 3, B // 2 - 1, B // 2, B // 2 + 1, B - 2, B - 1,
                    rng.getrandbits(bw), rng.getrandbits(bw), rng.getrandbits(bw // 2)))
    if nz and w == 0:
        w = 1
    return w


MOD_KINDS = ("B^n-1", "crandall", "crandall", "B^(n-1)", "B^(n-1)+1", "top-bit-only+1", "odd-top-set", "odd-top-set",
             "odd-top-clear", "even-top-set", "even-top-clear", "small-top-word", "std", "prime", "composite", "tiny")


def modulus(rng, n, bw, odd=False, kinds=None):
    """(label, m) with B^(n-1) <= m < B^n, n >= 1"""
    B = 1 << bw
    top = 1 << (bw * n)
    lo = top >> bw
    k = rng.choice(kinds or MOD_KINDS)
    r = rng.getrandbits(bw * n)
    c = rng.choice((1, 3, 5, 189, 317, 569, B - 1, B - 3, 2, B - 2, 1 + r % (B - 1), (r % (B - 1)) | 1))
    if k == "std":
        if n * bw in STD:
            m = STD[n * bw][r & 1]
            k = "std-p" if m == STD[n * bw][0] else "std-q"
        else:
            k = "crandall"
    if k == "prime":
        if n * bw <= 256:
            ps = primes_for(n, bw)
            m = ps[r % len(ps)]
        else:
            k = "odd-top-set"
    if k == "B^n-1":
        m = top - 1
    elif k == "crandall":
        m = top - c
    elif k == "B^(n-1)":
        m = lo
    elif k == "B^(n-1)+1":
        m = lo + 1
    elif k == "top-bit-only+1":
        m = (top >> 1) + 1
    elif k == "odd-top-set":
        m = r | (top >> 1) | 1
    elif k == "odd-top-clear":
        m = (r & ~(top >> 1)) | 1 | (lo if n > 1 else 0)
    elif k == "even-top-set":
        m = (r | (top >> 1)) & ~1
    elif k == "even-top-clear":
        m = ((r & ~(top >> 1)) & ~1) | (lo if n > 1 else 2)
    elif k == "small-top-word":
        m = (1 + r % 3) * lo + ((r >> 2) % lo)
    elif k == "composite":
        h = (bw * n) // 2
        x = (r >> h) | 1 | (1 << (bw * n - h - 1))
        y = (r & ((1 << h) - 1)) | 1 | (1 << max(h - 1, 0))
        m = x * y
        if not lo <= m < top:
            m = (r | (top >> 1) | 1)
            k = "odd-top-set"
    elif k == "tiny":
        t = (1, 2, 3, 4, 5, 7, 9, 15, 16, 255)[r % 10]
        m = t if n == 1 else lo + t
    if odd and m % 2 == 0:
        m |= 1
        k += "|1"
    if not (lo <= m < top) or m < 1:
        raise Harness("modulus generator: %s n=%d" % (k, n))
    return k, m


BELOW_KINDS = ("0", "1", "2", "mod-1", "mod-2", "half", "half+1", "low-word-ones", "B^k", "random", "random", "random")


def below(rng, m, n, bw, kind=None, nz=False):
    """(label, value) with 0 <= value < m"""
    k = kind or rng.choice(BELOW_KINDS)
    r = rng.randrange(m)
    if k == "0":
        v = 0
    elif k == "1":
        v = 1 % m
    elif k == "2":
        v = 2 % m
    elif k == "mod-1":
        v = m - 1
    elif k == "mod-2":
        v = (m - 2) % m
    elif k == "half":
        v = m // 2
    elif k == "half+1":
        v = (m // 2 + 1) % m
    elif k == "low-word-ones":
        v = ((1 << bw) - 1) % m
    elif k == "B^k":
        v = (1 << (bw * (r % max(n, 1)))) % m
    else:
        k, v = "random", r
    if nz and v == 0:
        v = 1 % m
        k = "1"
    return k, v
