"""C12 - validators accept exactly the valid parameters, keys, dates, primes and polynomials.

Oracle: vlib/ref/params.py (condition lists of the headers / of the comment blocks of the *ParamsVal sources as
executable predicates; sieve + Miller-Rabin; Rabin irreducibility test).  The model's verdict (True / False /
None = documentation does not settle the case) decides what the library has to answer; undecided cases are
executed (no crash allowed) but not judged.

Memory: every struct is a fresh malloc of exactly sizeof (336, 412, 272, 760, 232, 976, 296 - asserted in
ref/params.py against the header layouts), every stack exactly the value of the corresponding _deep().
"""
import ctypes

from ..core import Harness
from ..ref import params as M
from ..ref import ec, gf2poly

LEVEL = "exploration"
SIZE_MAX = (1 << 64) - 1

BIGN_STD = ("1.2.112.0.2.0.34.101.45.3.1", "1.2.112.0.2.0.34.101.45.3.2", "1.2.112.0.2.0.34.101.45.3.3")
BIGN96_STD = ("1.2.112.0.2.0.34.101.45.3.0",)
G12S_STD = ("1.2.643.2.2.35.0", "1.2.643.2.2.35.1", "1.2.643.2.2.35.2", "1.2.643.2.2.35.3", "1.2.643.2.9.1.8.1",
            "1.2.643.7.1.2.1.2.0", "1.2.643.7.1.2.1.2.1", "1.2.643.7.1.2.1.2.2")
STB99_STD = ("test", "1.2.112.0.2.0.1176.2.3.3.1", "1.2.112.0.2.0.1176.2.3.6.1", "1.2.112.0.2.0.1176.2.3.10.1")
PFOK_STD = ("test", "1.2.112.0.2.0.1176.2.3.3.2", "1.2.112.0.2.0.1176.2.3.6.2", "1.2.112.0.2.0.1176.2.3.10.2")
DSTU_STD = tuple("1.2.804.2.1.1.1.1.3.1.1.1.2.%d" % i for i in range(10))


# =============================================================================
# helpers
# =============================================================================

class Reporter:
    """one violation line per key and job; all occurrences are counted into the evidence"""

    def __init__(self, ctx):
        self.ctx, self.seen = ctx, {}

    def __call__(self, key, what, detail):
        n = self.seen.get(key, 0)
        self.seen[key] = n + 1
        if n == 0:
            self.ctx.violation(key, what, detail)

    def flush(self):
        if self.seen:
            self.ctx.note("violation_occurrences", dict(self.seen))


def refill(lib, p, n):
    if n:
        ctypes.memset(p, lib.fill, n)


def nwords(lib, x):
    return max(1, (x.bit_length() + lib.B - 1) // lib.B)


def hash_fn(lib):
    """belt-hash of the library (C01 covers belt): only used to evaluate B(seed) of alg. 6.1.4"""
    def H(data):
        live = lib._live
        lib._live = []
        o = lib.alloc(32)
        s = lib.mk(data)
        lib.beltHash(o, s, len(data))
        r = lib.rd(o, 32)
        lib.release()
        lib._live = live
        return r
    return H


def brng(lib, tag):
    """(gen address, state): the library's brngCTR on a key derived from tag (deterministic generator tape)"""
    key = (tag.encode() + bytes(32))[:32]
    st = lib.alloc(lib.brngCTR_keep())
    lib.brngCTRStart(st, lib.mk(key), lib.mk(bytes(32)))
    return lib.addr("brngCTRStepR"), st


def model_selftest(ctx):
    M.selftest()
    lib = ctx.lib
    if lib is not None:
        # beltHash anchor (STB 34.101.31 A.23 as embedded in belt_test.c): hash of the first 13 octets of H
        H = lib.rd(lib.beltH(), 256)
        got = hash_fn(lib)(H[:13]).hex().upper()
        if got != "ABEF9725D4C5A83597A367D14494CC2542F20F659DDFECC961A3EC550CBA8C75":
            raise Harness("beltHash anchor failed: " + got)


def judge(ctx, rep, fname, label, verdict, reason, ok, detail):
    """verdict True -> library must accept, False -> must reject, None -> not judged"""
    if verdict is None:
        ctx.classes["undecided:" + fname] += 1
        return
    if verdict and not ok:
        rep("%s:rejects-valid:%s" % (fname, label), "%s rejects an object that satisfies every documented condition" % fname,
            detail)
    elif not verdict and ok:
        rep("%s:accepts-invalid:%s" % (fname, reason), "%s accepts an object violating the documented condition '%s'"
            % (fname, reason), detail)


# =============================================================================
# dates
# =============================================================================

PAIR_BASES = {
    0: [(0, 0, 0, 2, 2, 9), (0, 0, 1, 2, 3, 1)],        # year octets vary; 29 Feb (leap years only) / 31 Dec
    1: [(2, 4, 0, 0, 3, 1), (2, 3, 0, 0, 2, 9)],        # month octets vary; day 31 / day 29 of 2023
    2: [(2, 4, 0, 2, 0, 0), (2, 3, 1, 1, 0, 0)],        # day octets vary; Feb 2024 / Nov 2023
}


def _date2(lib, buf, o):
    lib.wr(buf, bytes(o))
    return lib.tmDateIsValid2(buf)


def _date2_judge(rep, o, got):
    exp = M.date2_valid(o)
    if bool(got) != exp:
        if got and any(x > 9 for x in o):
            rep("tmDateIsValid2:accepts-non-digit", "tmDateIsValid2 accepts a date with an octet > 9 (tm.h: each octet is one "
                "decimal digit)", {"date": list(o), "expected": exp, "got": got})
        elif got:
            rep("tmDateIsValid2:accepts-invalid-date", "tmDateIsValid2 accepts a non-existent date",
                {"date": list(o), "got": got})
        else:
            rep("tmDateIsValid2:rejects-valid-date", "tmDateIsValid2 rejects a valid date", {"date": list(o), "got": got})


def unit_dates(ctx):
    lib, rng, rep = ctx.lib, ctx.rng, Reporter(ctx)
    part = ctx.params["part"]
    M.selftest()
    if part.startswith("pair"):
        k = int(part[4:])
        for bi, base in enumerate(PAIR_BASES[k]):
            for hi in range(256):
                if not ctx.case(["tmDateIsValid2", "pair", k, list(base), hi], "date2:pair-exhaustive"):
                    continue
                buf = lib.alloc(6)
                res = bytearray()
                for lo in range(256):
                    o = list(base)
                    o[2 * k], o[2 * k + 1] = hi, lo
                    got = _date2(lib, buf, o)
                    res.append(1 if got else 0)
                    _date2_judge(rep, o, got)
                lib.release()
                ctx.digest(bytes(res))
                ctx.count(255, "date2:pair-exhaustive")
    elif part == "century":
        dates = M.century_dates()
        for yy in range(100):
            ds = [d for d in dates if 10 * d[0] + d[1] == yy]
            if not ctx.case(["tmDateIsValid2", "year", yy, len(ds)], "date2:century-valid"):
                continue
            buf = lib.alloc(6)
            res = bytearray()
            for o in ds:
                got = _date2(lib, buf, o)
                res.append(1 if got else 0)
                _date2_judge(rep, o, got)
            # boundary: day after the end of each month, day 0, months 0 and 13
            nb = 0
            for m in range(0, 14):
                dl = [0, 1, 28, 29, 30, 31, 32] if 1 <= m <= 12 else [1, 15]
                for d in dl:
                    o = (yy // 10, yy % 10, m // 10, m % 10, d // 10, d % 10)
                    got = _date2(lib, buf, o)
                    res.append(1 if got else 0)
                    _date2_judge(rep, o, got)
                    nb += 1
            lib.release()
            ctx.digest(bytes(res))
            ctx.count(len(ds) - 1, "date2:century-valid")
            ctx.count(nb, "date2:month-boundary")
    elif part == "misc":
        valid = M.century_dates()
        # every octet value 10..255 in every position, the other five from a valid date
        for pos in range(6):
            base = valid[rng.randrange(len(valid))]
            if not ctx.case(["tmDateIsValid2", "octet>9", pos, list(base)], "date2:octet>9"):
                continue
            buf = lib.alloc(6)
            res = bytearray()
            for v in range(10, 256):
                o = list(base)
                o[pos] = v
                got = _date2(lib, buf, o)
                res.append(1 if got else 0)
                _date2_judge(rep, o, got)
            lib.release()
            ctx.digest(bytes(res))
            ctx.count(245, "date2:octet>9")
        # the two witnesses of DESIGN F13
        for o in ((0, 10, 0, 1, 0, 1), (2, 3, 0, 12, 2, 11)):
            if not ctx.case(["tmDateIsValid2", "F13", list(o)], "date2:octet>9"):
                continue
            buf = lib.alloc(6)
            got = _date2(lib, buf, o)
            _date2_judge(rep, o, got)
            lib.release()
            ctx.digest(got)
        # random sextuples: uniform octets, small octets, digits
        nrand = ctx.params.get("random", 3000)
        for kind, top in (("uniform", 256), ("0..15", 16), ("digits", 10), ("near-valid", 0)):
            for blk in range(nrand // 250):
                sx = []
                for _ in range(250):
                    if top:
                        sx.append([rng.randrange(top) for _ in range(6)])
                    else:
                        o = list(valid[rng.randrange(len(valid))])
                        o[rng.randrange(6)] = rng.randrange(12)
                        sx.append(o)
                if not ctx.case(["tmDateIsValid2", "random", kind, blk, sx[0]], "date2:random-" + kind):
                    continue
                buf = lib.alloc(6)
                res = bytearray()
                for o in sx:
                    got = _date2(lib, buf, o)
                    res.append(1 if got else 0)
                    _date2_judge(rep, o, got)
                lib.release()
                ctx.digest(bytes(res))
                ctx.count(249, "date2:random-" + kind)
    elif part == "ymd":
        years = [0, 1, 4, 100, 400, 1582, 1583, 1584, 1600, 1700, 1800, 1900, 1999, 2000, 2023, 2024, 2100, 2400,
                 9999, 10000, (1 << 31) - 1, 1 << 32, SIZE_MAX - 3, SIZE_MAX]
        years += [rng.randrange(1500, 3000) for _ in range(40)]
        for y in years:
            if not ctx.case(["tmDateIsValid", y], "date:ymd-grid"):
                continue
            res = bytearray()
            for m in list(range(0, 15)) + [255, 256, SIZE_MAX]:
                for d in list(range(0, 34)) + [255, 256, SIZE_MAX]:
                    got = lib.tmDateIsValid(y, m, d)
                    res.append(1 if got else 0)
                    if bool(got) != M.date_valid(y, m, d):
                        rep("tmDateIsValid:" + ("accepts-invalid-date" if got else "rejects-valid-date"),
                            "tmDateIsValid disagrees with the Gregorian calendar (y >= 1583)", {"y": y, "m": m, "d": d, "got": got})
            ctx.digest(bytes(res))
            ctx.count(18 * 37 - 1, "date:ymd-grid")
    rep.flush()
