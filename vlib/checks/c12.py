"""C12 - validators accept exactly the valid parameters, keys, dates, primes and polynomials.

Oracle: vlib/ref/params.py (condition lists of the headers / of the comment blocks of the *ParamsVal sources as
executable predicates; sieve + Miller-Rabin; Rabin irreducibility test).  The model's verdict (True / False /
None = documentation does not settle the case) decides what the library has to answer; undecided cases are
executed (no crash allowed) but not judged.

Memory: every struct is a fresh malloc of exactly sizeof (336, 412, 272, 760, 232, 976, 296 - asserted in
ref/params.py against the header layouts), every stack exactly the value of the corresponding _deep().
"""
import ctypes

from ..core import Harness
from .. import bee2
from ..ref import params as M
from ..ref import ec, gf2poly

LEVEL = "exploration"
SIZE_MAX = (1 << 64) - 1

BIGN_STD = ("1.2.112.0.2.0.34.101.45.3.1", "1.2.112.0.2.0.34.101.45.3.2", "1.2.112.0.2.0.34.101.45.3.3")
BIGN96_STD = ("1.2.112.0.2.0.34.101.45.3.0",)
G12S_STD = ("1.2.643.2.2.35.0", "1.2.643.2.2.35.1", "1.2.643.2.2.35.2", "1.2.643.2.2.35.3", "1.2.643.2.9.1.8.1",
            "1.2.643.7.1.2.1.2.0", "1.2.643.7.1.2.1.2.1", "1.2.643.7.1.2.1.2.2")
STB99_STD = ("test", "1.2.112.0.2.0.1176.2.3.3.1", "1.2.112.0.2.0.1176.2.3.6.1", "1.2.112.0.2.0.1176.2.3.10.1")
PFOK_STD = ("test", "1.2.112.0.2.0.1176.2.3.3.2", "1.2.112.0.2.0.1176.2.3.6.2", "1.2.112.0.2.0.1176.2.3.10.2")
DSTU_STD = tuple("1.2.804.2.1.1.1.1.3.1.1.1.2.%d" % i for i in range(10))


# =============================================================================
# helpers
# =============================================================================

class Reporter:
    """one violation line per key and job; all occurrences are counted into the evidence"""

    def __init__(self, ctx):
        self.ctx, self.seen = ctx, {}

    def __call__(self, key, what, detail):
        n = self.seen.get(key, 0)
        self.seen[key] = n + 1
        if n == 0:
            self.ctx.violation(key, what, detail)

    def flush(self):
        if self.seen:
            self.ctx.note("violation_occurrences", dict(self.seen))


def refill(lib, p, n):
    if n:
        ctypes.memset(p, lib.fill, n)


def nwords(lib, x):
    return max(1, (x.bit_length() + lib.B - 1) // lib.B)


def hash_fn(lib):
    """belt-hash of the library (C01 covers belt): only used to evaluate B(seed) of alg. 6.1.4"""
    def H(data):
        live = lib._live
        lib._live = []
        o = lib.alloc(32)
        s = lib.mk(data)
        lib.beltHash(o, s, len(data))
        r = lib.rd(o, 32)
        lib.release()
        lib._live = live
        return r
    return H


def brng(lib, tag):
    """(gen address, state): the library's brngCTR on a key derived from tag (deterministic generator tape)"""
    key = (tag.encode() + bytes(32))[:32]
    st = lib.alloc(lib.brngCTR_keep())
    lib.brngCTRStart(st, lib.mk(key), lib.mk(bytes(32)))
    return lib.addr("brngCTRStepR"), st


def model_selftest(ctx):
    M.selftest()
    lib = ctx.lib
    if lib is not None:
        # beltHash anchor (STB 34.101.31 A.23 as embedded in belt_test.c): hash of the first 13 octets of H
        H = lib.rd(lib.beltH(), 256)
        got = hash_fn(lib)(H[:13]).hex().upper()
        if got != "ABEF9725D4C5A83597A367D14494CC2542F20F659DDFECC961A3EC550CBA8C75":
            raise Harness("beltHash anchor failed: " + got)


def _side(ctx):
    """side file of the class labels of this worker segment.  A worker that dies on a case (ASSERT, sanitizer) loses
    its class histogram; the restarted worker re-reads the side files of the earlier segments of the same job, so that
    the evidence shows every case that really ran.  Best effort: without the runner's file layout nothing is re-credited."""
    f = getattr(ctx, "_c12_side", None)
    if f is None:
        try:
            f = open(ctx._out.name + ".cls", "a")
        except Exception:
            f = False
        ctx._c12_side = f
    return f


def credit(ctx, cls, n=1, count=True):
    if count:
        ctx.classes[cls] += n
    f = _side(ctx)
    if f:
        f.write("%s\t%d\n" % (cls, n))
        f.flush()


def case(ctx, desc, cls):
    ok = ctx.case(desc, cls)
    if ok:
        credit(ctx, cls, 1, count=False)
    return ok


def resume_credit(ctx):
    import re
    if getattr(ctx, "resume_after", -1) < 0 or getattr(ctx, "stop_after", None) is not None:
        return
    try:
        m = re.match(r"^(.*/j\d+_)(\d+)\.jsonl$", ctx._out.name)
        for r in range(int(m.group(2))):
            try:
                for line in open("%s%d.jsonl.cls" % (m.group(1), r)):
                    cls, n = line.rstrip("\n").split("\t")
                    ctx.classes[cls] += int(n)
            except OSError:
                pass
    except Exception:
        pass


def judge(ctx, rep, fname, label, verdict, reason, ok, detail):
    """verdict True -> library must accept, False -> must reject, None -> not judged"""
    if verdict is None:
        credit(ctx, "undecided:" + fname)
        return
    if verdict and not ok:
        rep("%s:rejects-valid:%s" % (fname, label), "%s rejects an object that satisfies every documented condition" % fname,
            detail)
    elif not verdict and ok:
        rep("%s:accepts-invalid:%s" % (fname, reason), "%s accepts an object violating the documented condition '%s'"
            % (fname, reason), detail)


# =============================================================================
# dates
# =============================================================================

PAIR_BASES = {
    0: [(0, 0, 0, 2, 2, 9), (0, 0, 1, 2, 3, 1)],        # year octets vary; 29 Feb (leap years only) / 31 Dec
    1: [(2, 4, 0, 0, 3, 1), (2, 3, 0, 0, 2, 9)],        # month octets vary; day 31 / day 29 of 2023
    2: [(2, 4, 0, 2, 0, 0), (2, 3, 1, 1, 0, 0)],        # day octets vary; Feb 2024 / Nov 2023
}


def _date2(lib, buf, o):
    lib.wr(buf, bytes(o))
    return lib.tmDateIsValid2(buf)


def _date2_judge(rep, o, got):
    exp = M.date2_valid(o)
    if bool(got) != exp:
        if got and any(x > 9 for x in o):
            rep("tmDateIsValid2:accepts-non-digit", "tmDateIsValid2 accepts a date with an octet > 9 (tm.h: each octet is one "
                "decimal digit)", {"date": list(o), "expected": exp, "got": got})
        elif got:
            rep("tmDateIsValid2:accepts-invalid-date", "tmDateIsValid2 accepts a non-existent date",
                {"date": list(o), "got": got})
        else:
            rep("tmDateIsValid2:rejects-valid-date", "tmDateIsValid2 rejects a valid date", {"date": list(o), "got": got})


def unit_dates(ctx):
    lib, rng, rep = ctx.lib, ctx.rng, Reporter(ctx)
    part = ctx.params["part"]
    M.selftest()
    if part.startswith("pair"):
        k = int(part[4:])
        for bi, base in enumerate(PAIR_BASES[k]):
            for hi in range(256):
                if not ctx.case(["tmDateIsValid2", "pair", k, list(base), hi], "date2:pair-exhaustive"):
                    continue
                buf = lib.alloc(6)
                res = bytearray()
                for lo in range(256):
                    o = list(base)
                    o[2 * k], o[2 * k + 1] = hi, lo
                    got = _date2(lib, buf, o)
                    res.append(1 if got else 0)
                    _date2_judge(rep, o, got)
                lib.release()
                ctx.digest(bytes(res))
                ctx.count(255, "date2:pair-exhaustive")
    elif part == "century":
        dates = M.century_dates()
        for yy in range(100):
            ds = [d for d in dates if 10 * d[0] + d[1] == yy]
            if not ctx.case(["tmDateIsValid2", "year", yy, len(ds)], "date2:century-valid"):
                continue
            buf = lib.alloc(6)
            res = bytearray()
            for o in ds:
                got = _date2(lib, buf, o)
                res.append(1 if got else 0)
                _date2_judge(rep, o, got)
            # boundary: day after the end of each month, day 0, months 0 and 13
            nb = 0
            for m in range(0, 14):
                dl = [0, 1, 28, 29, 30, 31, 32] if 1 <= m <= 12 else [1, 15]
                for d in dl:
                    o = (yy // 10, yy % 10, m // 10, m % 10, d // 10, d % 10)
                    got = _date2(lib, buf, o)
                    res.append(1 if got else 0)
                    _date2_judge(rep, o, got)
                    nb += 1
            lib.release()
            ctx.digest(bytes(res))
            ctx.count(len(ds) - 1, "date2:century-valid")
            ctx.count(nb, "date2:month-boundary")
    elif part == "misc":
        valid = M.century_dates()
        # every octet value 10..255 in every position, the other five from a valid date
        for pos in range(6):
            base = valid[rng.randrange(len(valid))]
            if not ctx.case(["tmDateIsValid2", "octet>9", pos, list(base)], "date2:octet>9"):
                continue
            buf = lib.alloc(6)
            res = bytearray()
            for v in range(10, 256):
                o = list(base)
                o[pos] = v
                got = _date2(lib, buf, o)
                res.append(1 if got else 0)
                _date2_judge(rep, o, got)
            lib.release()
            ctx.digest(bytes(res))
            ctx.count(245, "date2:octet>9")
        # the two witnesses of DESIGN F13
        for o in ((0, 10, 0, 1, 0, 1), (2, 3, 0, 12, 2, 11)):
            if not ctx.case(["tmDateIsValid2", "F13", list(o)], "date2:octet>9"):
                continue
            buf = lib.alloc(6)
            got = _date2(lib, buf, o)
            _date2_judge(rep, o, got)
            lib.release()
            ctx.digest(got)
        # random sextuples: uniform octets, small octets, digits
        nrand = ctx.params.get("random", 3000)
        for kind, top in (("uniform", 256), ("0..15", 16), ("digits", 10), ("near-valid", 0)):
            for blk in range(nrand // 250):
                sx = []
                for _ in range(250):
                    if top:
                        sx.append([rng.randrange(top) for _ in range(6)])
                    else:
                        o = list(valid[rng.randrange(len(valid))])
                        o[rng.randrange(6)] = rng.randrange(12)
                        sx.append(o)
                if not ctx.case(["tmDateIsValid2", "random", kind, blk, sx[0]], "date2:random-" + kind):
                    continue
                buf = lib.alloc(6)
                res = bytearray()
                for o in sx:
                    got = _date2(lib, buf, o)
                    res.append(1 if got else 0)
                    _date2_judge(rep, o, got)
                lib.release()
                ctx.digest(bytes(res))
                ctx.count(249, "date2:random-" + kind)
    elif part == "ymd":
        years = [0, 1, 4, 100, 400, 1582, 1583, 1584, 1600, 1700, 1800, 1900, 1999, 2000, 2023, 2024, 2100, 2400,
                 9999, 10000, (1 << 31) - 1, 1 << 32, SIZE_MAX - 3, SIZE_MAX]
        years += [rng.randrange(1500, 3000) for _ in range(40)]
        for y in years:
            if not ctx.case(["tmDateIsValid", y], "date:ymd-grid"):
                continue
            res = bytearray()
            for m in list(range(0, 15)) + [255, 256, SIZE_MAX]:
                for d in list(range(0, 34)) + [255, 256, SIZE_MAX]:
                    got = lib.tmDateIsValid(y, m, d)
                    res.append(1 if got else 0)
                    if bool(got) != M.date_valid(y, m, d):
                        rep("tmDateIsValid:" + ("accepts-invalid-date" if got else "rejects-valid-date"),
                            "tmDateIsValid disagrees with the Gregorian calendar (y >= 1583)", {"y": y, "m": m, "d": d, "got": got})
            ctx.digest(bytes(res))
            ctx.count(18 * 37 - 1, "date:ymd-grid")
    rep.flush()


# =============================================================================
# primes: exhaustive windows
# =============================================================================

def unit_primes_window(ctx):
    """params lo, hi (multiples of 256), fns subset of W (priIsPrimeW), P (priIsPrime), N (priNextPrimeW)"""
    lib, rep = ctx.lib, Reporter(ctx)
    lo, hi, fns = ctx.params["lo"], ctx.params["hi"], ctx.params["fns"]
    MARG = 4096
    flags = M.sieve_window(lo, hi + MARG)
    # oracle self-check on a sample (segmented sieve against Miller-Rabin)
    for i in range(0, hi + MARG - lo, max(1, (hi - lo) // 200)):
        if bool(flags[i]) != M.is_prime(lo + i):
            raise Harness("sieve_window disagrees with Miller-Rabin at %d" % (lo + i))
    # least odd prime >= x, from the sieve
    nxt = [None] * (hi + MARG - lo + 1)
    cur = None
    for i in range(hi + MARG - lo - 1, -1, -1):
        if flags[i] and (lo + i) % 2:
            cur = lo + i
        nxt[i] = cur
    Wmax = 1 << lib.B
    stW = lib.priIsPrimeW_deep()
    for s in range(lo, hi, 256):
        blk = range(s, s + 256)
        wfit = s + 256 <= Wmax
        n = nwords(lib, s + 255)
        cls = "window:" + ("word" if wfit else "multiword")
        if "W" in fns and wfit:
            if ctx.case(["priIsPrimeW", s, 256], cls + ":priIsPrimeW"):
                st = lib.alloc(stW)
                res = bytearray()
                for a in blk:
                    refill(lib, st, stW)
                    got = lib.priIsPrimeW(a, st)
                    res.append(1 if got else 0)
                    if bool(got) != bool(flags[a - lo]):
                        rep("priIsPrimeW:" + ("accepts-composite" if got else "rejects-prime"),
                            "priIsPrimeW (deterministic per pri.h) gives the wrong answer", {"a": a, "got": got})
                lib.release()
                ctx.digest(bytes(res))
                ctx.count(255, cls + ":priIsPrimeW")
        if "P" in fns:
            if ctx.case(["priIsPrime", s, 256, n], cls + ":priIsPrime"):
                dp = lib.priIsPrime_deep(n)
                st = lib.alloc(dp)
                buf = lib.alloc(n * lib.W)
                res = bytearray()
                for a in blk:
                    lib.wr(buf, a.to_bytes(n * lib.W, "little"))
                    refill(lib, st, dp)
                    got = lib.priIsPrime(buf, n, st)
                    res.append(1 if got else 0)
                    if bool(got) != bool(flags[a - lo]):
                        rep("priIsPrime:" + ("accepts-composite" if got else "rejects-prime"),
                            "priIsPrime gives the wrong answer (error probability documented <= 2^-64)",
                            {"a": a, "n": n, "got": got})
                lib.release()
                ctx.digest(bytes(res))
                ctx.count(255, cls + ":priIsPrime")
        if "N" in fns and wfit:
            if ctx.case(["priNextPrimeW", s, 256], cls + ":priNextPrimeW"):
                st = lib.alloc(lib.priNextPrimeW_deep())
                out = lib.alloc(lib.W)
                res = []
                for a in blk:
                    exp = nxt[a - lo]
                    if a.bit_length() <= 1 or exp is None or exp.bit_length() != a.bit_length():
                        if exp is None and a.bit_length() > 1 and (a + MARG).bit_length() == a.bit_length():
                            raise Harness("sieve margin too small at %d" % a)
                        exp = None
                    refill(lib, st, lib.priNextPrimeW_deep())
                    got = lib.priNextPrimeW(out, a, st)
                    val = lib.rdw(out, 1) if got else None
                    res.append(val)
                    if val != exp:
                        rep("priNextPrimeW:" + ("wrong-prime" if got and exp else "reports-none" if exp else "finds-in-wrong-bitlen"),
                            "priNextPrimeW does not return the least odd prime of [a, 2^l)", {"a": a, "expected": exp, "got": val})
                lib.release()
                ctx.digest(repr(res))
                ctx.count(255, cls + ":priNextPrimeW")
    rep.flush()


# =============================================================================
# primes: special numbers
# =============================================================================

SPSP = [2047, 3277, 4033, 4681, 8321, 15841, 29341, 42799, 49141, 52633, 65281, 74665, 80581, 85489, 88357, 90751,
        1373653, 1530787, 1987021, 2284453, 3116107, 5173601, 6787327, 11541307, 13694761, 15978007, 16070429,
        25326001, 161304001, 960946321, 1157839381, 3215031751, 3697278427, 5764643587, 6770862367,
        4759123141, 2152302898747, 3474749660383, 341550071728321, 3825123056546413051,
        318665857834031151167461, 3317044064679887385961981]
# 2^k + c with c chosen so that the number is prime (checked against the model before use), and composites of the same shape
POW2 = [(31, -1), (32, -5), (32, 15), (61, -1), (64, -59), (64, 13), (89, -1), (107, -1), (127, -1), (128, -159), (128, 51),
        (192, -237), (255, -19), (256, -189), (256, 297), (384, -317), (512, -569), (521, -1),
        (32, 1), (64, 1), (128, 1), (67, -1), (257, -1), (101, -1), (256, -1), (64, -1), (128, -3)]


def _pri_all(ctx, rep, lib, a, cls, iters):
    """priIsPrimeW (if a fits a word), priIsPrime and priRMTest on a, against the model"""
    exp = M.is_prime(a)
    n = nwords(lib, a)
    desc = ["pri", a, n, iters]
    if not ctx.case(desc, cls + (":prime" if exp else ":composite")):
        return
    res = []
    if a < (1 << lib.B):
        st = lib.alloc(lib.priIsPrimeW_deep())
        got = lib.priIsPrimeW(a, st)
        res.append(got)
        if bool(got) != exp:
            rep("priIsPrimeW:" + ("accepts-composite" if got else "rejects-prime"), "priIsPrimeW wrong", {"a": a, "class": cls})
    for nn in (n, n + 1):
        buf = lib.mkw(a, nn)
        st = lib.alloc(lib.priIsPrime_deep(nn))
        got = lib.priIsPrime(buf, nn, st)
        res.append(got)
        if bool(got) != exp:
            rep("priIsPrime:" + ("accepts-composite" if got else "rejects-prime"), "priIsPrime wrong",
                {"a": a, "n": nn, "class": cls})
    for it in iters:
        if not exp and it < 16:
            continue                  # a composite may pass few rounds with the documented probability 4^-iter
        buf = lib.mkw(a, n)
        st = lib.alloc(lib.priRMTest_deep(n))
        got = lib.priRMTest(buf, n, it, st)
        res.append(got)
        if bool(got) != exp:
            rep("priRMTest:" + ("accepts-composite" if got else "rejects-prime"), "priRMTest wrong (iter=%d)" % it,
                {"a": a, "iter": it, "class": cls})
    lib.release()
    ctx.digest(repr(res))


def std_primes(lib):
    """(label, number) for every p, q (or n) of the standard parameter sets, read through the *ParamsStd functions"""
    out = []
    for nm in BIGN_STD + BIGN96_STD:
        p = lib.alloc(336, 0)
        (lib.bign96ParamsStd if nm in BIGN96_STD else lib.bignParamsStd)(p, lib.cstr(nm))
        P = M.BIGN.unpack(lib.rd(p, 336))
        no = P["l"] // 4
        out += [("bign.p", M.le(P["p"][:no])), ("bign.q", M.le(P["q"][:no]))]
    for nm in G12S_STD:
        p = lib.alloc(412, 0)
        lib.g12sParamsStd(p, lib.cstr(nm))
        P = M.G12S.unpack(lib.rd(p, 412))
        out += [("g12s.p", M.le(P["p"][:M.g12s_no(P)])), ("g12s.q", M.le(P["q"][:P["l"] // 8]))]
    for nm in STB99_STD:
        p = lib.alloc(976, 0)
        lib.stb99ParamsStd(p, 0, lib.cstr(nm))
        P = M.STB99.unpack(lib.rd(p, 976))
        out += [("stb99.p", M.le(P["p"])), ("stb99.q", M.le(P["q"]))]
    for nm in PFOK_STD:
        p = lib.alloc(760, 0)
        lib.pfokParamsStd(p, 0, lib.cstr(nm))
        P = M.PFOK.unpack(lib.rd(p, 760))
        out += [("pfok.p", M.le(P["p"])), ("pfok.q", (M.le(P["p"]) - 1) // 2)]
    for nm in DSTU_STD:
        p = lib.alloc(272, 0)
        lib.dstuParamsStd(p, lib.cstr(nm))
        P = M.DSTU.unpack(lib.rd(p, 272))
        out.append(("dstu.n", M.le(P["n"][:(P["p"][0] + 7) // 8])))
    lib.release()
    return out


def unit_primes_special(ctx):
    lib, rng, rep = ctx.lib, ctx.rng, Reporter(ctx)
    part, scale = ctx.params["part"], ctx.params.get("scale", 1.0)
    M.selftest()
    if part == "pseudo":
        for a in SPSP:
            _pri_all(ctx, rep, lib, a, "strong-pseudoprime", (20,))
        # Carmichael numbers: Chernick triples (6k+1)(12k+1)(18k+1)
        ks = [k for k in range(1, 3000) if M.chernick(k)]
        for bits in (12, 16, 20, 24, 28, 32, 40, 48, 56, 62):
            k = rng.getrandbits(bits) | (1 << (bits - 1))
            while not (all((6 * k + 1) % p and (12 * k + 1) % p and (18 * k + 1) % p for p in (5, 7, 11, 13, 17, 19, 23)) and M.chernick(k)):
                k += 1
            ks.append(k)
        for k in ks:
            _pri_all(ctx, rep, lib, M.chernick(k), "carmichael", (20,))
            _pri_all(ctx, rep, lib, 18 * k + 1, "carmichael-factor", (0, 1, 7))
        # neighbourhoods of the base-set thresholds of priIsPrimeW
        for c in (1373653, 4759123141, 49, 3, 1 << 16):
            for a in range(max(0, c - 40), c + 40):
                _pri_all(ctx, rep, lib, a, "threshold", (20,))
    elif part == "semiprime":
        cnt = max(4, int(24 * scale))
        for i in range(cnt):
            b1, b2 = rng.choice((64, 96, 128, 192, 256)), rng.choice((64, 65, 128, 160, 256))
            p = M.next_prime(rng.getrandbits(b1) | (1 << (b1 - 1)) | 1) or 3
            q = M.next_prime(rng.getrandbits(b2) | (1 << (b2 - 1)) | 1) or 5
            _pri_all(ctx, rep, lib, p * q, "semiprime", (20,))
            _pri_all(ctx, rep, lib, p * p, "prime-square", (20,))
            _pri_all(ctx, rep, lib, p, "random-prime", (0, 1, 5, 32))
            _pri_all(ctx, rep, lib, (p + q) | 1, "random-odd", (20,))
    elif part == "pow2":
        for k, c in POW2:
            _pri_all(ctx, rep, lib, (1 << k) + c, "2^k+c", (1, 20, 40))
        for k in (16, 31, 32, 33, 63, 64, 65, 127, 128, 129):
            for c in range(-9, 10):
                _pri_all(ctx, rep, lib, (1 << k) + c, "2^k-neighbourhood", (20,))
    elif part == "std":
        for lab, a in std_primes(lib):
            if a.bit_length() > ctx.params.get("maxbits", 4096):
                continue
            _pri_all(ctx, rep, lib, a, "std:" + lab, (1, 8))
            _pri_all(ctx, rep, lib, a + 2, "std+2:" + lab.split(".")[0], (20,))
    elif part == "sg":
        # priIsSGPrime: q odd prime > 1 (pre / expect); answer = primality of 2q + 1
        qs = [q for q in range(3, 6000) if M.is_prime(q)]
        for bits in (31, 32, 33, 63, 64, 65, 96, 128, 192, 256):
            for _ in range(max(2, int(6 * scale))):
                qs.append(M.next_prime(rng.getrandbits(bits) | (1 << (bits - 1)) | 1) or 3)
        for lab, a in std_primes(lib):
            if lab == "pfok.q":
                qs.append(a)
        # known Sophie Germain primes of various sizes (2q+1 checked by the model)
        for q in qs:
            exp = M.is_prime(2 * q + 1)
            n = nwords(lib, q)
            if not ctx.case(["priIsSGPrime", q, n], "sg:" + ("yes" if exp else "no")):
                continue
            buf = lib.mkw(q, n)
            st = lib.alloc(lib.priIsSGPrime_deep(n))
            got = lib.priIsSGPrime(buf, n, st)
            lib.release()
            ctx.digest(got)
            if bool(got) != exp:
                rep("priIsSGPrime:" + ("accepts" if got else "rejects"), "priIsSGPrime (deterministic per pri.h) wrong",
                    {"q": q, "2q+1 prime": exp, "got": got})
    elif part == "sieve":
        base = M.base_primes()
        nb = lib.priBaseSize()
        if ctx.case(["priBasePrime", "all"], "base:table"):
            got = [lib.priBasePrime(i) for i in range(nb)]
            ctx.digest(repr(got))
            if nb != 1024 or got != base:
                rep("priBasePrime:not-first-odd-primes", "factor base is not the first 1024 odd primes", {"size": nb})
        bset = set(base)
        cand = list(range(1, 600)) + base[-3:] + [base[-1] + 2, base[-1] * base[-1], 3 ** 40, 2 ** 70, 2 ** 64 * 3 * 5]
        for _ in range(int(300 * scale)):
            kind = rng.randrange(4)
            if kind == 0:
                x = 1
                for _ in range(rng.randrange(1, 12)):
                    x *= rng.choice(base[:rng.choice((3, 10, 100, 1024))]) ** rng.randrange(1, 4)
                x <<= rng.randrange(0, 70)
            elif kind == 1:
                x = rng.getrandbits(rng.randrange(2, 200)) | 1
            elif kind == 2:
                x = rng.choice(base) * rng.choice(base[:20]) * (M.next_prime(rng.getrandbits(40) | (1 << 39)) or 1)
            else:
                x = rng.choice(base) * rng.choice(base)
            cand.append(x)
        for a in cand:
            bcs = [0, 1, 2, 10, 100, 1023, 1024, rng.randrange(1025)]
            n = nwords(lib, a) + rng.randrange(2)
            if not ctx.case(["sieve/smooth", a, n, bcs], "sieve-smooth:" + ("small" if a < 10000 else "large")):
                continue
            res = []
            for bc in bcs:
                buf = lib.mkw(a, n)
                st = lib.alloc(lib.priIsSieved_deep(bc))
                got = lib.priIsSieved(buf, n, bc, st)
                res.append(got)
                if bool(got) != M.is_sieved(a, bc):
                    rep("priIsSieved:" + ("accepts" if got else "rejects"), "priIsSieved disagrees with pri.h",
                        {"a": a, "n": n, "base_count": bc, "got": got})
                if a not in bset:       # pri.h's remark on base elements is garbled for priIsSmooth: not tested
                    buf = lib.mkw(a, n)
                    st = lib.alloc(lib.priIsSmooth_deep(n))
                    got = lib.priIsSmooth(buf, n, bc, st)
                    res.append(got)
                    if bool(got) != M.is_smooth(a, bc):
                        rep("priIsSmooth:" + ("accepts" if got else "rejects"), "priIsSmooth disagrees with pri.h",
                            {"a": a, "n": n, "base_count": bc, "got": got})
                lib.release()
            ctx.digest(repr(res))
    rep.flush()


# =============================================================================
# priNextPrime
# =============================================================================

def _next_prime_case(ctx, rep, lib, a, n, trials, bc, it, cls, inplace=False):
    """one priNextPrime call against the model; iter >= 16 so that a composite survives with probability <= 4^-16"""
    if not ctx.case(["priNextPrime", a, n, trials, bc, it, inplace], cls):
        return
    exp = M.next_prime(a, None if trials == SIZE_MAX else trials)
    pa = lib.mkw(a, n)
    po = pa if inplace else lib.outw(n)
    st = lib.alloc(lib.priNextPrime_deep(n, bc))
    got = lib.priNextPrime(po, pa, n, trials, bc, it, st)
    val = lib.rdw(po, n) if got else None
    lib.release()
    ctx.digest(val)
    if val != exp:
        lz = n > nwords(lib, a)
        if got and exp is not None:
            kind = "not-the-least-prime" if M.is_prime(val) else "returns-composite"
        elif exp is not None:
            kind = "reports-none"
        else:
            kind = "finds-outside-contract"
        rep("priNextPrime:%s:%s" % (kind, "leading-zero-words" if lz else "normalized"),
            "priNextPrime does not return the least odd prime of [a, 2^l) among the first `trials` candidates",
            {"a": a, "n": n, "trials": trials, "base_count": bc, "iter": it, "expected": exp, "got": val})


def unit_nextprime(ctx):
    lib, rng, rep = ctx.lib, ctx.rng, Reporter(ctx)
    part, scale = ctx.params["part"], ctx.params.get("scale", 1.0)
    if part == "small":
        # every start below 2^11 (and around the end of the factor base) with several base sizes, one-word numbers
        starts = list(range(0, 2048)) + list(range(8100, 8300))
        for a in starts:
            for bc in (0, 3, 1024):
                _next_prime_case(ctx, rep, lib, a, 1, SIZE_MAX, bc, 16, "np:small-exhaustive")
    elif part == "gaps":
        # starts just inside maximal prime gaps; trials one short / exactly enough / plenty
        gaps = [(113, 127), (1327, 1361), (31397, 31469), (370261, 370373), (2010733, 2010881), (20831323, 20831533),
                (1357201, 1357333), (4652353, 4652507), (17051707, 17051887), (4302407359, 4302407713)]
        for p0, p1 in gaps:
            if not (M.is_prime(p0) and M.is_prime(p1) and M.next_prime(p0 + 1) == p1):
                raise Harness("gap table wrong at %d" % p0)
            for a in (p0, p0 + 1, p0 + 2, p1 - 1, p1):
                need = (p1 - (a | 1)) // 2 + 1 if a > p0 else 1
                for tr in sorted({0, 1, need - 1, need, need + 1, SIZE_MAX}):
                    n = nwords(lib, a)
                    _next_prime_case(ctx, rep, lib, a, n, tr, rng.choice((0, 10, 100, 1024)), 16, "np:gap+trials")
    elif part == "top":
        # from the top of a bit length: nothing left -> must report none; from the last prime itself -> that prime
        for l in list(range(2, 24)) + [31, 32, 33, 48, 63, 64, 65, 96, 127, 128, 129, 192, 255, 256, 257]:
            top = (1 << l) - 1
            last = top
            while not M.is_prime(last):
                last -= 2
            n = nwords(lib, top)
            for a, cls in ((last, "np:last-prime-of-bitlen"), (last + 1, "np:top-of-bitlen-none"), (top, "np:top-of-bitlen-none"),
                           (last - 1, "np:last-prime-of-bitlen"), (1 << (l - 1), "np:bottom-of-bitlen")):
                if a.bit_length() != l:
                    continue
                if a > last and a != top and M.next_prime(a) is not None:
                    raise Harness("top-of-bitlen generator")
                _next_prime_case(ctx, rep, lib, a, n, SIZE_MAX, rng.choice((0, 16, 1024)), 16, cls)
                _next_prime_case(ctx, rep, lib, a, n, SIZE_MAX, 0, 16, cls, inplace=True)
        # the one-word functions at the very top of the word (the candidate a + 2 wraps): every a in [2^B - 300, 2^B)
        B = lib.B
        st = lib.alloc(lib.priNextPrimeW_deep())
        out = lib.alloc(lib.W)
        for a in range((1 << B) - 300, 1 << B):
            if not ctx.case(["priNextPrimeW-top", a], "np:word-top"):
                continue
            exp = M.next_prime(a) if a.bit_length() > 1 else None
            if exp is not None and exp.bit_length() != a.bit_length():
                exp = None
            refill(lib, st, lib.priNextPrimeW_deep())
            got = lib.priNextPrimeW(out, a, st)
            val = lib.rdw(out, 1) if got else None
            ctx.digest(val)
            if val != exp:
                rep("priNextPrimeW:" + ("wrong-prime" if got and exp else "reports-none" if exp else "finds-in-wrong-bitlen"),
                    "priNextPrimeW does not return the least odd prime of [a, 2^l)", {"a": a, "expected": exp, "got": val})
            st2 = lib.alloc(lib.priIsPrimeW_deep())
            ip = bool(lib.priIsPrimeW(a, st2))
            lib.free_one(st2)
            if ip != M.is_prime(a):
                rep("priIsPrimeW:%s" % ("accepts-composite" if ip else "rejects-prime"), "priIsPrimeW (deterministic per pri.h) gives the wrong answer",
                    {"a": a, "got": ip})
    elif part == "random":
        for i in range(int(60 * scale)):
            bits = rng.choice((20, 33, 40, 63, 64, 65, 96, 128, 160, 192, 256, 384, 512))
            a = rng.getrandbits(bits) | (1 << (bits - 1))
            n = nwords(lib, a)
            bc = rng.choice((0, 1, 32, 256, 1024))
            tr = rng.choice((SIZE_MAX, SIZE_MAX, 1, 5, 40, 4 * bits))
            _next_prime_case(ctx, rep, lib, a, n, tr, bc, 16, "np:random-multiword" if bits > lib.B else "np:random-word",
                             inplace=rng.random() < 0.3)
    elif part == "leadzero":
        # a shorter than n words (pri.h puts no normalisation precondition on [n]a)
        for a in (2, 3, 5, 7, 11, 13, 100, 1000, 8161, 8167, 8168, 65521, (1 << 31) - 1):
            for bc in (0, 1, 10, 1024):
                for extra in (1, 2):
                    _next_prime_case(ctx, rep, lib, a, nwords(lib, a) + extra, SIZE_MAX, bc, 16, "np:leading-zero-words")
    rep.flush()


# =============================================================================
# polynomials
# =============================================================================

def _irred_call(lib, f, n):
    buf = lib.mkw(f, n)
    d = lib.ppIsIrred_deep(n)
    st = lib.alloc(d)
    return lib.ppIsIrred(buf, n, st)


def unit_poly_small(ctx):
    """exhaustive: every polynomial with integer value in [lo, hi) (degree <= 16 for hi = 2^17) through ppIsIrred,
    stack exactly ppIsIrred_deep(n)"""
    lib, rep = ctx.lib, Reporter(ctx)
    lo, hi = ctx.params["lo"], ctx.params["hi"]
    if lo == 0:
        # model cross-check: Rabin against brute-force factoring for every polynomial of degree <= 12
        for f in range(0, 1 << 13):
            if gf2poly.is_irreducible(f) != gf2poly.is_irreducible_bruteforce(f):
                raise Harness("gf2poly.is_irreducible wrong at %d" % f)
        # dedicated regression cases: stack of exactly ppIsIrred_deep(n) (once under-reported, see known findings)
        for f, n in ((0x13, 1), (0x13, 2), ((1 << 128) | 0x87, 128 // lib.B + 1), (0x11B, 1)):
            if ctx.case(["ppIsIrred", f, n, "stack=deep"], "ppIsIrred:stack=deep-exact"):
                got = _irred_call(lib, f, n)
                lib.release()
                ctx.digest(got)
                if bool(got) != gf2poly.is_irreducible(f):
                    rep("ppIsIrred:wrong:known-irreducible", "ppIsIrred wrong", {"f": f, "n": n, "got": got})
    for s in range(lo, hi, 256):
        n = 1 if (s // 256) % 8 else 2          # every 8th block with a leading zero word
        if not ctx.case(["ppIsIrred", s, 256, n], "poly:exhaustive-deg<=16"):
            continue
        d = lib.ppIsIrred_deep(n)
        st = lib.alloc(d)
        buf = lib.alloc(n * lib.W)
        res = bytearray()
        for f in range(s, s + 256):
            lib.wr(buf, f.to_bytes(n * lib.W, "little"))
            refill(lib, st, d)
            got = lib.ppIsIrred(buf, n, st)
            res.append(1 if got else 0)
            if bool(got) != gf2poly.is_irreducible(f):
                rep("ppIsIrred:" + ("accepts-reducible" if got else "rejects-irreducible") + ":deg<=16",
                    "ppIsIrred disagrees with Rabin's test", {"f": f, "n": n, "got": got})
        lib.release()
        ctx.digest(bytes(res))
        ctx.count(255, "poly:exhaustive-deg<=16")
    rep.flush()


def _find_irred(rng, deg):
    while True:
        f = rng.getrandbits(deg) | (1 << deg) | 1
        if gf2poly.is_irreducible(f):
            return f


def unit_poly_large(ctx):
    """degree 128/192/256: random, library-generated irreducible (belsGenM0), bels standard keys, products of two
    irreducibles, sparse; ppIsIrred and belsValM (x^l + m) against the model"""
    lib, rng, rep = ctx.lib, ctx.rng, Reporter(ctx)
    l, scale = ctx.params["deg"], ctx.params.get("scale", 1.0)
    ln = l // 8
    n = l // lib.B + 1
    cases = []
    for num in range(17):
        cases.append(("std", ("std", num)))
    for i in range(int(6 * scale)):
        cases.append(("genm0", ("gen", "c12/%d/%d/%d" % (l, ctx.params.get("chunk", 0), i))))
    for i in range(int(12 * scale)):
        cases.append(("random", rng.getrandbits(l) | (1 << l)))
        cases.append(("random-odd-weight", None))
    small = [_find_irred(rng, d) for d in (1, 2, 3, 5, 8, 13, 31, 32, 33, 63, 64, 65)]
    for i in range(int(8 * scale)):
        g = rng.choice(small)
        d2 = l - gf2poly.deg(g)
        h = _find_irred(rng, d2) if d2 <= 130 else (rng.getrandbits(d2) | (1 << d2) | 1)
        cases.append(("product", gf2poly.mul(g, h)))
    h = _find_irred(rng, l // 2)
    cases.append(("square", gf2poly.mul(h, h)))
    cases.append(("product", gf2poly.mul(h, _find_irred(rng, l // 2))))
    for k in (1, 2, 3, 7, 9, 17):
        cases.append(("sparse", (1 << l) | (1 << k) | 1))
    cases.append(("sparse", (1 << l) | 0x87))
    cases.append(("sparse", (1 << l) | 1))
    cases.append(("sparse", 1 << l))
    for kind, spec in cases:
        if kind == "random-odd-weight":
            # odd number of terms and constant term 1 (no factor x, x + 1): the interesting random candidates
            f = rng.getrandbits(l) | (1 << l) | 1
            if bin(f).count("1") % 2 == 0:
                f ^= 1 << rng.randrange(1, l)
            spec = f
        if not ctx.case(["irred", l, kind, spec], "poly%d:%s" % (l, kind)):
            continue
        if kind == "std":
            m = lib.alloc(ln)
            if lib.belsStdM(m, ln, spec[1]) != 0:
                raise Harness("belsStdM failed")
            f = (1 << l) | M.le(lib.rd(m, ln))
        elif kind == "genm0":
            gen, st = brng(lib, spec[1])
            m = lib.alloc(ln)
            r = lib.belsGenM0(m, ln, gen, st)
            if r != 0:
                lib.release()
                rep("belsGenM0:fails", "belsGenM0 fails with a brngCTR generator", {"len": ln, "ret": r})
                continue
            f = (1 << l) | M.le(lib.rd(m, ln))
        else:
            f = spec
        lib.release()
        exp = gf2poly.is_irreducible(f)
        if kind in ("std", "genm0") and not exp:
            rep("bels:%s-key-reducible" % kind, "a standard / generated bels key is reducible by the model", {"f": f})
        if kind in ("product", "square") and exp:
            raise Harness("product of polynomials irreducible?")
        res = []
        for nn in (n, n + 1):
            got = _irred_call(lib, f, nn)
            lib.release()
            res.append(got)
            if bool(got) != exp:
                rep("ppIsIrred:%s:deg%d" % ("accepts-reducible" if got else "rejects-irreducible", l),
                    "ppIsIrred disagrees with Rabin's test", {"f": f, "n": nn, "kind": kind, "got": got})
        m = lib.mk(M.to_le(f ^ (1 << l), ln))
        r = lib.belsValM(m, ln)
        lib.release()
        res.append(r)
        if (r == 0) != exp:
            rep("belsValM:%s" % ("accepts-reducible" if r == 0 else "rejects-irreducible"),
                "belsValM disagrees with the irreducibility of x^l + m(x)", {"m": M.to_le(f ^ (1 << l), ln), "kind": kind, "ret": r})
        ctx.digest(repr(res))
    # altered standard keys: single bit flips (the model decides; most become reducible)
    for i in range(int(24 * scale)):
        num, bit = rng.randrange(17), rng.randrange(l)
        if not ctx.case(["belsValM", l, "std-bitflip", num, bit], "bels%d:std-bitflip" % l):
            continue
        m = lib.alloc(ln)
        lib.belsStdM(m, ln, num)
        key = M.to_le(M.le(lib.rd(m, ln)) ^ (1 << bit), ln)
        lib.release()
        exp = M.bels_valid(key)
        r = lib.belsValM(lib.mk(key), ln)
        lib.release()
        ctx.digest(r)
        if (r == 0) != exp:
            rep("belsValM:%s" % ("accepts-reducible" if r == 0 else "rejects-irreducible"),
                "belsValM disagrees with the irreducibility of x^l + m(x)", {"m": key, "ret": r})
    # lengths outside {16, 24, 32}: documented ERR_BAD_INPUT
    if l == 128:
        for bad in (0, 1, 8, 15, 17, 23, 25, 31, 33, 64):
            if not ctx.case(["belsValM", "bad-len", bad], "bels:bad-len"):
                continue
            r = lib.belsValM(lib.mk(bytes(bad)), bad)
            lib.release()
            ctx.digest(r)
            if r == 0:
                rep("belsValM:accepts-bad-len", "belsValM accepts a length outside {16,24,32}", {"len": bad})
    rep.flush()


# =============================================================================
# long-term parameters: standard sets + alterations
# =============================================================================

def _setf(P, f, raw):
    Q = dict(P)
    Q[f] = bytes(raw)
    return Q


LITE = ("zero", "+2", "x2+1", "top-octet-zero", "ones")


def generic_alterations(rng, P, fields, nflip, lite=False):
    """fields: list of (name, used octets).  Yields (label, altered dict); label = kind:field (stable, no random part)"""
    out = []
    for f, no in fields:
        raw = P[f]
        tot = len(raw)
        v = M.le(raw[:no])

        def put(x, f=f, no=no, raw=raw):
            return _setf(P, f, M.to_le(x % (1 << (8 * no)), no) + raw[no:])
        for _ in range(nflip):
            out.append(("flip:" + f, put(v ^ (1 << rng.randrange(8 * no)))))
        for _ in range(max(1, nflip // 4)):
            i, j = rng.randrange(no), rng.randrange(no)
            b = bytearray(raw)
            b[i], b[j] = b[j], b[i]
            if bytes(b) != raw:
                out.append(("swap:" + f, _setf(P, f, b)))
        for lab, x in (("zero", 0), ("one", 1), ("ones", (1 << (8 * no)) - 1), ("+1", v + 1), ("-1", v - 1), ("+2", v + 2),
                       ("+4", v + 4), ("x2", 2 * v), ("x2+1", 2 * v + 1), ("x3", 3 * v), ("half", v >> 1), ("top-octet-zero", v & ((1 << (8 * no - 8)) - 1)),
                       ("low-octet-zero", v & ~0xFF), ("reversed", M.le(raw[:no][::-1]))):
            if x % (1 << (8 * no)) != v and (not lite or lab in LITE):
                out.append(("%s:%s" % (lab, f), put(x)))
        if tot > no:
            b = bytearray(raw)
            b[rng.randrange(no, tot)] = rng.randrange(1, 256)
            out.append(("unused-octet:" + f, _setf(P, f, b)))
            b = bytearray(raw)
            b[no] = 1
            out.append(("unused-octet:" + f, _setf(P, f, b)))
    return out


def _next_prime_same_len(x, cond=lambda t: True):
    t = x + 2
    while not (M.is_prime(t) and cond(t)):
        t += 2
    return t if t.bit_length() == x.bit_length() else None


def run_param_cases(ctx, rep, fname, layout, cases, verdict_fn, call):
    """cases: list of (label, dict).  For each: announce, model verdict, library call, judgement"""
    lib = ctx.lib
    resume_credit(ctx)
    for label, Q in cases:
        raw = layout.pack(Q)
        if not case(ctx, [fname, ctx.params.get("set"), label, raw], "%s:%s" % (fname, label.split(":")[0])):
            continue
        verdict, reason = verdict_fn(Q)
        credit(ctx, "%s:model-%s" % (fname, {True: "accept", False: "reject", None: "undecided"}[verdict]))
        p = lib.mk(raw)
        r = call(p)
        after = lib.rd(p, layout.size)
        lib.release()
        ctx.digest(r)
        if after != raw:
            rep("%s:modifies-input" % fname, "%s wrote into its const input" % fname, {"label": label})
        judge(ctx, rep, fname, label, verdict, reason, r == 0,
              {"set": ctx.params.get("set"), "alteration": label, "model": [verdict, reason], "ret": r, "params": raw})


def _chunk(cases, ctx):
    """deterministic split of the case list over the job's chunk parameter"""
    k, n = ctx.params.get("chunk", 0), ctx.params.get("chunks", 1)
    return [c for i, c in enumerate(cases) if i % n == k]


def unit_bign(ctx):
    lib, rng, rep = ctx.lib, ctx.rng, Reporter(ctx)
    model_selftest(ctx)
    name, nflip = ctx.params["set"], ctx.params.get("flips", 8)
    v96 = name in BIGN96_STD
    variant = "bign96" if v96 else "bign"
    fname = "bign96ParamsVal" if v96 else "bignParamsVal"
    H = hash_fn(lib)
    p = lib.alloc(336, 0)
    if (lib.bign96ParamsStd if v96 else lib.bignParamsStd)(p, lib.cstr(name)) != 0:
        raise Harness("ParamsStd(%s) failed" % name)
    P = M.BIGN.unpack(lib.rd(p, 336))
    lib.release()
    l = P["l"]
    no = l // 4
    fields = [("p", no), ("a", no), ("b", no), ("q", no), ("yG", no), ("seed", 8)]
    cases = [("std", P)]
    cases += generic_alterations(rng, P, fields, nflip)
    pv, av, bv, qv, yv = (M.le(P[f][:no]) for f in ("p", "a", "b", "q", "yG"))

    def putv(f, x):
        return _setf(P, f, M.to_le(x, no) + P[f][no:])
    sp = [("q=p", putv("q", pv)), ("p=q", putv("p", qv)),
          ("swap-p-q", dict(putv("q", pv), p=putv("p", qv)["p"])),
          ("yG=p-yG", putv("yG", pv - yv)), ("yG=yG+p", None), ("b=p-b", putv("b", pv - bv)),
          ("a=p", None), ("a=a+p", None), ("b=b+p", None), ("yG=p", None)]
    for f, x, lab in (("yG", yv + pv, "yG=yG+p"), ("a", pv, "a=p"), ("a", av + pv, "a=a+p"), ("b", bv + pv, "b=b+p"), ("yG", pv, "yG=p")):
        sp = [(s, (putv(f, x) if s == lab and x < (1 << (8 * no)) else d)) for s, d in sp]
    sp = [(s, d) for s, d in sp if d is not None]
    qn = _next_prime_same_len(qv)
    if qn:
        sp.append(("q=next-prime", putv("q", qn)))
    pn = _next_prime_same_len(pv, lambda t: t % 4 == 3)
    if pn:
        sp.append(("p=next-prime-3mod4", putv("p", pn)))
    for lv in (0, 64, 96, 128, 192, 256, 129, 512, 1 << 32, SIZE_MAX):
        if lv != l:
            sp.append(("l=%d" % lv, dict(P, l=lv)))
    sd = M.le(P["seed"])
    sp.append(("seed+1", dict(P, seed=M.to_le((sd + 1) % (1 << 64), 8))))
    sp.append(("seed-1", dict(P, seed=M.to_le((sd - 1) % (1 << 64), 8))))
    cases += [("special:" + s, d) for s, d in sp]
    cases = _chunk(cases, ctx)
    run_param_cases(ctx, rep, fname, M.BIGN, cases, lambda Q: M.bign_verdict(Q, H, variant),
                    lib.bign96ParamsVal if v96 else lib.bignParamsVal)
    rep.flush()


def unit_g12s(ctx):
    lib, rng, rep = ctx.lib, ctx.rng, Reporter(ctx)
    model_selftest(ctx)
    name, nflip = ctx.params["set"], ctx.params.get("flips", 8)
    p = lib.alloc(412, 0)
    if lib.g12sParamsStd(p, lib.cstr(name)) != 0:
        raise Harness("g12sParamsStd(%s) failed" % name)
    P = M.G12S.unpack(lib.rd(p, 412))
    lib.release()
    l, no = P["l"], M.g12s_no(P)
    fields = [("p", no), ("a", no), ("b", no), ("q", l // 8), ("xP", no), ("yP", no)]
    cases = [("std", P)] + generic_alterations(rng, P, fields, nflip)
    pv, av, bv, xv, yv = (M.le(P[f][:no]) for f in ("p", "a", "b", "xP", "yP"))
    qv = M.le(P["q"][:l // 8])
    E = ec.Curve(pv, av, bv)

    def putv(f, x, n=None):
        n = n or no
        return _setf(P, f, M.to_le(x, n) + P[f][n:])

    def putP(pt):
        return dict(putv("xP", pt[0]), yP=putv("yP", pt[1])["yP"])
    G = (xv, yv)
    sp = [("P=2P", putP(E.mul(2, G))), ("P=-P", putP(E.neg(G))), ("P=kP", putP(E.mul(rng.randrange(2, qv), G))),
          ("yP=yP+1", putv("yP", (yv + 1) % pv)), ("q=p", None), ("n=0", dict(P, n=0)), ("n=2", dict(P, n=2)),
          ("n=n+1", dict(P, n=P["n"] + 1)), ("n=max", dict(P, n=0xFFFFFFFF))]
    if pv < (1 << (8 * (l // 8))):
        sp.append(("q=p", putv("q", pv, l // 8)))
    # point of the twist: x with non-residue right-hand side
    x = xv
    while True:
        x = (x + 1) % pv
        rhs = (x * x * x + av * x + bv) % pv
        if ec.legendre(rhs, pv) == -1:
            break
    sp.append(("P=off-curve-twist", putP((x, rng.randrange(pv)))))
    for f, v in (("xP", xv), ("yP", yv), ("a", av), ("b", bv)):
        if v + pv < (1 << (8 * no)):
            sp.append(("%s+p" % f, putv(f, v + pv)))
    qn = _next_prime_same_len(qv)
    if qn:
        sp.append(("q=next-prime", putv("q", qn, l // 8)))
    for lv in (0, 128, 256, 512, 1024, 257):
        if lv != l:
            sp.append(("l=%d" % lv, dict(P, l=lv)))
    # unused octets are arbitrary (g12s.h): fill all of them with random octets
    Q = dict(P)
    for f, n in fields:
        Q[f] = P[f][:n] + bytes(rng.randrange(256) for _ in range(len(P[f]) - n))
    if l == 256:
        Q["p"] = P["p"][:34] + bytes(rng.randrange(256) for _ in range(34))       # p: first 68*l/512 octets are read
    sp.append(("unused-octets-random", Q))
    if l == 256:
        # a genuine prime-order group that fails exactly one condition of the list, a != 0 (j-invariant 0): secp256k1
        kp = (1 << 256) - (1 << 32) - 977
        kq = 0xFFFFFFFFFFFFFFFFFFFFFFFFFFFFFFFEBAAEDCE6AF48A03BBFD25E8CD0364141
        kx = 0x79BE667EF9DCBBAC55A06295CE870B07029BFCDB2DCE28D959F2815B16F81798
        ky = 0x483ADA7726A3C4655DA4FBFC0E1108A8FD17B448A68554199C47D08FFB10D4B8
        K = dict(P, n=1)
        for f, v, n_ in (("p", kp, no), ("a", 0, no), ("b", 7, no), ("xP", kx, no), ("yP", ky, no), ("q", kq, l // 8)):
            K[f] = M.to_le(v, n_) + bytes(len(P[f]) - n_)
        if M.g12s_no(K) == no and ec.Curve(kp, 0, 7).mul(kq, (kx, ky)) is None:
            sp.append(("a=0:valid-group-with-j=0", K))
    cases += [("special:" + s, d) for s, d in sp if d is not None]
    cases = _chunk(cases, ctx)
    run_param_cases(ctx, rep, "g12sParamsVal", M.G12S, cases, M.g12s_verdict, lib.g12sParamsVal)
    rep.flush()


def unit_stb99(ctx):
    lib, rng, rep = ctx.lib, ctx.rng, Reporter(ctx)
    M.selftest()
    name, nflip = ctx.params["set"], ctx.params.get("flips", 4)
    p = lib.alloc(976, 0)
    if lib.stb99ParamsStd(p, 0, lib.cstr(name)) != 0:
        raise Harness("stb99ParamsStd(%s) failed" % name)
    P = M.STB99.unpack(lib.rd(p, 976))
    lib.release()
    l, r = P["l"], P["r"]
    no, mo = (l + 7) // 8, (r + 7) // 8
    fields = [("p", no), ("q", mo), ("a", no), ("d", no)]
    cases = [("std", P)] + generic_alterations(rng, P, fields, nflip, ctx.params.get("lite", False))
    pv, qv, av, dv = M.le(P["p"]), M.le(P["q"]), M.le(P["a"]), M.le(P["d"])

    def putv(f, x, n):
        return _setf(P, f, M.to_le(x, n) + P[f][n:])
    e = M.mont_unity(pv, l)
    d2 = rng.randrange(2, pv)
    sp = [("a=d=0", dict(P, a=bytes(308), d=bytes(308))),
          ("d=e,a=e", dict(putv("d", e, no), a=putv("a", e, no)["a"])),
          ("a=e", putv("a", e, no)),
          ("d=random,a=d^((p-1)/q)", dict(putv("d", d2, no), a=putv("a", M.mont_power(d2, (pv - 1) // qv, pv, l), no)["a"])),
          ("d=a,a=a^((p-1)/q)", dict(putv("d", av, no), a=putv("a", M.mont_power(av, (pv - 1) // qv, pv, l), no)["a"])),
          ("a=a^(2)", putv("a", M.mont_power(av, 2, pv, l), no)),
          ("d=d+p", putv("d", dv + pv, no) if dv + pv < (1 << (8 * no)) else None),
          ("a=a+p", putv("a", av + pv, no) if av + pv < (1 << (8 * no)) else None)]
    qn = _next_prime_same_len(qv)
    if qn:
        sp.append(("q=next-prime", putv("q", qn, mo)))
    # q <- another prime divisor-free value: q' = 2q+1 truncated is meaningless; use q * small (bit length changes)
    sp.append(("q=3q", putv("q", 3 * qv, mo) if 3 * qv < (1 << (8 * mo)) else None))
    for lv, rv in ((0, 0), (l, r + 1), (l + 1, r), (STB99L_other(l), r), (l, 0), (SIZE_MAX, r)):
        sp.append(("l,r=%d,%d" % (lv, rv), dict(P, l=lv, r=rv)))
    cases += [("special:" + s, d) for s, d in sp if d is not None]
    cases = _chunk(cases, ctx)
    run_param_cases(ctx, rep, "stb99ParamsVal", M.STB99, cases, M.stb99_verdict, lib.stb99ParamsVal)
    rep.flush()


def STB99L_other(l):
    return M.STB99_L[(M.STB99_L.index(l) + 1) % len(M.STB99_L)]


def unit_pfok(ctx):
    lib, rng, rep = ctx.lib, ctx.rng, Reporter(ctx)
    M.selftest()
    name, nflip = ctx.params["set"], ctx.params.get("flips", 4)
    p = lib.alloc(760, 0)
    if lib.pfokParamsStd(p, 0, lib.cstr(name)) != 0:
        raise Harness("pfokParamsStd(%s) failed" % name)
    P = M.PFOK.unpack(lib.rd(p, 760))
    lib.release()
    l = P["l"]
    no = (l + 7) // 8
    fields = [("p", no), ("g", no)]
    cases = [("std", P)] + generic_alterations(rng, P, fields, nflip, ctx.params.get("lite", False))
    pv, gv = M.le(P["p"]), M.le(P["g"])

    def putv(f, x):
        return _setf(P, f, M.to_le(x, no) + P[f][no:])
    e = M.mont_unity(pv, l)
    sp = [("g=e", putv("g", e)), ("g=-e", putv("g", pv - e)), ("g=g^(2)", putv("g", M.mont_power(gv, 2, pv, l))),
          ("g=g^(3)", putv("g", M.mont_power(gv, 3, pv, l))), ("g=random", putv("g", rng.randrange(1, pv))),
          ("g=p", putv("g", pv)), ("g=p-1", putv("g", pv - 1)),
          ("g=g+p", putv("g", gv + pv) if gv + pv < (1 << (8 * no)) else None),
          ("n=l", dict(P, n=l)), ("n=l-1", dict(P, n=l - 1)), ("n=0", dict(P, n=0)), ("n=max", dict(P, n=SIZE_MAX)),
          ("r+1", dict(P, r=P["r"] + 1)), ("r=0", dict(P, r=0)), ("l+1", dict(P, l=l + 1)), ("l=0", dict(P, l=0)),
          ("l=other-level", dict(P, l=M.PFOK_L[(M.PFOK_L.index(l) + 1) % len(M.PFOK_L)]))]
    if l <= 1100:
        # a prime p' of the same shape (p' = p + 4k) whose (p' - 1) / 2 is composite, with a g that meets the order tests:
        # only the primality of q fails
        k, pp = 0, None
        while k < 40000:
            k += 1
            c = pv + 4 * k
            if c.bit_length() == l and M.is_prime(c) and not M.is_prime((c - 1) // 2):
                pp = c
                break
        if pp:
            e2 = M.mont_unity(pp, l)
            for _ in range(50):
                g2 = rng.randrange(2, pp - 1)
                if M.mont_power(g2, (pp - 1) // 2, pp, l) != e2 and M.mont_power(g2, 2, pp, l) != e2:
                    sp.append(("p=prime-with-composite-q", dict(putv("p", pp), g=putv("g", g2)["g"])))
                    break
    cases += [("special:" + s, d) for s, d in sp if d is not None]
    cases = _chunk(cases, ctx)
    run_param_cases(ctx, rep, "pfokParamsVal", M.PFOK, cases, M.pfok_verdict, lib.pfokParamsVal)
    rep.flush()


def dstu_std(lib, name):
    """standard curve + base point generated by dstuPointGen on a deterministic brngCTR tape (DSTU defines none)"""
    p = lib.alloc(272, 0)
    if lib.dstuParamsStd(p, lib.cstr(name)) != 0:
        raise Harness("dstuParamsStd(%s) failed" % name)
    P = M.DSTU.unpack(lib.rd(p, 272))
    no = (P["p"][0] + 7) // 8
    gen, st = brng(lib, "c12/dstu/" + name)
    pt = lib.alloc(2 * no)
    r = lib.dstuPointGen(pt, p, gen, st)
    if r != 0:
        raise Harness("dstuPointGen(%s) failed: %d" % (name, r))
    P["P"] = lib.rd(pt, 2 * no) + bytes(128 - 2 * no)
    lib.release()
    return P, no


def unit_dstu(ctx):
    lib, rng, rep = ctx.lib, ctx.rng, Reporter(ctx)
    M.selftest()
    name, nflip = ctx.params["set"], ctx.params.get("flips", 4)
    P, no = dstu_std(lib, name)
    m = P["p"][0]
    fields = [("B", no), ("n", no), ("P", 2 * no)]
    cases = [("std", P)] + generic_alterations(rng, P, fields, nflip)
    E, _ = M.dstu_curve(P)
    nv = M.le(P["n"][:no])
    G = (M.le(P["P"][:no]), M.le(P["P"][no:2 * no]))

    def putP(pt):
        return _setf(P, "P", M.to_le(pt[0], no) + M.to_le(pt[1], no) + P["P"][2 * no:])
    sp = [("P=2P", putP(E.mul(2, G))), ("P=-P", putP(E.neg(G))), ("P=kP", putP(E.mul(rng.randrange(3, 1 << 64), G))),
          ("P=order-2-point", putP((0, gf2poly.powmod(M.le(P["B"][:no]), 1 << (m - 1), E.f)))),
          ("P.y+1", putP((G[0], G[1] ^ 1))), ("P=(0,0)", putP((0, 0))),
          ("A=1-A", dict(P, A=1 - P["A"])), ("A=2", dict(P, A=2)), ("A=255", dict(P, A=255)),
          ("c=0", dict(P, c=0)), ("c+1", dict(P, c=P["c"] + 1)), ("c-1", dict(P, c=P["c"] - 1)), ("c=2c", dict(P, c=2 * P["c"])),
          ("c=max", dict(P, c=0xFFFFFFFF))]
    if m % 8:
        sp.append(("P.x-high-bit", putP((G[0] | (1 << m), G[1]))))
        sp.append(("B-high-bit", _setf(P, "B", M.to_le(M.le(P["B"][:no]) | (1 << m), no) + P["B"][no:])))
    nn = _next_prime_same_len(nv)
    if nn:
        sp.append(("n=next-prime", _setf(P, "n", M.to_le(nn, no) + P["n"][no:])))
    p4 = P["p"]
    for lab, q4 in (("p1+1", [p4[0], p4[1] + 1, p4[2], p4[3]]), ("m+1", [p4[0] + 1, p4[1], p4[2], p4[3]]),
                    ("m-1", [p4[0] - 1, p4[1], p4[2], p4[3]]), ("m=159", [159, p4[1], p4[2], p4[3]]),
                    ("m=510", [510, p4[1], p4[2], p4[3]]), ("m=0", [0, p4[1], p4[2], p4[3]]), ("m=65535", [65535, p4[1], p4[2], p4[3]]),
                    ("p3=1-only", [p4[0], p4[1], 0, 1]), ("p2=p1", [p4[0], p4[1], p4[1], p4[3]]),
                    ("unsorted", [p4[0], p4[3], p4[2], p4[1]]), ("normal-basis", [p4[0], 0, 0, 0]),
                    ("p1=m", [p4[0], p4[0], p4[2], p4[3]]), ("other-irreducible", [163, 7, 6, 3] if m != 163 else [167, 6, 0, 0])):
        sp.append(("field:" + lab, dict(P, p=q4)))
    Q = dict(P)
    for f, n in fields:
        Q[f] = P[f][:n] + bytes(rng.randrange(256) for _ in range(len(P[f]) - n))
    sp.append(("unused-octets-random", Q))
    cases += [("special:" + s, d) for s, d in sp if d is not None]
    cases = _chunk(cases, ctx)
    B = lib.B
    run_param_cases(ctx, rep, "dstuParamsVal", M.DSTU, cases, lambda Q: M.dstu_verdict(Q, B), lib.dstuParamsVal)
    # dstuPointVal (section 10.1: point of the curve of order n) on the standard curve
    pts = [("base", G, True), ("2P", E.mul(2, G), True), ("-P", E.neg(G), True), ("kP", E.mul(rng.getrandbits(m - 2) | 1, G), True),
           ("order-2", (0, gf2poly.powmod(M.le(P["B"][:no]), 1 << (m - 1), E.f)), False), ("y+1", (G[0], G[1] ^ 1), False),
           ("(0,0)", (0, 0), False)]
    if m % 8:
        pts.append(("x-high-bit", (G[0] | (1 << m), G[1]), False))
        pts.append(("y-high-bit", (G[0], G[1] | (1 << m)), False))
    # a point of the curve outside the subgroup: P + (point of order 2)
    o2 = (0, gf2poly.powmod(M.le(P["B"][:no]), 1 << (m - 1), E.f))
    pts.append(("P+order2", E.add(G, o2), False))
    for _ in range(4):
        pts.append(("random", (rng.getrandbits(m), rng.getrandbits(m)), None))
    for lab, pt, exp in pts:
        raw = M.to_le(pt[0], no) + M.to_le(pt[1], no)
        if not case(ctx, ["dstuPointVal", name, lab, raw], "dstuPointVal:" + lab):
            continue
        if exp is None:
            exp = E.is_on(pt) and E.mul(nv, pt) is None
        elif exp != (E.is_on(pt) and E.mul(nv, pt) is None):
            raise Harness("dstu point generator: %s" % lab)
        pp = lib.mk(M.DSTU.pack(P))
        r = lib.dstuPointVal(pp, lib.mk(raw))
        lib.release()
        ctx.digest(r)
        judge(ctx, rep, "dstuPointVal", lab, exp, lab, r == 0, {"set": name, "point": raw, "ret": r})
    rep.flush()


# =============================================================================
# seeds (stb99 / pfok): validation, adjustment, generation from a seed
# =============================================================================

def _chain(first, rule):
    ch = [first]
    while ch[-1] > 32:
        ch.append(rule(ch[-1]))
    return ch


def _seed_cases(rng, S, chains, scheme):
    """S: standard seed dict; chains: list of (name, capacity, plus4).  Returns [(label, seed dict)]"""
    out = [("std", S)]
    for i in (0, 15, 30):
        for v in (0, 1, 65256, 65257, 65535):
            z = list(S["zi"])
            z[i] = v
            out.append(("zi[%d]=%d" % (i, v), dict(S, zi=z)))
    out.append(("zi-random", dict(S, zi=[rng.randrange(1, 65257) for _ in range(31)])))
    for nm, cap, plus4 in chains:
        ch = [v for v in S[nm] if v]
        first = ch[0]

        def put(c, nm=nm, cap=cap):
            c = list(c)[:cap]
            return dict(S, **{nm: c + [0] * (cap - len(c))})
        t = len(ch) - 1
        # boundaries of  5*x/4 (+4) < ch[i] <= 2*x  for the element after ch[i]
        for i in (0, min(1, t - 1)):
            hi = ch[i]
            lo_min = (hi + 1) // 2
            k = (4 * hi - (16 if plus4 else 0) - 1) // 5           # largest x with 5x (+16) < 4 hi
            for x, lab in ((lo_min - 1, "below-half"), (lo_min, "half"), (k, "max"), (k + 1, "max+1"), (k - 3, "max-3"),
                           (k - 4, "max-4"), (hi, "equal"), (hi // 2 + 1, "default")):
                if x < 17:
                    continue
                c = ch[:i + 1] + _chain(x, lambda v: v // 2 + 1)
                out.append(("%s[%d]:%s" % (nm, i + 1, lab), put(c)))
        # end of chain
        for last in (16, 17, 32, 33):
            c = ch[:-1] + [last]
            out.append(("%s-last=%d" % (nm, last), put(c)))
        out.append(("%s-tail-nonzero" % nm, put(ch + [0, 17]) if len(ch) + 2 <= cap else None))
        out.append(("%s-extra-17" % nm, put(ch + [17]) if len(ch) + 1 <= cap else None))
        for small in (1, 2, 16):
            # a value that cannot continue the chain (<= 16) directly behind its last element: not "zeros after the chain"
            out.append(("%s-extra-%d" % (nm, small), put(ch + [small]) if len(ch) + 1 <= cap else None))
        out.append(("%s-truncated" % nm, put(ch[:-1])))
        out.append(("%s-all-zero" % nm, put([])))
        out.append(("%s-huge" % nm, put(ch[:1] + [SIZE_MAX // 5 - 1] + ch[2:])))
        out.append(("%s-huge2" % nm, put(ch[:1] + [SIZE_MAX] + ch[2:])))
        # longest chain allowed by the rules (as quoted in the headers)
        c = _chain(first, lambda v: (4 * v - (17 if plus4 else 1)) // 5)
        out.append(("%s-longest" % nm, put(c) if len(c) <= cap else None))
        for _ in range(6):
            c = [first]
            while c[-1] > 32:
                hi = c[-1]
                k = (4 * hi - (16 if plus4 else 0) - 1) // 5
                c.append(rng.randrange((hi + 1) // 2, max((hi + 1) // 2, k) + 1))
            out.append(("%s-random-valid" % nm, put(c) if len(c) <= cap and c[-1] >= 17 else None))
        if scheme == "stb99" and nm == "di":
            l, r = S["l"], M.STB99_R[M.STB99_L.index(S["l"])]
            for x, lab in (((l + 1) // 2 - 1, "below-l/2"), ((l + 1) // 2, "l/2"), ((7 * l - 8 * r) // 8, "7l/8-r"),
                           ((7 * l - 8 * r) // 8 + 1, "7l/8-r+1"), ((7 * l - r) // 8, "(7l-r)/8"), ((7 * l - r) // 8 + 1, "(7l-r)/8+1"),
                           (l, "l")):
                out.append(("di[0]:%s" % lab, put(_chain(x, lambda v: v // 2 + 1))))
        if scheme == "stb99" and nm == "ri":
            out.append(("ri[0]=r+1", put(_chain(first + 1, lambda v: v // 2 + 1))))
            out.append(("ri[0]=r-1", put(_chain(first - 1, lambda v: v // 2 + 1))))
        if scheme == "pfok":
            out.append(("li[0]=l", put(_chain(first + 1, lambda v: v // 2 + 1))))
            out.append(("li[0]=l-2", put(_chain(first - 1, lambda v: v // 2 + 1))))
    for lv in (0, 1, S["l"] + 1, S["l"] - 1, 2942, 638, SIZE_MAX):
        if lv != S["l"]:
            out.append(("l=%d" % lv, dict(S, l=lv)))
    return [(a, b) for a, b in out if b is not None]


def unit_seeds(ctx):
    lib, rng, rep = ctx.lib, ctx.rng, Reporter(ctx)
    M.selftest()
    scheme, name = ctx.params["scheme"], ctx.params["set"]
    if scheme == "stb99":
        lay, play, psize = M.STB99_SEED, M.STB99, 976
        chains = [("di", 18, True), ("ri", 10, False)]
        std, val, adj = lib.stb99ParamsStd, lib.stb99SeedVal, lib.stb99SeedAdj
        verdict, madj = M.stb99_seed_verdict, M.stb99_seed_adj
    else:
        lay, play, psize = M.PFOK_SEED, M.PFOK, 760
        chains = [("li", 20, True)]
        std, val, adj = lib.pfokParamsStd, lib.pfokSeedVal, lib.pfokSeedAdj
        verdict, madj = M.pfok_seed_verdict, M.pfok_seed_adj
    p, s = lib.alloc(psize, 0), lib.alloc(lay.size, 0)
    if std(p, s, lib.cstr(name)) != 0:
        raise Harness("ParamsStd(%s)" % name)
    S = lay.unpack(lib.rd(s, lay.size))
    lib.release()
    cases = _seed_cases(rng, S, chains, scheme)
    fv, fa = scheme + "SeedVal", scheme + "SeedAdj"
    for label, Q in cases:
        raw = lay.pack(Q)
        arr = label[:2] if label[:2] in ("zi", "di", "ri", "li") else label.split("=")[0]
        if not ctx.case([fv, name, label, raw], "%s:%s" % (fv, label.split("=")[0])):
            continue
        v, why = verdict(Q)
        r = val(lib.mk(raw))
        lib.release()
        ctx.digest(r)
        ctx.classes["%s:model-%s" % (fv, "accept" if v else "reject")] += 1
        judge(ctx, rep, fv, arr, v, why, r == 0, {"set": name, "alteration": label, "seed": Q, "model": [v, why], "ret": r})
    # adjustment: all-zero arrays get defaults; filled arrays stay; invalid filled arrays -> error
    adjc = []
    arrs = ["zi"] + [c[0] for c in chains]
    for mask in range(1 << len(arrs)):
        Q = dict(S)
        for i, nm in enumerate(arrs):
            if mask >> i & 1:
                Q[nm] = [0] * len(S[nm])
        adjc.append(("zeroed:" + ",".join(nm for i, nm in enumerate(arrs) if mask >> i & 1), Q))
    adjc += [("alt:" + a, b) for a, b in cases if a.startswith(("zi-random", chains[0][0] + "-last", chains[0][0] + "[1]", "l="))]
    for lv in (M.STB99_L if scheme == "stb99" else M.PFOK_L):
        Q = {k: ([0] * len(v) if isinstance(v, list) else v) for k, v in S.items()}
        Q["l"] = lv
        adjc.append(("level-defaults", Q))
    for label, Q in adjc:
        raw = lay.pack(Q)
        if not ctx.case([fa, name, label, raw], "%s:%s" % (fa, label.split(":")[0])):
            continue
        m = madj(Q)
        ps = lib.mk(raw)
        r = adj(ps)
        after = lay.unpack(lib.rd(ps, lay.size))
        lib.release()
        ctx.digest(r, lay.pack(after))
        if m is None:
            ctx.classes["undecided:" + fa] += 1
            continue
        ok, want = m
        det = {"set": name, "case": label, "seed": Q, "ret": r, "after": after, "model": [ok, want]}
        if ok and r != 0:
            rep("%s:rejects-valid:%s" % (fa, label.split(":")[0]), fa + " fails although the adjusted seed is correct per the header", det)
        elif not ok and r == 0:
            rep("%s:accepts-invalid:%s" % (fa, label.split(":")[0]), fa + " succeeds although the result is not a correct seed", det)
        elif ok and after != want:
            rep("%s:wrong-defaults" % fa, fa + " does not produce the documented default values", det)
    rep.flush()


def unit_gen(ctx):
    """parameters generated from seeds must validate (library validator and model); bounded: smallest levels only"""
    lib, rng, rep = ctx.lib, ctx.rng, Reporter(ctx)
    scheme, variant = ctx.params["scheme"], ctx.params["variant"]
    if scheme == "stb99":
        lay, play = M.STB99_SEED, M.STB99
        std, gen, pval, sadj = lib.stb99ParamsStd, lib.stb99ParamsGen, lib.stb99ParamsVal, lib.stb99SeedAdj
        mver = M.stb99_verdict
    else:
        lay, play = M.PFOK_SEED, M.PFOK
        std, pval, sadj = lib.pfokParamsStd, lib.pfokParamsVal, lib.pfokSeedAdj
        gen = lambda o, s: lib.pfokParamsGen(o, s, 0)
        mver = M.pfok_verdict
    p, s = lib.alloc(play.size, 0), lib.alloc(lay.size, 0)
    std(p, s, lib.cstr("test"))
    S = lay.unpack(lib.rd(s, lay.size))
    Pstd = play.unpack(lib.rd(p, play.size))
    lib.release()
    if variant == "std-seed":
        Q = S
    elif variant == "default-seed":
        Q = {k: ([0] * len(v) if isinstance(v, list) else v) for k, v in S.items()}
    else:
        Q = dict(S, zi=[rng.randrange(1, 65257) for _ in range(31)])
    if not ctx.case([scheme + "ParamsGen", variant, lay.pack(Q)], "%sParamsGen:%s" % (scheme, variant)):
        return
    ps = lib.mk(lay.pack(Q))
    if variant == "default-seed" and sadj(ps) != 0:
        raise Harness("SeedAdj failed on an all-zero seed")
    out = lib.alloc(play.size)
    r = gen(out, ps)
    raw = lib.rd(out, play.size)
    lib.release()
    ctx.digest(r, raw if r == 0 else b"")
    if r != 0:
        rep("%sParamsGen:fails" % scheme, "generation from a correct seed fails", {"variant": variant, "ret": r, "seed": Q})
        rep.flush()
        return
    G = play.unpack(raw)
    v, why = mver(G)
    r2 = pval(lib.mk(play.pack(G)))
    lib.release()
    if variant == "std-seed":
        # pfok_test.c / stb99_test.c compare l, r, (n,) p (q, a); the standard g of pfok is not the generated one
        same = all(G[k] == Pstd[k] for k in (("l", "r", "p", "q", "a") if scheme == "stb99" else ("l", "r", "n", "p")))
        if not same:
            rep("%sParamsGen:std-seed-mismatch" % scheme, "generation from the standard seed does not reproduce the standard parameters",
                {"generated": raw})
    if not v:
        rep("%sParamsGen:invalid-by-model:%s" % (scheme, why), "generated parameters violate a documented condition", {"params": raw, "why": why})
    if r2 != 0:
        rep("%sParamsVal:rejects-valid:generated" % scheme, "generated parameters are rejected by the validator", {"params": raw, "ret": r2})
    rep.flush()


# =============================================================================
# keys
# =============================================================================

def unit_keys(ctx):
    """bign / bign96: PubkeyVal (in-range point of the curve) and KeypairVal (0 < d < q and Q = dG); pfokPubkeyVal"""
    lib, rng, rep = ctx.lib, ctx.rng, Reporter(ctx)
    name, scale = ctx.params["set"], ctx.params.get("scale", 1.0)
    if name in PFOK_STD:
        p = lib.alloc(760, 0)
        lib.pfokParamsStd(p, 0, lib.cstr(name))
        raw = lib.rd(p, 760)
        P = M.PFOK.unpack(raw)
        lib.release()
        l, r = P["l"], P["r"]
        no, mo = (l + 7) // 8, (r + 7) // 8
        pv = M.le(P["p"])
        # pfok.h does not list the conditions of pfokPubkeyVal; only what follows from "pubkey = g^(privkey) is an
        # element of B_p (non-negative residues mod p, 0 is not in the group)" is tested
        cases = [("zero", 0, False), ("p", pv, False), ("p+1", pv + 1, False), ("ones", (1 << (8 * no)) - 1, False)]
        for i in range(int(4 * scale)):
            x = rng.getrandbits(r)
            cases.append(("calc", ("calc", x), True))
        for lab, y, exp in cases:
            if not ctx.case(["pfokPubkeyVal", name, lab, y], "pfokPubkeyVal:" + lab):
                continue
            if lab == "calc":
                out = lib.alloc(no)
                rc = lib.pfokPubkeyCalc(out, lib.mk(raw), lib.mk(M.to_le(y[1], mo)))
                yb = lib.rd(out, no)
                lib.release()
                if rc != 0:
                    raise Harness("pfokPubkeyCalc failed")
                if M.le(yb) != M.mont_power(M.le(P["g"]), y[1], pv, l) and y[1] > 0:
                    rep("pfokPubkeyCalc:wrong", "pubkey != g^(privkey) in B_p", {"x": y[1]})
            else:
                yb = M.to_le(y, no)
            rc = lib.pfokPubkeyVal(lib.mk(raw), lib.mk(yb))
            lib.release()
            ctx.digest(rc)
            judge(ctx, rep, "pfokPubkeyVal", lab, exp, lab, rc == 0, {"set": name, "pubkey": yb, "ret": rc})
        rep.flush()
        return
    v96 = name in BIGN96_STD
    pfx = "bign96" if v96 else "bign"
    p = lib.alloc(336, 0)
    (lib.bign96ParamsStd if v96 else lib.bignParamsStd)(p, lib.cstr(name))
    raw = lib.rd(p, 336)
    P = M.BIGN.unpack(raw)
    lib.release()
    no = P["l"] // 4
    pv, av, bv, qv, yG = (M.le(P[f][:no]) for f in ("p", "a", "b", "q", "yG"))
    E = ec.Curve(pv, av, bv)
    G = (0, yG)
    pubval = lib.bign96PubkeyVal if v96 else lib.bignPubkeyVal
    kpval = lib.bign96KeypairVal if v96 else lib.bignKeypairVal
    lim = 1 << (8 * no)

    def enc(pt):
        return M.to_le(pt[0], no) + M.to_le(pt[1], no)
    pts = [("G", G), ("-G", E.neg(G)), ("(0,0)", (0, 0)), ("(0,1)", (0, 1)), ("(p-1,p-1)", (pv - 1, pv - 1))]
    for i in range(int(6 * scale)):
        Q = E.mul(rng.randrange(1, qv), G)
        pts += [("on-curve", Q), ("(x,p-y)", E.neg(Q)), ("(x,y+1)", (Q[0], (Q[1] + 1) % pv)), ("(x+1,y)", ((Q[0] + 1) % pv, Q[1]))]
        if Q[0] + pv < lim:
            pts.append(("x+p", (Q[0] + pv, Q[1])))
        if Q[1] + pv < lim:
            pts.append(("y+p", (Q[0], Q[1] + pv)))
        pts.append(("x=p", (pv, Q[1])))
        pts.append(("y=p", (Q[0], pv)))
        pts.append(("x-top-bits", (Q[0] | (lim >> 1), Q[1])))
        # twist: x whose right-hand side is a non-residue, y = sqrt(-rhs) (p = 3 mod 4: -rhs is a residue)
        x = rng.randrange(pv)
        while ec.legendre((x * x * x + av * x + bv) % pv, pv) != -1:
            x = (x + 1) % pv
        pts.append(("twist", (x, ec.sqrt_mod(-(x * x * x + av * x + bv) % pv, pv))))
        pts.append(("random", (rng.getrandbits(8 * no), rng.getrandbits(8 * no))))
    for lab, pt in pts:
        if not ctx.case([pfx + "PubkeyVal", name, lab, enc(pt)], pfx + "PubkeyVal:" + lab):
            continue
        exp = M.ecp_pubkey_valid(pv, av, bv, pt[0], pt[1])
        rc = pubval(lib.mk(raw), lib.mk(enc(pt)))
        lib.release()
        ctx.digest(rc)
        judge(ctx, rep, pfx + "PubkeyVal", lab, exp, lab, rc == 0, {"set": name, "pubkey": enc(pt), "ret": rc})
    # key pairs
    kps = []
    for d, lab in ((0, "d=0"), (1, "d=1"), (2, "d=2"), (qv - 1, "d=q-1"), (qv, "d=q"), (qv + 1, "d=q+1"), (lim - 1, "d=ones"),
                   (qv + rng.randrange(2, 1000), "d>q")):
        if d >= lim:
            continue
        Q = E.mul(d % qv, G)
        kps.append((lab, d, Q if Q is not None else G))
    for i in range(int(4 * scale)):
        d = rng.randrange(1, qv)
        Q = E.mul(d, G)
        kps += [("random-valid", d, Q), ("Q=-dG", d, E.neg(Q)), ("Q=(d+1)G", d, E.add(Q, G)), ("Q.y+1", d, (Q[0], (Q[1] + 1) % pv)),
                ("Q=G", d, G)]
    for lab, d, Q in kps:
        if not ctx.case([pfx + "KeypairVal", name, lab, d, enc(Q)], pfx + "KeypairVal:" + lab):
            continue
        exp = 0 < d < qv and E.mul(d, G) == Q
        rc = kpval(lib.mk(raw), lib.mk(M.to_le(d, no)), lib.mk(enc(Q)))
        lib.release()
        ctx.digest(rc)
        judge(ctx, rep, pfx + "KeypairVal", lab, exp, lab, rc == 0, {"set": name, "d": d, "pubkey": enc(Q), "ret": rc})
    rep.flush()


# =============================================================================
# jobs
# =============================================================================

# unit -> configuration of the standard run ("heavy number theory under rel64, validators under asan64")
CFG = {"unit_primes_window": "rel64"}


# ---------------------------------------------------------------------------------------------------------------
# bignParamsGen (alg. 6.1.3): the seed walk and the derivation b = B(seed) mod p, observed through its callbacks.
# Point counting is the caller's (calc_q); here calc_q records (seed, b) and answers ERR_NO_RESULT, so the function
# walks on; after `steps` curves it answers an error code, which bignParamsGen must hand back.
# ---------------------------------------------------------------------------------------------------------------

_PGEN_CB = ctypes.CFUNCTYPE(ctypes.c_uint32, ctypes.c_void_p, ctypes.c_void_p)


def unit_bign_gen(ctx):
    lib, rng, rep = ctx.lib, ctx.rng, Reporter(ctx)
    name = ctx.params["set"]
    H = hash_fn(lib)
    pp = lib.alloc(336, 0)
    if lib.bignParamsStd(pp, lib.cstr(name)) != 0:
        raise Harness("bignParamsStd(%s) failed" % name)
    P = M.BIGN.unpack(lib.rd(pp, 336))
    lib.release()
    l = P["l"]
    no = l // 4
    pv, av = M.le(P["p"][:no]), M.le(P["a"][:no])
    NO_RESULT, STOP = bee2.errcode("ERR_NO_RESULT"), bee2.errcode("ERR_BAD_RNG")
    lib.declare("bignParamsGen", "u", "pffp")          # (params, calc_q, on_seed, state): callback typedefs are not parsed
    std_seed = M.le(P["seed"])
    seeds = [std_seed, 0, 0xFF, 0xFE, 0xFFFF, 0x12FF, 0xFFFFFFFF, 0xFFFFFFFFFFFFFFFF, 0xFFFFFFFFFFFFFFFE, 0x00FFFFFFFFFFFFFF,
             0x01FFFFFFFFFFFF, 0x7FFF, 0xFFFFFF00FF]
    seeds += [rng.getrandbits(64) for _ in range(ctx.params.get("random", 4))]
    seeds += [(rng.getrandbits(56) << 8) | 0xFF for _ in range(ctx.params.get("random", 4))]
    steps = ctx.params.get("steps", 3)
    for s0 in seeds:
        cls = "bignParamsGen:walk:" + ("std-seed" if s0 == std_seed else "low-octet-FF" if s0 & 0xFF == 0xFF else
                                        "low-octet-FE" if s0 & 0xFF == 0xFE else "other")
        if not ctx.case(["bignParamsGen", name, s0], cls):
            continue
        seen, curves = [], []

        def on_seed(params, state):
            seen.append(M.le(ctypes.string_at(params + 8 + 5 * 64, 8)))
            return 0

        def calc_q(params, state):
            raw = ctypes.string_at(params, 336)
            curves.append((M.le(raw[8 + 5 * 64:8 + 5 * 64 + 8]), M.le(raw[8 + 2 * 64:8 + 2 * 64 + no]), any(raw[8 + 2 * 64 + no:8 + 3 * 64])))
            return NO_RESULT if len(curves) < steps else STOP
        c1, c2 = _PGEN_CB(on_seed), _PGEN_CB(calc_q)
        buf = lib.mk(M.BIGN.pack(dict(P, seed=M.to_le(s0, 8), b=bytes(64), q=bytes(64), yG=bytes(64))))
        r = lib.bignParamsGen(buf, ctypes.cast(c2, ctypes.c_void_p).value, ctypes.cast(c1, ctypes.c_void_p).value, 0)
        lib.release()
        det = {"set": name, "seed0": s0, "ret": bee2.errname(r), "seeds_seen": seen[:40], "curves": [[a, b] for a, b, _ in curves]}
        ctx.digest(r, seen, [(a, b) for a, b, _ in curves])
        if r != STOP:
            rep("bignParamsGen:ret:callback-code-not-returned", "bignParamsGen must return the code of calc_q", det)
        # 1. the walk: seed0, seed0 + 1, ... modulo 2^64, one on_seed per candidate
        want = [(s0 + i) % (1 << 64) for i in range(len(seen))]
        if seen != want:
            rep("bignParamsGen:seed-walk", "candidate seeds are not seed, seed + 1, ... (mod 2^64)", dict(det, expected=want[:40]))
            continue
        # 2. every candidate: b = B(seed) mod p; calc_q is reached exactly when 4a^3 + 27b^2 != 0 and (b/p) = 1
        exp_curves = []
        for sd in seen:
            b = M.bign_B(P["p"][:no], P["a"][:no], M.to_le(sd, 8), H) % pv
            if (4 * av ** 3 + 27 * b * b) % pv != 0 and ec.legendre(b, pv) == 1:
                exp_curves.append((sd, b))
        if [(a, b) for a, b, _ in curves] != exp_curves[:len(curves)] or len(exp_curves) != len(curves):
            rep("bignParamsGen:b-of-seed", "the curves handed to calc_q are not (seed, B(seed) mod p) for the admissible seeds of the walk",
                dict(det, expected=[[a, b] for a, b in exp_curves]))
        if any(z for _, _, z in curves):
            rep("bignParamsGen:unused-octets", "unused octets of params->b not zero when calc_q is called", det)
        ctx.classes["bignParamsGen:candidates"] += len(seen)


def jobs(tier, scale=1.0):
    q = tier == "quick"
    J = []

    def add(unit, **params):
        J.append({"unit": "c12:" + unit, "params": params})
    # dates: exhaustive in both tiers
    for part in ("pair0", "pair1", "pair2", "century", "misc", "ymd"):
        add("unit_dates", part=part, random=max(250, int((3000 if q else 30000) * scale)))
    # exhaustive prime windows
    top = 1 << (17 if q else 20)
    top = max(1 << 12, int(top * scale) // 4096 * 4096)
    nch = 8 if q else 16
    for k in range(nch):
        add("unit_primes_window", lo=top * k // nch // 256 * 256, hi=top * (k + 1) // nch // 256 * 256, fns="WPN")
    half = max(1 << 10, int((1 << (13 if q else 16)) * scale) // 256 * 256)
    c = 1 << 32
    nch = 2 if q else 8
    for k in range(-nch, nch):
        add("unit_primes_window", lo=c + half * k // nch // 256 * 256, hi=c + half * (k + 1) // nch // 256 * 256, fns="WPN")
    for cen in (1373653, 4759123141, 1 << 16, 1 << 31):       # thresholds of priIsPrimeW's base sets, bit-length borders
        lo = (cen - 2048) // 256 * 256
        add("unit_primes_window", lo=lo, hi=lo + 4096, fns="WPN")
    for part in ("pseudo", "semiprime", "pow2", "std", "sg", "sieve"):
        add("unit_primes_special", part=part, scale=scale * (1 if q else 4), maxbits=1600 if q else 4096)
    for part in ("small", "gaps", "top", "random", "leadzero"):
        add("unit_nextprime", part=part, scale=scale * (1 if q else 6))
    # polynomials: all of degree <= 16
    nch = 8 if q else 16
    ptop = max(1 << 11, int((1 << 17) * min(1.0, scale)) // 2048 * 2048)
    for k in range(nch):
        add("unit_poly_small", lo=ptop * k // nch // 256 * 256, hi=ptop * (k + 1) // nch // 256 * 256)
    for deg in (128, 192, 256):
        for ch in range(1 if q else 4):
            add("unit_poly_large", deg=deg, chunk=ch, scale=scale * (1 if q else 3))
    # parameters
    fl = max(1, int((6 if q else 64) * scale))
    for nm in BIGN_STD + BIGN96_STD:
        nchunk = 1 if q else 4
        for ch in range(nchunk):
            add("unit_bign", set=nm, flips=fl, chunk=ch, chunks=nchunk)
    for nm in BIGN_STD:
        add("unit_bign_gen", set=nm, random=max(1, int((2 if q else 12) * scale)), steps=2 if q else 4)
    for nm in G12S_STD:
        nchunk = 1 if q else 3
        for ch in range(nchunk):
            add("unit_g12s", set=nm, flips=fl, chunk=ch, chunks=nchunk)
    for nm in DSTU_STD:
        add("unit_dstu", set=nm, flips=max(1, int((3 if q else 24) * scale)))
    for i, nm in enumerate(STB99_STD):
        nchunk = (1, 1, 2, 4)[i] * (1 if q else 3)
        for ch in range(nchunk):
            add("unit_stb99", set=nm, flips=max(1, int((2 if q else 12) * scale)), chunk=ch, chunks=nchunk, lite=q and i >= 2)
    for i, nm in enumerate(PFOK_STD):
        nchunk = (1, 1, 2, 4)[i] * (1 if q else 3)
        for ch in range(nchunk):
            add("unit_pfok", set=nm, flips=max(1, int((2 if q else 12) * scale)), chunk=ch, chunks=nchunk, lite=q and i >= 2)
    for nm in STB99_STD:
        add("unit_seeds", scheme="stb99", set=nm)
    for nm in PFOK_STD:
        add("unit_seeds", scheme="pfok", set=nm)
    for v in ("std-seed", "default-seed", "random-zi"):
        add("unit_gen", scheme="stb99", variant=v, k=0)
    add("unit_gen", scheme="pfok", variant="std-seed", k=0)
    if not q:
        add("unit_gen", scheme="pfok", variant="default-seed", k=0)
        for k in range(1, 1 + max(1, int(4 * scale))):
            add("unit_gen", scheme="stb99", variant="random-zi", k=k)
            add("unit_gen", scheme="pfok", variant="random-zi", k=k)
    for nm in BIGN_STD + BIGN96_STD + PFOK_STD[:2]:
        add("unit_keys", set=nm, scale=scale * (1 if q else 5))
    return J


HEAVY = ("1.2.112.0.2.0.1176.2.3.6.", "1.2.112.0.2.0.1176.2.3.10.")


def _cfg(job, tier):
    u = job["unit"].split(":")[1]
    if u in CFG:
        return CFG[u]
    if tier == "quick" and u in ("unit_stb99", "unit_pfok") and job["params"]["set"].startswith(HEAVY):
        return "rel64"            # 1500..2500-bit primality tests: ASan build only in the thorough tier
    if u == "unit_gen" and job["params"]["scheme"] == "pfok" and job["params"]["variant"] == "random-zi":
        return "rel64"
    return "asan64"


def main(run):
    js = [dict(j, cfg=_cfg(j, run.tier)) for j in jobs(run.tier)]
    if run.tier != "quick":
        # word-size specific code (32-bit words): numbers around 2^32 go through the multi-word functions
        w32 = ("unit_primes_window", "unit_primes_special", "unit_nextprime", "unit_poly_small", "unit_poly_large", "unit_dates")
        for j in jobs("quick", 0.5):
            u = j["unit"].split(":")[1]
            if u in w32 or (u in ("unit_bign", "unit_g12s", "unit_dstu", "unit_keys", "unit_seeds") and j["params"].get("set", "").endswith(("1", "test", "0"))):
                js.append(dict(j, cfg="asan32"))
    # the group validators of the EC layer (ecp.c / ec2.c are anchors of C12): C06's validator units on complete small curves,
    # which contain groups whose embedding degree / cofactor / order sit exactly on the decision boundary
    from . import c06
    borrowed = [dict(j, cfg="asan64") for j in c06.jobs(run.tier)
                if (j["unit"] == "c06:unit_sp_scalar" and j["params"].get("part") == "misc")
                or (j["unit"] == "c06:unit_b2" and j["params"].get("part") == "scalar")]
    # gf2IsValid (gf2.c is an anchor: irreducibility of the field polynomial): C05's binary-field unit
    from . import c05_pp
    borrowed += [dict(j, cfg="asan64") for j in c05_pp.jobs(run.tier) if j["unit"] == "c05_pp:unit_gf2"]
    js += borrowed
    run.coverage_extra["borrowed_c06_validator_jobs"] = len(borrowed)
    # longest first
    order = {"unit_pfok": 0, "unit_stb99": 1, "unit_gen": 2, "unit_dstu": 3, "unit_g12s": 4, "unit_bign": 5}
    js.sort(key=lambda j: order.get(j["unit"].split(":")[1], 9))
    run.run_jobs(js)
    # of the borrowed units keep only what C12 states (validators); the rest belongs to C06
    keep = ("ecpIs", "ec2Is", "ecpSeems", "ec2Seems", "ecHasOrderA", "gf2IsValid", "asan:", "ubsan:", "assert:", "signal:")
    c06keys = ("ecMulA", "ecAddMulA", "ecpSWU", "ecpCreateJ", "ecNeg", "ecDbl", "ecAdd", "ecSub", "ecTo", "ecFrom", "gf2", "qr", "pp")
    for key in list(run.viol):
        if key.startswith(c06keys) and not key.startswith(keep):
            run.viol.pop(key)
    run.coverage_extra["exhaustive"] = {
        "tmDateIsValid2: each octet pair x 65536 (two bases per pair), all 36525 dates of 2000-2099": True,
        "priIsPrimeW/priIsPrime/priNextPrimeW on [0, 2^%d) and [2^32 - 2^%d, 2^32 + 2^%d)" % ((17, 13, 13) if run.tier == "quick" else (20, 16, 16)): True,
        "ppIsIrred on all polynomials of degree <= 16": True,
    }
    return run.finish(
        rule="case = one validator call (standard object, or one alteration of one field of it: bit flip, byte swap, arithmetic "
             "change, replacement by a related valid/invalid value) or a block of 256 consecutive integers / polynomials / dates of an "
             "exhaustive window; the model verdict decides accept/reject; distinct = distinct (function, object) descriptions",
        assumptions=[
            "the oracle contains only conditions stated in the headers or in the comment blocks of the *ParamsVal sources; cases the "
            "documentation does not settle (bign96 unused octets / a = 0, size of p in g12s, polynomial shapes gf2Create refuses, "
            "normal basis in dstu, partly zero zi in SeedAdj, priIsSmooth on base elements and 0, pfokPubkeyVal beyond 0 < y < p) are executed but not judged",
            "pfokParamsVal is judged by its own list in pfok.h (g of order p - 1), not by the section text (order q)",
            "priRMTest/priIsPrime/priNextPrime are probabilistic: composites are submitted with iter >= 16 (documented error <= 4^-iter)",
            "belt-hash of the library is used to evaluate B(seed) of STB 34.101.45 alg. 6.1.4 (C01 covers belt)",
            "primality oracle: sieve below 2^33, deterministic Miller-Rabin (13 bases) below 3.3e24, + 40 (12 above 1100 bits) random bases above",
        ],
        min_eval=100000,
        required_classes=("date2:pair-exhaustive", "date2:century-valid", "date2:octet>9", "date:ymd-grid",
                          "window:word:priIsPrimeW", "window:word:priIsPrime", "window:word:priNextPrimeW",
                          "strong-pseudoprime:composite", "carmichael:composite", "semiprime:composite", "2^k+c:prime",
                          "sg:yes", "sg:no", "np:top-of-bitlen-none", "np:gap+trials", "np:leading-zero-words",
                          "poly:exhaustive-deg<=16", "poly128:product", "poly192:genm0", "poly256:std", "ppIsIrred:stack=deep-exact",
                          "bignParamsVal:std", "bignParamsVal:flip", "bignParamsVal:model-accept", "bignParamsVal:model-reject",
                          "bign96ParamsVal:flip", "g12sParamsVal:std", "g12sParamsVal:model-accept", "g12sParamsVal:model-reject",
                          "dstuParamsVal:std", "dstuParamsVal:model-accept", "dstuParamsVal:model-reject",
                          "stb99ParamsVal:std", "stb99ParamsVal:model-reject", "pfokParamsVal:std", "pfokParamsVal:model-reject",
                          "stb99SeedVal:model-accept", "stb99SeedVal:model-reject", "pfokSeedVal:model-reject", "stb99SeedAdj:zeroed",
                          "stb99ParamsGen:std-seed", "pfokParamsGen:std-seed",
                          "bignPubkeyVal:twist", "bignPubkeyVal:x=p", "bignKeypairVal:d=q", "bign96KeypairVal:d=0", "pfokPubkeyVal:zero"))
