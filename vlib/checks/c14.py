"""C14 — regular (SAFE) editions are data-independent and equal the fast ones; tag/hash/header comparisons and the
symmetric primitives execute no secret-dependent branch.

Three monitors, all on code produced from the current tree:
 1. SAFE == FAST (functional, asan64, ctypes): both editions of all 33 pairs on the same operands.
 2. memcheck taint tracking on the Release build (drv/ct_harness.c, -DCT_TAINT): secret operands marked undefined,
    every `Conditional jump depends on uninitialised value` inside a target is a violation.  Allowed: the single
    accept/reject decision whose innermost frame is beltDWPUnwrap/beltCHEUnwrap/beltKWPUnwrap itself.
    Positive control every run: the FAST editions must be flagged.
 3. branch-trace equality (-fsanitize-coverage=trace-pc on the library, Release flags): for each target and length,
    64 operand value sets must give one identical edge-trace hash (verdict-split for the high-level unwraps).
"""
import json, os, re, subprocess, tempfile, shutil
from .. import build
from ..core import Harness

LEVEL = "exploration"

PAIRS = ["memEq", "memCmp", "memCmpRev", "memIsZero", "memIsRep", "hexEq", "hexEqRev",
         "wwEq", "wwCmp", "wwCmp2", "wwCmpW", "wwIsZero", "wwIsW", "wwIsRepW", "zzIsSumEq", "zzIsSumWEq",
         "zzAddMod", "zzSubMod", "zzAddWMod", "zzSubWMod", "zzNegMod", "zzDoubleMod", "zzHalfMod",
         "zzRedCrand", "zzRedBarr", "zzRedMont", "zzRedCrandMont",
         "u16CTZ", "u16CLZ", "u32CTZ", "u32CLZ", "u64CTZ", "u64CLZ"]
ALLOWED_DECISION = {"beltDWPUnwrap": "beltDWPUnwrap", "beltCHEUnwrap": "beltCHEUnwrap", "beltKWPUnwrap": "beltKWPUnwrap",
                    "beltKWPUnwrap0": "beltKWPUnwrap"}          # target -> function whose own final verdict branch is allowed


# ---------------------------------------------------------------------------------------------------------------
# monitor 1: SAFE == FAST
# ---------------------------------------------------------------------------------------------------------------

def _sgn(x):
    return (x > 0) - (x < 0)


def unit_safe_fast(ctx):
    lib, rng = ctx.lib, ctx.rng
    W, B = lib.W, lib.B
    Bm = (1 << B) - 1
    reported = set()

    def viol(fn, what, det):
        key = "%s:safe-vs-fast:%s" % (fn, what)
        if key not in reported:
            reported.add(key)
            ctx.violation(key, "regular and fast editions of %s disagree (%s)" % (fn, what), det)

    def variants_bytes(n):
        a = bytes(rng.getrandbits(8) for _ in range(n))
        yield "equal", a, a
        for i in range(n):
            b = bytearray(a)
            b[i] ^= 1 << rng.randrange(8)
            yield "diff@%d" % (0 if i == 0 else (2 if i == n - 1 else 1)), a, bytes(b)
        # two differing octets whose differences cancel under XOR (an accumulator that xors instead of ors misses them)
        for _ in range(3 if n >= 2 else 0):
            i, j = rng.sample(range(n), 2)
            bit = 1 << rng.randrange(8)
            b = bytearray(a)
            b[i] ^= bit
            b[j] ^= bit
            yield "diff2-cancelling", a, bytes(b)
        yield "random", a, bytes(rng.getrandbits(8) for _ in range(n))
        yield "zero", bytes(n), bytes(n)
        yield "ones", b"\xff" * n, b"\xff" * n

    P = ctx.params
    for fn in P["functions"]:
        if fn.startswith("mem") or fn.startswith("hex"):
            for n in range(0, 41 if ctx.tier == "quick" else 70):
                for cls, a, b in variants_bytes(n):
                    if not ctx.case([fn, n, a, b], fn + ":" + cls.split("@")[0]):
                        continue
                    pa, pb = lib.mk(a), lib.mk(b)
                    if fn == "memIsZero":
                        r = [f(pb, n) for f in (lib.memIsZero, lib.memIsZero_fast)]
                        want = int(b == bytes(n))
                    elif fn == "memIsRep":
                        o = b[0] if n else 0
                        r = [f(pb, n, o) for f in (lib.memIsRep, lib.memIsRep_fast)]
                        want = int(b == bytes([o]) * n)
                    elif fn == "memEq":
                        r = [f(pa, pb, n) for f in (lib.memEq, lib.memEq_fast)]
                        want = int(a == b)
                    elif fn == "memCmp":
                        r = [_sgn(f(pa, pb, n)) for f in (lib.memCmp, lib.memCmp_fast)]
                        want = _sgn((a > b) - (a < b))
                    elif fn == "memCmpRev":
                        r = [_sgn(f(pa, pb, n)) for f in (lib.memCmpRev, lib.memCmpRev_fast)]
                        want = _sgn((a[::-1] > b[::-1]) - (a[::-1] < b[::-1]))
                    elif fn == "hexEq":
                        hx = b.hex().upper() if rng.random() < 0.5 else b.hex()
                        ph = lib.cstr(hx)
                        r = [f(pa, ph) for f in (lib.hexEq, lib.hexEq_fast)]
                        want = int(a == b)
                    else:
                        hx = b[::-1].hex().upper()
                        ph = lib.cstr(hx)
                        r = [f(pa, ph) for f in (lib.hexEqRev, lib.hexEqRev_fast)]
                        want = int(a == b)
                    r = [int(bool(x)) if fn not in ("memCmp", "memCmpRev") else x for x in r]
                    ctx.digest(r[0], r[1])
                    if r[0] != r[1]:
                        viol(fn, "value", {"n": n, "a": a, "b": b, "safe": r[0], "fast": r[1]})
                    elif r[0] != want:
                        viol(fn, "both-wrong", {"n": n, "a": a, "b": b, "got": r[0], "want": want})
                    lib.release()
        elif fn.startswith("u16") or fn.startswith("u32") or fn.startswith("u64"):
            bits = int(fn[1:3])
            vals = [0, 1, (1 << bits) - 1] + [1 << i for i in range(bits)] + [(1 << i) - 1 for i in range(1, bits)] + \
                   [rng.getrandbits(bits) for _ in range(300)]
            if bits == 16 and ctx.tier == "thorough":
                vals = range(1 << 16)
            for w in vals:
                if not ctx.case([fn, w], fn):
                    continue
                r = [getattr(lib, fn)(w), getattr(lib, fn + "_fast")(w)]
                if "CTZ" in fn:
                    want = bits if w == 0 else (w & -w).bit_length() - 1
                else:
                    want = bits - w.bit_length()
                ctx.digest(r[0], r[1])
                if r[0] != r[1]:
                    viol(fn, "value", {"w": w, "safe": r[0], "fast": r[1]})
                elif r[0] != want:
                    viol(fn, "both-wrong", {"w": w, "got": r[0], "want": want})
        else:
            # word-array functions
            nmax = 17 if ctx.tier == "quick" else 21
            for n in range(0 if fn.startswith("ww") or fn.startswith("zzIs") else 1, nmax):
                reps = 16 if ctx.tier == "quick" else 48
                for rep in range(reps):
                    cls = ["equal", "diff-lo", "diff-hi", "random", "boundary", "kmod", "carry", "diff2"][rep % 8]
                    a = rng.getrandbits(n * B) if n else 0
                    b = a
                    if cls == "diff-lo" and n:
                        b = a ^ (1 << rng.randrange(B))
                    elif cls == "diff-hi" and n:
                        b = a ^ (1 << ((n - 1) * B + rng.randrange(B)))
                    elif cls == "random":
                        b = rng.getrandbits(n * B) if n else 0
                    elif cls == "boundary":
                        a = rng.choice([0, (1 << (n * B)) - 1, 1]) if n else 0
                        b = rng.choice([0, (1 << (n * B)) - 1, a]) if n else 0
                    elif cls == "diff2" and n >= 2:
                        # the same bit flipped in two words: the word differences cancel under XOR
                        i, j = rng.sample(range(n), 2)
                        bit = rng.randrange(B)
                        b = a ^ (1 << (i * B + bit)) ^ (1 << (j * B + bit))
                    elif cls == "carry" and n:
                        # carry chains: words of a are WORD_MAX / 0 / random, words of b are 1 / 0 / WORD_MAX / random, so that a
                        # word equal to WORD_MAX receives a carry, a carry dies, a carry leaves the top word
                        a = sum(rng.choice([Bm, Bm, 0, rng.getrandbits(B)]) << (i * B) for i in range(n))
                        b = sum(rng.choice([1, 0, Bm, rng.getrandbits(B)]) << (i * B) for i in range(n))
                    w = rng.choice([0, 1, Bm, a & Bm, rng.getrandbits(B)])
                    if n:
                        mod = rng.getrandbits(n * B) | (1 << (n * B - 1)) | 1
                        if rng.random() < 0.3:
                            mod = (1 << (n * B)) - (rng.getrandbits(16) | 1)
                    else:
                        mod = 1
                    if not ctx.case([fn, n, cls, a, b, w, mod], fn + ":" + cls):
                        continue
                    det = {"n": n, "a": a, "b": b, "w": w, "mod": mod}
                    if fn in ("wwEq", "wwCmp"):
                        r = [f(lib.mkw(a, n), lib.mkw(b, n), n) for f in (getattr(lib, fn), getattr(lib, fn + "_fast"))]
                        want = int(a == b) if fn == "wwEq" else _sgn(a - b)
                        r = [int(bool(x)) if fn == "wwEq" else _sgn(x) for x in r]
                    elif fn == "wwCmp2":
                        m = rng.randrange(0, n + 1)
                        bb = b & ((1 << (m * B)) - 1)
                        r = [_sgn(f(lib.mkw(a, n), n, lib.mkw(bb, m), m)) for f in (lib.wwCmp2, lib.wwCmp2_fast)]
                        want = _sgn(a - bb)
                        det["m"] = m
                    elif fn == "wwCmpW":
                        r = [_sgn(f(lib.mkw(a, n), n, w)) for f in (lib.wwCmpW, lib.wwCmpW_fast)]
                        want = _sgn(a - w)
                    elif fn == "wwIsZero":
                        r = [int(bool(f(lib.mkw(b, n), n))) for f in (lib.wwIsZero, lib.wwIsZero_fast)]
                        want = int(b == 0)
                    elif fn == "wwIsW":
                        aa = w if cls == "equal" and n else a
                        r = [int(bool(f(lib.mkw(aa, n), n, w))) for f in (lib.wwIsW, lib.wwIsW_fast)]
                        want = int(aa == w) if n else int(w == 0)
                    elif fn == "wwIsRepW":
                        aa = int.from_bytes(w.to_bytes(W, "little") * n, "little") if cls in ("equal", "boundary") else a
                        r = [int(bool(f(lib.mkw(aa, n), n, w))) for f in (lib.wwIsRepW, lib.wwIsRepW_fast)]
                        # header: "in the empty word (n == 0) the value 0 is repeated"
                        want = int(aa == int.from_bytes(w.to_bytes(W, "little") * n, "little")) if n else int(w == 0)
                    elif fn == "zzIsSumEq":
                        c = (a + b) % (1 << (n * B)) if (cls in ("equal", "boundary", "diff-lo") and (a + b) < (1 << (n * B))) or cls == "carry" else rng.getrandbits(n * B) if n else 0
                        r = [int(bool(f(lib.mkw(c, n), lib.mkw(a, n), lib.mkw(b, n), n))) for f in (lib.zzIsSumEq, lib.zzIsSumEq_fast)]
                        want = int(c == a + b)
                    elif fn == "zzIsSumWEq":
                        bb = (a + w) % (1 << (n * B)) if (cls == "carry" and n) else (a + w) if (cls != "random" and a + w < (1 << (n * B))) else b
                        r = [int(bool(f(lib.mkw(bb, n), lib.mkw(a, n), n, w))) for f in (lib.zzIsSumWEq, lib.zzIsSumWEq_fast)]
                        want = int(bb == a + w)
                    elif fn in ("zzAddMod", "zzSubMod"):
                        x, y = a % mod, b % mod
                        if cls == "kmod":
                            x, y = mod - 1, (1 if fn == "zzAddMod" else mod - 1)
                        r = []
                        for f in (getattr(lib, fn), getattr(lib, fn + "_fast")):
                            pc = lib.outw(n)
                            f(pc, lib.mkw(x, n), lib.mkw(y, n), lib.mkw(mod, n), n)
                            r.append(lib.rdw(pc, n))
                        want = (x + y) % mod if fn == "zzAddMod" else (x - y) % mod
                    elif fn in ("zzAddWMod", "zzSubWMod"):
                        x = a % mod
                        ww = w % mod if n == 1 else w
                        if cls == "kmod":
                            x = mod - 1 if fn == "zzAddWMod" else 0
                        r = []
                        for f in (getattr(lib, fn), getattr(lib, fn + "_fast")):
                            pc = lib.outw(n)
                            f(pc, lib.mkw(x, n), ww, lib.mkw(mod, n), n)
                            r.append(lib.rdw(pc, n))
                        want = (x + ww) % mod if fn == "zzAddWMod" else (x - ww) % mod
                        det["w"] = ww
                    elif fn in ("zzNegMod", "zzDoubleMod", "zzHalfMod"):
                        x = a % mod
                        if cls == "kmod":
                            x = rng.choice([0, mod - 1, (mod + 1) // 2, mod // 2])
                        r = []
                        for f in (getattr(lib, fn), getattr(lib, fn + "_fast")):
                            pc = lib.outw(n)
                            f(pc, lib.mkw(x, n), lib.mkw(mod, n), n)
                            r.append(lib.rdw(pc, n))
                        want = {"zzNegMod": (-x) % mod, "zzDoubleMod": 2 * x % mod,
                                "zzHalfMod": x * pow(2, -1, mod) % mod}[fn]
                    elif fn.startswith("zzRed"):
                        R = 1 << (n * B)
                        if fn in ("zzRedCrand", "zzRedCrandMont"):
                            if n < 2:
                                lib.release()
                                continue
                            mod = R - (rng.getrandbits(B - 1) | 1)
                        mont = fn.endswith("Mont")
                        k = rng.randrange(0, R)
                        if cls in ("kmod", "equal"):
                            x = k * mod
                        elif cls == "boundary":
                            x = rng.choice([0, mod, mod * (R - 1), mod * R - 1 if mont else R * R - 1, mod - 1])
                        else:
                            x = rng.randrange(0, mod * R if mont else R * R)
                        r = []
                        for fast in (0, 1):
                            f = getattr(lib, fn + ("_fast" if fast else ""))
                            pa = lib.mkw(x, 2 * n)
                            deep = getattr(lib, fn + "_deep")(n)
                            st = lib.alloc(deep)
                            if fn == "zzRedBarr":
                                par = lib.outw(n + 2)
                                lib.zzRedBarrStart(par, lib.mkw(mod, n), n, lib.alloc(lib.zzRedBarrStart_deep(n)))
                                f(pa, lib.mkw(mod, n), n, par, st)
                            elif mont:
                                mp = (-pow(mod, -1, 1 << B)) % (1 << B)
                                f(pa, lib.mkw(mod, n), n, mp, st)
                            else:
                                f(pa, lib.mkw(mod, n), n, st)
                            r.append(lib.rdw(pa, n))
                        want = x * pow(R, -1, mod) % mod if mont else x % mod
                        det["x"] = x
                    else:
                        raise Harness("no driver for " + fn)
                    ctx.digest(r[0], r[1])
                    if r[0] != r[1]:
                        viol(fn, "value" + (":a=k*mod" if cls in ("kmod", "equal") and fn.startswith("zzRed") else ""),
                             dict(det, safe=r[0], fast=r[1], want=want, cls=cls))
                    elif r[0] != want:
                        viol(fn, "both-wrong", dict(det, got=r[0], want=want, cls=cls))
                    lib.release()


# ---------------------------------------------------------------------------------------------------------------
# monitor 2: memcheck taint
# ---------------------------------------------------------------------------------------------------------------

def _targets(exe):
    out = subprocess.run([exe, "list"], capture_output=True, text=True).stdout
    return [l.split() for l in out.splitlines() if l.strip()]


def _memcheck(exe, args, tmo=1500):
    d = tempfile.mkdtemp(prefix="c14_", dir=os.path.join(build.VERIF, "out"))
    xml = os.path.join(d, "vg.xml")
    try:
        p = subprocess.run(["valgrind", "--tool=memcheck", "--xml=yes", "--xml-file=" + xml, "--error-limit=no",
                            "--num-callers=12", "-q", exe] + [str(a) for a in args],
                           capture_output=True, text=True, timeout=tmo)
        x = open(xml, errors="replace").read() if os.path.exists(xml) else ""
        return p.returncode, p.stdout, p.stderr, x
    except subprocess.TimeoutExpired:
        return None, "", "timeout", ""
    finally:
        shutil.rmtree(d, ignore_errors=True)


def _parse_memcheck(xml):
    """-> list of (kind, innermost fn, entry ct_ fn, count)"""
    counts = dict(re.findall(r"<pair>\s*<count>(\d+)</count>\s*<unique>(0x[0-9a-f]+)</unique>", xml))
    counts = {u: int(c) for c, u in counts.items()}
    out = []
    for e in re.findall(r"<error>(.*?)</error>", xml, re.S):
        kind = re.search(r"<kind>(.*?)</kind>", e).group(1)
        uniq = re.search(r"<unique>(.*?)</unique>", e).group(1)
        first = e.split("</stack>")[0]
        fns = re.findall(r"<fn>(.*?)</fn>", first)
        inner = fns[0] if fns else "?"
        entry = next((f for f in fns if f.startswith("ct_")), "?")
        out.append((kind, inner, entry, counts.get(uniq, 1), fns[:6]))
    return out


def unit_taint(ctx):
    P = ctx.params
    exe = build.build_harness(P.get("build", "rel64"), "ct_taint", ["ct_harness.c"], extra_cflags="-DCT_TAINT")
    nvar, step = P["nvar"], P["step"]
    tallied = {}
    for tname in P["targets"]:
        for fast in ((0, 1) if P.get("control") else (0,)):
            if fast and tname not in PAIRS:
                continue
            if not ctx.case(["taint", tname, "fast" if fast else "safe", nvar, step], "taint:" + ("control" if fast else "target")):
                continue
            rc, out, err, xml = _memcheck(exe, ["taint", nvar, step, tname, ctx.seed, fast])
            if rc is None:
                raise Harness("memcheck timed out on " + tname)
            if rc != 0 or '"cases"' not in out:
                raise Harness("ct_harness failed under memcheck (%s): rc=%s %s" % (tname, rc, err[-400:]))
            cases = json.loads(out.strip().splitlines()[-1])["cases"]
            ctx.count(max(0, cases - 1), "taint-cases")
            errs = _parse_memcheck(xml)
            cond = [e for e in errs if e[0] == "UninitCondition"]
            val = sum(e[3] for e in errs if e[0] == "UninitValue")
            other = [e for e in errs if e[0] not in ("UninitCondition", "UninitValue")]
            bsuf = ("@" + P["build"]) if P.get("build") else ""
            tk = tname + ("_fast" if fast else "") + bsuf
            tallied[tk] = {"UninitCondition": sum(e[3] for e in cond), "UninitValue_tallied_only": val}
            if fast:
                if not cond and tname != "memEq":
                    if bsuf:
                        # another compiler may well emit the fast edition without a branch: informative only there; the
                        # default (gcc) build is the positive control of the monitor
                        tallied[tk]["positive_control_silent"] = True
                        continue
                    # positive control silent => the monitor cannot be trusted
                    raise Harness("positive control silent: %s_fast%s produced no UninitCondition" % (tname, bsuf))
                continue
            if any(not fns for kind, inner, entry, cnt, fns in cond):
                # every frame of the harness has a symbol; a conditional-jump report without a single function name means
                # memcheck could not read the symbols of the executable (e.g. the build directory was replaced under it)
                raise Harness("memcheck reported a conditional jump without any symbolised frame for %s%s (symbols unreadable?)" % (tname, bsuf))
            for kind, inner, entry, cnt, fns in cond:
                if ALLOWED_DECISION.get(tname) == inner:
                    tallied[tk]["allowed_decision_branches"] = tallied[tk].get("allowed_decision_branches", 0) + cnt
                    continue
                ctx.violation("ct:tainted-branch:%s:%s" % (inner, tname) + bsuf,
                              "conditional jump in %s depends on secret data (entry %s)" % (inner, tname),
                              {"stack": fns, "count": cnt, "target": tname})
            for kind, inner, entry, cnt, fns in other:
                ctx.violation("memcheck:%s:%s:%s" % (kind, inner, tname), "memcheck error %s in %s" % (kind, inner), {"stack": fns})
    ctx.note("memcheck", tallied)


# ---------------------------------------------------------------------------------------------------------------
# monitor 3: branch-trace equality
# ---------------------------------------------------------------------------------------------------------------

def unit_trace(ctx):
    exe = build.build_harness("tracepc", "ct_trace", ["ct_harness.c"], harness_cflags="-O1 -g")
    P = ctx.params
    for rep in range(P["reps"]):
        seed = ctx.rng.getrandbits(31)
        if not ctx.case(["trace", P["nvar"], seed], "trace"):
            continue
        p = subprocess.run([exe, "trace", str(P["nvar"]), "1", "all", str(seed)], capture_output=True, text=True, timeout=1200)
        if p.returncode != 0:
            raise Harness("ct_trace failed: %s" % p.stderr[-300:])
        recs = json.loads(p.stdout)
        ctx.count(len(recs) * P["nvar"] - 1, "trace-runs", distinct=len(recs))
        varied = set()
        for r in recs:
            if r["edges"] == 0:
                raise Harness("no edges traced for %s" % r["t"])
            if r["fast"]:
                if r["diff"]:
                    varied.add(r["t"])
                continue
            if r["diff"]:
                ctx.violation("ct:trace-differs:%s" % r["t"],
                              "executed-branch trace of %s depends on operand values (n=%d)" % (r["t"], r["n"]), r,
                              replay=None)
        ctx.note("trace_targets", sorted({r["t"] for r in recs}))
        ctx.note("fast_editions_with_value_dependent_trace", sorted(varied))
        if len(varied) < 25:
            raise Harness("positive control weak: only %d fast editions show value-dependent traces" % len(varied))


# ---------------------------------------------------------------------------------------------------------------

SYM_TARGETS = ["beltMACStepV", "beltHashStepV", "beltHMACStepV", "bashHashStepV", "beltDWPStepV", "beltCHEStepV",
               "beltDWPUnwrap", "beltCHEUnwrap", "beltKWPUnwrap", "beltKWPUnwrap0", "beltModes", "beltModes16", "bash"]


def jobs(tier, scale=1.0):
    q = tier == "quick"
    js = []
    groups = [PAIRS[i::8] for i in range(8)]
    for g in groups:
        js.append({"cfg": "asan64", "unit": "c14:unit_safe_fast", "params": {"functions": g}})
    js.append({"cfg": "none", "unit": "c14:unit_trace", "params": {"nvar": 64, "reps": 2 if q else 12}})
    # memcheck: one job per few targets (valgrind is ~40x slower)
    tg = PAIRS + SYM_TARGETS
    for i, t in enumerate(tg):
        heavy = t in SYM_TARGETS
        js.append({"cfg": "none", "unit": "c14:unit_taint", "timeout": 3000,
                   "params": {"targets": [t], "control": True,
                              "nvar": (2 if heavy else 4) if q else (6 if heavy else 16),
                              "step": (23 if heavy else 3) if q else (5 if heavy else 1)}})
    if not q:
        # the same targets on the clang -O3 machine code
        for t in tg:
            heavy = t in SYM_TARGETS
            js.append({"cfg": "none", "unit": "c14:unit_taint", "timeout": 3000,
                       "params": {"targets": [t], "control": True, "build": "clangrel",
                                  "nvar": 3 if heavy else 6, "step": 11 if heavy else 3}})
    return js


def main(run):
    js = jobs(run.tier)
    # heavy memcheck jobs first
    js.sort(key=lambda j: 0 if (j["unit"].endswith("taint") and j["params"]["targets"][0] in SYM_TARGETS) else 1)
    run.run_jobs(js, timeout=3400)
    return run.finish(
        rule="cases = (pair, length, operand class) for SAFE==FAST; one memcheck process per target (cases inside counted in bulk); "
             "(target, length) x 64 value sets for trace equality; distinct = distinct operand tuples + distinct (target,length) traces",
        assumptions=["memcheck does not propagate taint through table look-ups (S-box): a key-dependent branch behind an S-box is seen only "
                     "through directly tainted inputs; monitor 3 (trace equality over sampled values) complements it",
                     "UninitValue (secret-indexed table access) is outside C14 and only tallied",
                     "the accept/reject decision inside beltDWPUnwrap/beltCHEUnwrap/beltKWPUnwrap themselves is allowed",
                     "lengths and moduli are public"],
        required_classes=("trace", "taint:target", "taint:control"))
