"""C07 (misc) — direct workloads for the public functions that no other replayed module drives:
blob*, mem* (plain buffer helpers), str*, obj*, ecIsOperable*, priBaseMod / priExtendPrime(2), prngCOMBO/Echo/STB,
rngTestFIPS1..4, rngES* / rng* (single-threaded), tm*, util*, errMsg, mt* (single-threaded).

Every buffer / state / stack is a fresh exact-size malloc (lib.mk / lib.alloc / lib.cstr); lengths run from 0 across
word and block boundaries.  Each case has a small Python value oracle taken from the header text; a wrong value is
reported as "<fn>:value:<class>".  Everything observable and deterministic goes into ctx.digest (two-fill
differential of C07); pointers, clock values and true-entropy output are never digested.

Run alone:  cd /verif && python3 -m vlib.checks.c07_misc [quick|thorough] [scale]
"""
import ctypes, re, time, zlib
from ctypes import c_size_t, c_void_p, CFUNCTYPE
from ..core import Harness
from .. import bee2

LEVEL = "exploration"
SIZE_MAX = 2 ** 64 - 1
M32 = 0xFFFFFFFF

# lengths: W-independent (the case stream must be the same in every configuration); cover 4- and 8-octet word
# boundaries, 16-octet blocks and a few larger sizes
LENS = sorted(set(range(0, 41)) | {47, 48, 49, 63, 64, 65, 95, 96, 97, 127, 128, 129, 255, 256, 257, 511, 512, 513, 1023, 1024, 1025})


def rb(rng, n):
    return rng.getrandbits(8 * n).to_bytes(n, "little") if n else b""


def sign(x):
    return (x > 0) - (x < 0)


class Rep:
    """one violation per key and job"""

    def __init__(self, ctx):
        self.ctx, self.seen = ctx, set()

    def __call__(self, fn, cls, what, detail):
        key = "%s:value:%s" % (fn, cls)
        if key not in self.seen:
            self.seen.add(key)
            self.ctx.violation(key, "%s: %s" % (fn, what), detail)

    def eq(self, fn, cls, got, exp, detail=None):
        if got != exp:
            d = {"got": got, "expected": exp}
            if detail:
                d.update(detail)
            self(fn, cls, "wrong result", d)
            return False
        return True


def pick_lens(P, rng, extra=4, hi=1500):
    ls = [l for i, l in enumerate(LENS) if i % P.get("nchunks", 1) == P.get("chunk", 0) % P.get("nchunks", 1)]
    if P.get("thin", 1) > 1:
        t = P["thin"]
        ls = [l for i, l in enumerate(ls) if i % t == 0 or l in (0, 1, 7, 8, 9, 16, 17)]
    ls += [rng.randrange(41, hi) for _ in range(extra)]
    return ls


# =====================================================================================================================
# mem
# =====================================================================================================================

def unit_mem(ctx):
    lib, rng, P = ctx.lib, ctx.rng, ctx.params
    rep = Rep(ctx)
    for L in pick_lens(P, rng):
        a, b = rb(rng, L), rb(rng, L)
        c = rng.randrange(256)
        tz = rng.choice([0, 0, 1, 2, L // 2, L])
        body = L - tz
        nzbuf = ((a[:body - 1] + bytes([a[body - 1] | 1])) if body > 0 else b"") + bytes(tz)

        if ctx.case(["memCopy", L, a], "memCopy"):
            d = lib.alloc(L)
            lib.memCopy(d, lib.mk(a), L)
            got = lib.rd(d, L)
            ctx.digest(got)
            rep.eq("memCopy", "content", got, a)
            lib.release()
        if ctx.case(["memSet", L, c], "memSet"):
            d = lib.alloc(L)
            lib.memSet(d, c, L)
            got = lib.rd(d, L)
            ctx.digest(got)
            rep.eq("memSet", "content", got, bytes([c]) * L)
            lib.release()
        if ctx.case(["memNeg", L, a], "memNeg"):
            d = lib.mk(a)
            lib.memNeg(d, L)
            got = lib.rd(d, L)
            ctx.digest(got)
            rep.eq("memNeg", "content", got, bytes(x ^ 0xFF for x in a))
            lib.release()
        if ctx.case(["memRev", L, a], "memRev"):
            d = lib.mk(a)
            lib.memRev(d, L)
            got = lib.rd(d, L)
            ctx.digest(got)
            rep.eq("memRev", "content", got, a[::-1])
            lib.release()
        if ctx.case(["memSwap", L, a, b], "memSwap"):
            p1, p2 = lib.mk(a), lib.mk(b)
            lib.memSwap(p1, p2, L)
            g1, g2 = lib.rd(p1, L), lib.rd(p2, L)
            ctx.digest(g1, g2)
            rep.eq("memSwap", "content", [g1, g2], [b, a])
            lib.release()
        x = bytes(u ^ v for u, v in zip(a, b))
        for var in ("disjoint", "dest=src1", "dest=src2", "all-same"):
            if ctx.case(["memXor", L, var, a, b], "memXor:" + var):
                p1, p2 = lib.mk(a), lib.mk(b)
                if var == "disjoint":
                    d = lib.alloc(L)
                    lib.memXor(d, p1, p2, L)
                    exp = x
                elif var == "dest=src1":
                    d = p1
                    lib.memXor(d, p1, p2, L)
                    exp = x
                elif var == "dest=src2":
                    d = p2
                    lib.memXor(d, p1, p2, L)
                    exp = x
                else:
                    d = p1
                    lib.memXor(d, p1, p1, L)
                    exp = bytes(L)
                got = lib.rd(d, L)
                ctx.digest(got)
                rep.eq("memXor", var, got, exp)
                if var == "disjoint":
                    rep.eq("memXor", "sources-changed", [lib.rd(p1, L), lib.rd(p2, L)], [a, b])
                lib.release()
        for var in ("disjoint", "same"):
            if ctx.case(["memXor2", L, var, a, b], "memXor2:" + var):
                p1 = lib.mk(a)
                if var == "disjoint":
                    p2 = lib.mk(b)
                    lib.memXor2(p1, p2, L)
                    exp = x
                    rep.eq("memXor2", "source-changed", lib.rd(p2, L), b)
                else:
                    lib.memXor2(p1, p1, L)
                    exp = bytes(L)
                got = lib.rd(p1, L)
                ctx.digest(got)
                rep.eq("memXor2", var, got, exp)
                lib.release()
        if ctx.case(["memWipe", L], "memWipe"):
            d = lib.mk(a)
            lib.memWipe(d, L)          # arbitrary octets afterwards (address dependent): nothing to compare or digest
            ctx.digest(L)
            lib.release()
        if ctx.case(["memNonZeroSize", L, nzbuf], "memNonZeroSize"):
            r = lib.memNonZeroSize(lib.mk(nzbuf), L)
            ctx.digest(r)
            rep.eq("memNonZeroSize", "size", r, len(nzbuf.rstrip(b"\0")))
            lib.release()
        # comparisons (regular and, where the build has them, the fast editions)
        kind = rng.choice(["equal", "first", "last", "one", "random", "zero", "rep"])
        b2 = bytearray(a)
        if L and kind != "equal":
            pos = {"first": 0, "last": L - 1}.get(kind, rng.randrange(L))
            b2[pos] = (b2[pos] + rng.choice([1, 0x7F, 0x80, 0xFF])) & 0xFF
            if kind == "random":
                b2 = bytearray(b)
        b2 = bytes(b2)
        zr = bytes(L) if kind in ("zero", "equal") else bytes(L - 1) + b"\x01" if kind == "last" and L else a
        o = rng.choice([0, 0xFF, 0xA5, a[0] if L else 7])
        rp = bytes([o]) * L if kind in ("rep", "equal", "zero") else (bytes([o]) * (L - 1) + bytes([o ^ 0x10]) if L else b"")
        if ctx.case(["memEq/Cmp/CmpRev/IsZero/IsRep", L, kind, a, b2, zr, rp, o], "memCmp-family"):
            for suf in ("", "_fast"):
                if suf and not lib.has("memEq" + suf):
                    continue
                e = getattr(lib, "memEq" + suf)(lib.mk(a), lib.mk(b2), L)
                c = getattr(lib, "memCmp" + suf)(lib.mk(a), lib.mk(b2), L)
                cr = getattr(lib, "memCmpRev" + suf)(lib.mk(a), lib.mk(b2), L)
                z = getattr(lib, "memIsZero" + suf)(lib.mk(zr), L)
                r = getattr(lib, "memIsRep" + suf)(lib.mk(rp), L, o)
                ctx.digest(e, sign(c), sign(cr), z, r)
                d = {"a": a, "b": b2}
                rep.eq("memEq" + suf, "flag", bool(e), a == b2, d)
                rep.eq("memCmp" + suf, "sign", sign(c), sign((a > b2) - (a < b2)), d)
                rep.eq("memCmpRev" + suf, "sign", sign(cr), sign((a[::-1] > b2[::-1]) - (a[::-1] < b2[::-1])), d)
                rep.eq("memIsZero" + suf, "flag", bool(z), zr == bytes(L), {"buf": zr})
                if L or o == 0:       # mem.h: "an empty buffer repeats the value 0"; nothing is said about other values
                    rep.eq("memIsRep" + suf, "flag", bool(r), rp == bytes([o]) * L, {"buf": rp, "o": o})
                lib.release()
        if ctx.case(["memIsValid", L], "memIsValid"):
            p = lib.mk(a)
            r = [lib.memIsValid(p, L), lib.memIsValid(0, 0), lib.memIsValid(0, L)]
            ctx.digest(r)
            rep.eq("memIsValid", "flag", [bool(v) for v in r], [True, True, L == 0])
            lib.release()
        # ---- heap blocks ------------------------------------------------------------------------------------------
        M = rng.choice(LENS + [L, L + 1, max(0, L - 1)])
        if ctx.case(["memAlloc/Realloc/Free", L, M], "memAlloc"):
            p = lib.memAlloc(L)
            if not p:
                rep("memAlloc", "null", "no block for a small count", {"count": L})
            else:
                lib.wr(p, a)                       # the whole block must be writable
                q = lib.memRealloc(p, M)
                if M == 0:
                    rep.eq("memRealloc", "count0-nonnull", bool(q), False)
                elif not q:
                    rep("memRealloc", "null", "no block for a small count", {"count": M})
                    lib.memFree(p)
                else:
                    k = min(L, M)
                    got = lib.rd(q, k)
                    ctx.digest(got)
                    rep.eq("memRealloc", "content", got, a[:k])
                    lib.wr(q, bytes([0x3C]) * M)
                    lib.memFree(q)
            q = lib.memRealloc(0, M)
            if M:
                if not q:
                    rep("memRealloc", "null-from-null", "no block", {"count": M})
                else:
                    lib.wr(q, bytes([0x3D]) * M)
                    ctx.digest(lib.rd(q, M))
                    rep.eq("memRealloc", "to-zero", bool(lib.memRealloc(q, 0)), False)
            else:
                rep.eq("memRealloc", "count0-nonnull", bool(q), False)
    # ---- pointer predicates on one arena ---------------------------------------------------------------------------
    n = P.get("pred", 150)
    for _ in range(n):
        A = rng.choice([1, 8, 16, 33, 64])
        offs = [rng.randrange(0, A + 1) for _ in range(4)]
        cnts = [rng.choice([0, 0, 1, 2, 7, 8, 9, 16]) for _ in range(4)]
        cnts = [min(cn, A - o) for cn, o in zip(cnts, offs)]
        cc = min(cnts[0], cnts[1])
        size = rng.choice([1, 2, 3, 4, 8, 16, 32])
        if not ctx.case(["mem-predicates", A, offs, cnts, size], "memIsDisjoint*"):
            continue
        base = lib.alloc(A)
        p = [base + o for o in offs]

        def dj(i, j, ci=None, cj=None):
            ci = cnts[i] if ci is None else ci
            cj = cnts[j] if cj is None else cj
            return ci == 0 or cj == 0 or offs[i] + ci <= offs[j] or offs[j] + cj <= offs[i]

        r1 = lib.memIsDisjoint(p[0], p[1], cc)
        r2 = lib.memIsSameOrDisjoint(p[0], p[1], cc)
        r3 = lib.memIsDisjoint2(p[0], cnts[0], p[1], cnts[1])
        r4 = lib.memIsDisjoint3(p[0], cnts[0], p[1], cnts[1], p[2], cnts[2])
        r5 = lib.memIsDisjoint4(p[0], cnts[0], p[1], cnts[1], p[2], cnts[2], p[3], cnts[3])
        r6 = lib.memIsAligned(p[0], size)
        ctx.digest(r1, r2, r3, r4, r5)                  # r6 depends on the address malloc returned
        rep.eq("memIsDisjoint", "flag", bool(r1), dj(0, 1, cc, cc), {"offs": offs, "count": cc})
        rep.eq("memIsSameOrDisjoint", "flag", bool(r2), offs[0] == offs[1] or dj(0, 1, cc, cc), {"offs": offs, "count": cc})
        rep.eq("memIsDisjoint2", "flag", bool(r3), dj(0, 1), {"offs": offs, "cnts": cnts})
        rep.eq("memIsDisjoint3", "flag", bool(r4), dj(0, 1) and dj(0, 2) and dj(1, 2), {"offs": offs, "cnts": cnts})
        rep.eq("memIsDisjoint4", "flag", bool(r5), all(dj(i, j) for i in range(4) for j in range(i + 1, 4)),
               {"offs": offs, "cnts": cnts})
        rep.eq("memIsAligned", "flag", bool(r6), p[0] % size == 0, {"low-bits": p[0] % 64, "size": size})
        lib.release()


# =====================================================================================================================
# str
# =====================================================================================================================

DIG = b"0123456789"
ALNUM = DIG + b"ABCDEFGHIJKLMNOPQRSTUVWXYZabcdefghijklmnopqrstuvwxyz"
PRINTABLE = ALNUM + b" '()+,-./:=?"


def _rstr(rng, n, kind):
    if kind == "digits":
        al = DIG
    elif kind == "alnum":
        al = ALNUM
    elif kind == "printable":
        al = PRINTABLE
    elif kind == "edge":
        al = b"/0123:9@AZ[`az{ '()+,-.=?*!\"#&;<>_~\x7f\x80\xff\x01"
    else:
        al = bytes(range(1, 256))
    return bytes(rng.choice(al) for _ in range(n))


def unit_str(ctx):
    lib, rng, P = ctx.lib, ctx.rng, ctx.params
    rep = Rep(ctx)
    lens = [l for l in pick_lens(P, rng, extra=2, hi=300) if l <= 300]
    for L in lens:
        for kind in ("digits", "alnum", "printable", "edge", "any"):
            s = _rstr(rng, L, kind)
            k = rng.randrange(0, L + 1)
            pos = rng.randrange(0, L) if L else 0
            mode = rng.choice(["equal", "prefix", "diff", "diff", "other"])
            if mode == "equal" or (L == 0 and mode == "diff"):
                t = s
            elif mode == "prefix":
                t = s[:k]
            elif mode == "diff":
                nb = rng.choice([x for x in (1, 0x7F, 0x80, 0xFF, s[pos] ^ 1 or 2, (s[pos] + 1) % 256 or 1) if x != s[pos]])
                t = s[:pos] + bytes([nb]) + s[pos + 1:]
            else:
                t = _rstr(rng, rng.randrange(0, L + 3), kind)
            ch = rng.choice([0x20, 0x41, 0xFF, 0x80, 1, rng.randrange(1, 256)])
            cnt = rng.choice([0, k, L, L + 1, L + 100, max(0, L - 1)])
            if not ctx.case(["str", kind, s, t, ch, cnt], "str:" + kind):
                continue
            ps = lib.cstr(s)
            r = lib.strLen(ps)
            rep.eq("strLen", "len", r, L)
            r2 = lib.strLen2(ps, cnt)
            rep.eq("strLen2", "len", r2, min(L, cnt), {"count": cnt})
            v = lib.strIsValid(ps)
            rep.eq("strIsValid", "flag", bool(v), True)
            fl = [lib.strIsNumeric(ps), lib.strIsAlphanumeric(ps), lib.strIsPrintable(ps)]
            rep.eq("strIsNumeric", "flag", bool(fl[0]), all(x in DIG for x in s), {"str": s})
            rep.eq("strIsAlphanumeric", "flag", bool(fl[1]), all(x in ALNUM for x in s), {"str": s})
            rep.eq("strIsPrintable", "flag", bool(fl[2]), all(x in PRINTABLE for x in s), {"str": s})
            ctx.digest(r, r2, v, fl)
            # copy
            d = lib.alloc(L + 1)
            lib.strCopy(d, ps)
            got = lib.rd(d, L + 1)
            ctx.digest(got)
            rep.eq("strCopy", "content", got, s + b"\0")
            # compare / prefix / suffix
            pt = lib.cstr(t)
            cmp_ = lib.strCmp(ps, pt)
            exp = sign((s > t) - (s < t))
            ctx.digest(sign(cmp_))
            rep.eq("strCmp", "sign", sign(cmp_), exp, {"str1": s, "str2": t})
            if cmp_ not in (-1, 0, 1):
                rep("strCmp", "not-in-{-1,0,1}", "header promises exactly 1 / -1 / 0", {"got": cmp_, "str1": s, "str2": t})
            sw, ew = lib.strStartsWith(ps, pt), lib.strEndsWith(ps, pt)
            suf = s[L - k:]
            sw2, ew2 = lib.strStartsWith(ps, lib.cstr(s[:k])), lib.strEndsWith(ps, lib.cstr(suf))
            ctx.digest(sw, ew, sw2, ew2)
            rep.eq("strStartsWith", "flag", [bool(sw), bool(sw2)], [s.startswith(t), True], {"str": s, "prefix": t})
            rep.eq("strEndsWith", "flag", [bool(ew), bool(ew2)], [s.endswith(t), True], {"str": s, "suffix": t})
            # rev / set (in place)
            p3 = lib.cstr(s)
            lib.strRev(p3)
            got = lib.rd(p3, L + 1)
            ctx.digest(got)
            rep.eq("strRev", "content", got, s[::-1] + b"\0")
            lib.strSet(p3, ch)
            got = lib.rd(p3, L + 1)
            ctx.digest(got)
            rep.eq("strSet", "content", got, bytes([ch]) * L + b"\0")
            lib.release()
    if ctx.case(["strIsValid", "null"], "str:null"):
        ctx.digest(lib.strIsValid(0))               # no documented value for the null pointer


# =====================================================================================================================
# blob
# =====================================================================================================================

BLOB_SIZES = [0, 0, 1, 7, 8, 9, 15, 16, 17, 31, 32, 33, 100, 1015, 1016, 1017, 1024, 1025, 2040, 2041, 3000]


def unit_blob(ctx):
    lib, rng, P = ctx.lib, ctx.rng, ctx.params
    rep = Rep(ctx)
    for it in range(P.get("seqs", 40)):
        ops = []
        for _ in range(rng.randrange(6, 16)):
            op = rng.choice(["create", "create", "fill", "resize", "resize", "copy", "copy", "cmp", "cmp", "wipe", "close", "dup"])
            ops.append([op, rng.randrange(4), rng.randrange(4), rng.choice(BLOB_SIZES), rng.getrandbits(32)])
        if not ctx.case(["blob-seq", ops], "blob-seq"):
            continue
        import random
        H = [0, 0, 0, 0]               # handles
        C = [b"", b"", b"", b""]       # model content (None after a wipe until read back)
        for op, i, j, size, sd in ops:
            r2 = random.Random(sd)
            if op == "create":
                lib.blobClose(H[i])
                H[i] = lib.blobCreate(size) or 0
                C[i] = bytes(size)
                rep.eq("blobCreate", "null-iff-size0", bool(H[i]), size > 0, {"size": size})
                if H[i]:
                    got = lib.rd(H[i], size)
                    rep.eq("blobCreate", "not-zeroed", got, bytes(size), {"size": size})
                    lib.wr(H[i], bytes([0x77]) * size)        # all of it writable
                    lib.wr(H[i], bytes(size))
            elif op == "fill":
                if H[i]:
                    C[i] = rb(r2, len(C[i]))
                    lib.wr(H[i], C[i])
            elif op == "resize":
                old = H[i]
                h = lib.blobResize(old, size) or 0
                rep.eq("blobResize", "null-iff-size0", bool(h), size > 0, {"size": size})
                if size == len(C[i]) and old:
                    rep.eq("blobResize", "same-size-handle-changed", h == old, True, {"size": size})
                C[i] = C[i][:size] + bytes(max(0, size - len(C[i])))
                H[i] = h
                if h:
                    got = lib.rd(h, size)
                    ctx.digest(got)
                    rep.eq("blobResize", "content", got, C[i], {"size": size})
            elif op in ("copy", "dup"):
                if op == "dup":
                    j = i
                dst, src = H[i], H[j]
                h = lib.blobCopy(dst, src) or 0
                if i != j:
                    if not src:
                        rep.eq("blobCopy", "null-src-nonnull-result", bool(h), False)
                    else:
                        rep.eq("blobCopy", "null-result", bool(h), True)
                        if dst and len(C[i]) == len(C[j]):
                            rep.eq("blobCopy", "same-size-handle-changed", h == dst, True)
                    H[i], C[i] = h, C[j]
                else:
                    rep.eq("blobCopy", "self-copy-handle", h == dst, True)
                if H[i]:
                    got = lib.rd(H[i], len(C[i]))
                    ctx.digest(got)
                    rep.eq("blobCopy", "content", got, C[i])
                if H[j] and i != j:
                    rep.eq("blobCopy", "source-changed", lib.rd(H[j], len(C[j])), C[j])
            elif op == "cmp":
                if r2.random() < 0.4 and H[i] and H[j] and i != j and len(C[i]) == len(C[j]) and C[i]:
                    # make them differ in one octet only (same size): exercises the value comparison
                    pos = r2.randrange(len(C[i]))
                    C[j] = C[i][:pos] + bytes([(C[i][pos] + r2.choice([1, 255, 128])) % 256]) + C[i][pos + 1:]
                    lib.wr(H[j], C[j])
                a, b = C[i], C[j]
                c = lib.blobCmp(H[i], H[j])
                e = lib.blobEq(H[i], H[j])
                exp = sign(len(a) - len(b)) or sign((a > b) - (a < b))
                ctx.digest(sign(c), e)
                rep.eq("blobCmp", "sign", sign(c), exp, {"a": a, "b": b})
                rep.eq("blobEq", "flag", bool(e), a == b, {"a": a, "b": b})
            elif op == "wipe":
                lib.blobWipe(H[i])
                if H[i]:
                    C[i] = lib.rd(H[i], len(C[i]))         # arbitrary octets now; the size must stay
            elif op == "close":
                lib.blobClose(H[i])
                H[i], C[i] = 0, b""
            # invariants after every step
            for k in range(4):
                sz = lib.blobSize(H[k])
                vl = lib.blobIsValid(H[k])
                ctx.digest(sz, vl)
                rep.eq("blobSize", "size", sz, len(C[k]), {"after": op})
                rep.eq("blobIsValid", "flag", bool(vl), True, {"after": op})
        for k in range(4):
            lib.blobClose(H[k])
        lib.release()


# =====================================================================================================================
# obj: hand-built object trees following obj.h (header of three size_t, pointer table, payload)
# =====================================================================================================================

HDR, PS = 24, 8


class Obj:
    """model of an object: pointer table entries are
         ("int", off)   address inside this object's own extent (off relative to the object start)
         ("ext", k)     address of external block k (never moves)
         ("null",)
         ("child", c)   nested object c (an Obj placed inside this object's extent, at self.child_off[c])
         ("xobj", k)    external object k (o-pointer to an object outside)
       the first o_count entries are object pointers."""

    def __init__(self, ptrs, o_count, payload):
        self.ptrs, self.o_count, self.payload = list(ptrs), o_count, payload
        self.children = []          # appended nested objects, in order
        self.child_off = []

    @property
    def own(self):
        return HDR + PS * len(self.ptrs) + len(self.payload)

    @property
    def keep(self):
        return self.own + sum(c.keep for c in self.children)

    def append(self, child, i):
        self.child_off.append(self.keep)
        self.children.append(child)
        self.ptrs[i] = ("child", len(self.children) - 1)

    def image(self, base, ext):
        """octets of the object when it lives at address base"""
        out = bytearray()
        out += self.keep.to_bytes(8, "little") + len(self.ptrs).to_bytes(8, "little") + self.o_count.to_bytes(8, "little")
        for p in self.ptrs:
            if p[0] == "int":
                v = base + p[1]
            elif p[0] in ("ext", "xobj"):
                v = ext[p[1]]
            elif p[0] == "child":
                v = base + self.child_off[p[1]]
            else:
                v = 0
            out += v.to_bytes(8, "little")
        out += self.payload
        for c, off in zip(self.children, self.child_off):
            out += c.image(base + off, ext)
        return bytes(out)

    def slots(self, off=0, depth=0):
        """(offset of the pointer slot in the image, depth, index, entry) for every pointer of the tree"""
        r = [(off + HDR + PS * i, depth, i, p) for i, p in enumerate(self.ptrs)]
        for c, co in zip(self.children, self.child_off):
            r += c.slots(off + co, depth + 1)
        return r


def _rand_obj(rng, o_count, xobjs, n_ext):
    np_ = o_count + rng.randrange(0, 4)
    pl = rng.choice([0, 8, 8, 16, 24, 40]) if np_ > o_count or rng.random() < 0.5 else 0
    own = HDR + PS * np_ + pl
    ptrs = [("xobj", rng.randrange(xobjs)) for _ in range(o_count)]
    for _ in range(np_ - o_count):
        k = rng.choice(["int", "int", "int", "ext", "null"])
        if k == "int" and pl:
            ptrs.append(("int", rng.choice([HDR + PS * np_, own - 1, rng.randrange(HDR + PS * np_, own)])))
        elif k == "ext" or (k == "int" and not pl):
            ptrs.append(("ext", xobjs + rng.randrange(n_ext)))
        else:
            ptrs.append(("null",))
    return Obj(ptrs, o_count, rb(rng, pl))


def _norm(img, base, slots, ext, others):
    """pointer slots -> symbolic (so that the digest does not depend on addresses)"""
    b = bytearray(img)
    sym = []
    for off, depth, i, _ in slots:
        v = int.from_bytes(img[off:off + 8], "little")
        b[off:off + 8] = bytes(8)
        if v == 0:
            sym.append("0")
        elif base <= v < base + len(img):
            sym.append("i%d" % (v - base))
        elif v in ext:
            sym.append("e%d" % ext.index(v))
        else:
            for nm, (ob, ol) in others.items():
                if ob <= v < ob + ol:
                    sym.append("%s%d" % (nm, v - ob))
                    break
            else:
                sym.append("?")
    return bytes(b), sym


def _cmp_obj(rep, fn, got, exp, slots, extra):
    if got == exp:
        return
    cls = "payload"
    for off, depth, i, p in slots:
        if got[off:off + 8] != exp[off:off + 8]:
            cls = ("nested-" if depth else "top-") + ("object-ptr" if p[0] in ("child", "xobj") else
                                                        "internal-ptr" if p[0] == "int" else "external-ptr")
            d = dict(extra, slot_offset=off, depth=depth, index=i, entry=list(p),
                     got_minus_expected=int.from_bytes(got[off:off + 8], "little") - int.from_bytes(exp[off:off + 8], "little"))
            rep(fn, cls, "pointer of the copy is not what obj.h describes", d)
            return
    if got[:HDR] != exp[:HDR]:
        cls = "header"
    rep(fn, cls, "octets of the copy differ", dict(extra, got=got, expected=exp))


def unit_obj(ctx):
    lib, rng, P = ctx.lib, ctx.rng, ctx.params
    rep = Rep(ctx)
    for it in range(P.get("cases", 120)):
        shape = rng.choice(["flat", "flat", "append", "append", "tree-copy", "tree-copy", "tree-append", "self-append", "bad"])
        sd = rng.getrandbits(40)
        if not ctx.case(["obj", shape, sd], "obj:" + shape):
            continue
        import random
        r = random.Random(sd)
        # external blocks: [0] a valid leaf object (target of o-pointers before an append), [1..2] plain buffers
        leaf = Obj([("null",)], 0, b"\x5a" * 8)
        xo = lib.mk(leaf.image(0, []))
        ext = [xo, lib.mk(rb(r, 9)), lib.mk(rb(r, 1))]
        dig = []

        def place(o, room=0):
            """o in an exact block of keep + room octets"""
            p = lib.alloc(o.keep + room)
            lib.wr(p, o.image(p, ext))
            return p

        def check_copy(fn, dp, o, sp, simg):
            got = lib.rd(dp, o.keep)
            exp = o.image(dp, ext)
            others = {"s": (sp, len(simg))} if sp else {}
            nb, sym = _norm(got, dp, o.slots(), ext, others)
            dig.extend([nb, sym])
            _cmp_obj(rep, fn, got, exp, o.slots(), {"shape": shape, "seed": sd})
            if sp:
                rep.eq(fn, "source-modified", lib.rd(sp, len(simg)), simg, {"shape": shape, "seed": sd})

        if shape == "flat":
            o = _rand_obj(r, r.choice([0, 0, 1, 2]), 1, 2)
            sp = place(o)
            simg = lib.rd(sp, o.keep)
            f = [lib.objIsOperable2(sp), lib.objIsOperable(sp)]
            dig.append(f)
            rep.eq("objIsOperable", "well-formed-rejected", [bool(x) for x in f], [True, True], {"seed": sd})
            dp = lib.alloc(o.keep)
            lib.objCopy(dp, sp)
            check_copy("objCopy", dp, o, sp, simg)
            f = [lib.objIsOperable2(dp), lib.objIsOperable(dp)]
            dig.append(f)
            rep.eq("objIsOperable", "copy-rejected", [bool(x) for x in f], [True, True], {"seed": sd})
        elif shape == "bad":
            o = _rand_obj(r, r.choice([0, 1]), 1, 2)
            img = bytearray(o.image(0, ext))
            kind = r.choice(["o>p", "keep-short", "child-bad"])
            if kind == "o>p":
                img[16:24] = (len(o.ptrs) + 1 + r.randrange(3)).to_bytes(8, "little")
                exp = [False, False]
            elif kind == "keep-short":
                img[0:8] = (HDR + PS * len(o.ptrs) - 1 - r.randrange(min(8, HDR + PS * len(o.ptrs)))).to_bytes(8, "little")
                exp = [False, False]
            else:
                # a well-formed container whose (external) nested object is malformed
                badleaf = bytearray(leaf.image(0, []))
                badleaf[16:24] = (5).to_bytes(8, "little")
                ext[0] = lib.mk(bytes(badleaf))
                o = _rand_obj(r, 1, 1, 2)
                img = bytearray(o.image(0, ext))
                exp = [True, False]
            sp = lib.mk(bytes(img))
            f = [lib.objIsOperable2(sp), lib.objIsOperable(sp)]
            dig.append(f)
            rep.eq("objIsOperable", "malformed:" + kind, [bool(x) for x in f], exp, {"seed": sd, "image": bytes(img)})
        elif shape == "append":
            d = _rand_obj(r, r.choice([1, 2]), 1, 2)
            s = _rand_obj(r, 0, 1, 2)
            sp = place(s)
            simg = lib.rd(sp, s.keep)
            dp = place(d, room=s.keep)
            i = r.randrange(d.o_count)
            lib.objAppend(dp, sp, i)
            d.append(s, i)
            check_copy("objAppend", dp, d, sp, simg)
            f = [lib.objIsOperable2(dp), lib.objIsOperable(dp)]
            dig.append(f)
            rep.eq("objIsOperable", "after-append-rejected", [bool(x) for x in f], [True, True], {"seed": sd})
        else:
            # two-level tree built with the library itself: container c, children appended one by one
            c = _rand_obj(r, r.choice([1, 2]), 1, 2)
            kids = [_rand_obj(r, 0, 1, 2) for _ in range(c.o_count)]
            total = c.keep + sum(k.keep for k in kids)
            room2 = total if shape == "self-append" else 0
            cp = lib.alloc(total + room2)
            lib.wr(cp, c.image(cp, ext))
            for i, k in enumerate(kids):
                kp = place(k)
                lib.objAppend(cp, kp, i)
                c.append(k, i)
            got = lib.rd(cp, c.keep)
            _cmp_obj(rep, "objAppend", got, c.image(cp, ext), c.slots(), {"shape": shape, "seed": sd, "stage": "build"})
            simg = lib.rd(cp, c.keep)
            if shape == "tree-copy":
                dp = lib.alloc(c.keep)
                lib.objCopy(dp, cp)
                check_copy("objCopy", dp, c, cp, simg)
                f = [lib.objIsOperable2(dp), lib.objIsOperable(dp)]
                dig.append(f)
                rep.eq("objIsOperable", "tree-copy-rejected", [bool(x) for x in f], [True, True], {"seed": sd})
            elif shape == "tree-append":
                e = _rand_obj(r, 1, 1, 2)
                ep = place(e, room=c.keep)
                lib.objAppend(ep, cp, 0)
                e.append(c, 0)
                check_copy("objAppend", ep, e, cp, simg)
            else:
                # the object appended to itself (as /repo/test/core/obj_test.c does): the appended copy is an image
                # of the object as it was before the call
                import copy
                old = copy.deepcopy(c)
                lib.objAppend(cp, cp, 0)
                c.append(old, 0)
                check_copy("objAppend", cp, c, 0, b"")
        ctx.digest(*dig)
        lib.release()


# =====================================================================================================================
# ecIsOperable / ecIsOperable2 / ecIsOperableGroup
# =====================================================================================================================

EC_PRIMES = [23, 251, 65537, 2 ** 31 - 1, 2 ** 61 - 1, 2 ** 64 - 59, 2 ** 127 - 1, 2 ** 255 - 19, 2 ** 256 - 189, 2 ** 521 - 1]


def unit_ec(ctx):
    lib, rng, P = ctx.lib, ctx.rng, ctx.params
    rep = Rep(ctx)
    from .c06 import structs
    Qr, Ec = structs(lib.W)
    for it in range(P.get("cases", 20)):
        p = rng.choice(EC_PRIMES)
        A, B = rng.randrange(p), rng.randrange(p)
        if rng.random() < 0.3:
            A = p - 3
        order = rng.randrange(1, 2 * p)
        cof = rng.choice([1, 2, 4, 0xFFFFFFFF, rng.randrange(1, 2 ** 32)])
        base = rng.choice(["xy", "x", "y", "none"])
        nest = rng.random() < 0.5
        tamper = rng.choice(["none", "none", "d", "p_count", "o_count", "fn", "keep"])
        if not ctx.case(["ec", p, A, B, order, cof, base, nest, tamper], "ec:" + ("nested-f" if nest else "external-f")):
            continue
        no = (p.bit_length() + 7) // 8
        f = lib.alloc(lib.gfpCreate_keep(no))
        if lib.gfpCreate(f, lib.mk(p.to_bytes(no, "little")), no, lib.alloc(lib.gfpCreate_deep(no))) != 1:
            raise Harness("gfpCreate failed for p=%d" % p)
        n = (no + lib.W - 1) // lib.W
        q = Qr.from_buffer_copy(lib.rd(f, ctypes.sizeof(Qr)))
        fkeep, fdeep = q.hdr.keep, q.deep
        if q.n != n or q.no != no or not (0 < fkeep <= lib.gfpCreate_keep(no)):
            raise Harness("qr_o layout")
        eckeep = lib.ecpCreateJ_keep(n)
        ec = lib.alloc(eckeep + (fkeep if nest else 0))
        if lib.ecpCreateJ(ec, f, lib.mk(A.to_bytes(no, "little")), lib.mk(B.to_bytes(no, "little")),
                          lib.alloc(lib.ecpCreateJ_deep(n, fdeep))) != 1:
            raise Harness("ecpCreateJ failed")
        if nest:
            if int.from_bytes(lib.rd(ec, 8), "little") != eckeep:
                raise Harness("objKeep(ec) != ecpCreateJ_keep")
            lib.objAppend(ec, f, 0)        # as bignStart() does
            lib.wr(f, bytes([0xEE]) * fkeep)   # the original field description is no longer needed
        # (ecIsOperableGroup is not called here: ec->order is not written before ecCreateGroup)
        r = [lib.ecIsOperable2(ec), lib.ecIsOperable(ec), lib.objIsOperable(ec)]
        rep.eq("ecIsOperable", "fresh-curve", [bool(x) for x in r], [True, True, True], {"p": p, "nest": nest})
        ol = (order.bit_length() + 7) // 8
        g = lib.ecCreateGroup(ec, lib.mk(rng_bytes(p, no, A)) if base in ("xy", "x") else 0,
                              lib.mk(rng_bytes(p, no, B)) if base in ("xy", "y") else 0,
                              lib.mk(order.to_bytes(ol, "little")), ol, cof, lib.alloc(lib.ecCreateGroup_deep(fdeep)))
        r2 = [g, lib.ecIsOperableGroup(ec), lib.ecIsOperable(ec)]
        rep.eq("ecIsOperableGroup", "after-ecCreateGroup", [bool(x) for x in r2], [True, True, True], {"p": p, "order": order})
        r3, r4 = [], []
        if nest:
            # move the whole description (curve + nested field) with objCopy: every pointer into the old extent
            # (ec->f, A, B, base, order and the nested f->mod, unity, params) must follow
            tot = eckeep + fkeep
            src_img = lib.rd(ec, tot)
            dp = lib.alloc(tot)
            lib.objCopy(dp, ec)
            e2 = Ec.from_buffer_copy(lib.rd(dp, ctypes.sizeof(Ec)))
            e1 = Ec.from_buffer_copy(src_img[:ctypes.sizeof(Ec)])
            sym = []
            for depth, names, s1, s2 in ((0, ("f", "A", "B", "base", "order", "params"), e1, e2),
                                         (1, ("mod", "unity", "params"), Qr.from_buffer_copy(src_img[eckeep:eckeep + ctypes.sizeof(Qr)]),
                                          Qr.from_buffer_copy(lib.rd(dp + eckeep, ctypes.sizeof(Qr))))):
                for nm in names:
                    v1, v2 = getattr(s1, nm) or 0, getattr(s2, nm) or 0
                    expv = v1 - ec + dp if ec <= v1 < ec + tot else v1
                    sym.append("i%d" % (v2 - dp) if dp <= v2 < dp + tot else "s%d" % (v2 - ec) if ec <= v2 < ec + tot else "x")
                    if v2 != expv:
                        cls = ("nested-" if depth else "top-") + ("object-ptr" if nm == "f" else "internal-ptr")
                        rep("objCopy", cls, "pointer of the copy is not what obj.h describes",
                            {"object": "ec_o with appended qr_o", "field": ("f->" if depth else "ec->") + nm, "p": p,
                             "points_into_source": ec <= v2 < ec + tot})
            rep.eq("objCopy", "source-modified", lib.rd(ec, tot), src_img, {"object": "ec_o with appended qr_o"})
            r3 = [sym, lib.ecIsOperable(dp), lib.ecIsOperableGroup(dp)]
            rep.eq("ecIsOperable", "copy-rejected", [bool(x) for x in r3[1:]], [True, True], {"p": p})
        if tamper != "none":
            # ecIsOperable2 lists its conditions: break one of them in a private copy of the curve description
            img = bytearray(lib.rd(ec, eckeep))
            if tamper == "d":
                off = Ec.d.offset
                img[off:off + 8] = (rng.choice([0, 1, 2])).to_bytes(8, "little")
            elif tamper == "p_count":
                img[8:16] = (rng.choice([5, 7])).to_bytes(8, "little")
            elif tamper == "o_count":
                img[16:24] = (rng.choice([0, 2])).to_bytes(8, "little")
            elif tamper == "fn":
                off = getattr(Ec, rng.choice(["froma", "toa", "neg", "add", "adda", "sub", "suba", "dbl", "dbla"])).offset
                img[off:off + 8] = bytes(8)
            else:
                img[0:8] = (ctypes.sizeof(Ec) - 1).to_bytes(8, "little")
            if nest:
                # keep f where it is (inside the first description); only the header / scalar fields are inspected
                pass
            t = lib.mk(bytes(img))
            r4 = [lib.ecIsOperable2(t), lib.ecIsOperable(t)]
            rep.eq("ecIsOperable2", "accepts-broken:" + tamper, [bool(x) for x in r4], [False, False], {"p": p})
        r5 = None
        if nest:
            # obj.h: the copy is self-contained.  Release the block the description was copied from and compute with the copy:
            # a pointer that still refers to the old extent is now a read of freed memory (ASan: heap-use-after-free).
            ctx.case(["ec-copy-used-after-source-freed", p, A, B], "ec:copy-used-after-source-freed")
            lib.free_one(ec)
            pt = lib.mk(rng_bytes(p, no, A + 1).ljust(n * lib.W, b"\0") + rng_bytes(p, no, B + 1).ljust(n * lib.W, b"\0"))
            r5 = bool(lib.ecpIsOnA(pt, dp, lib.alloc(lib.ecpIsOnA_deep(n, fdeep))))
            x, y = int.from_bytes(rng_bytes(p, no, A + 1), "little"), int.from_bytes(rng_bytes(p, no, B + 1), "little")
            rep.eq("ecpIsOnA", "on-copied-curve", r5, (y * y - (x * x * x + A * x + B)) % p == 0, {"p": p, "A": A, "B": B, "x": x, "y": y})
        ctx.digest(r, r2, r3, r4, r5)
        lib.release()


def rng_bytes(p, no, v):
    """a field element < p derived from v (base point coordinates need not lie on the curve: ec->base is not checked)"""
    return ((v * 0x9E3779B97F4A7C15 + 12345) % p).to_bytes(no, "little")


# =====================================================================================================================
# prng: COMBO / Echo / STB
# =====================================================================================================================

STB_VECTOR = bytes.fromhex(          # /repo/test/core/prng_test.c (prngSTBStart(state, 0), 128 octets)
    "402971E923BFD0B621E230D4CBFAF010E2D1F32D5C76B58AE05AB02BB85B2A10"
    "67F8DC6FFFF51932D956E3B3749884C5623331D616FF391C8AF12556A0CBA754"
    "79F682F6DD86DACB59346C50DD01CFAF6255D350C3B7392C8F6AA11496BBD25D"
    "D80C0173331A9C0DF721884E4E2773C57FE4E23824E31FC902F1C7A09EB1C312")


class StbModel:
    """generator of STB 1176.2-99 (7.2.2) as the repository describes it; anchored on the repository's test vector"""

    def __init__(self, z=None):
        self.z = list(z) if z else list(range(1, 32))
        self.v = self.w = self.u = 0
        self.i = 0
        for _ in range(256):
            self.clock()

    def clock(self):
        z, i = self.z, self.i
        j = (i + 10) % 31
        self.v = (self.v + z[i]) & 0xFFFF
        self.w = ((self.w >> 1) | (self.w << 15)) & 0xFFFF
        self.w = (self.w + z[(i + 20) % 31]) & 0xFFFF
        self.u = self.v ^ self.w
        z[i] = (z[i] - z[j]) % 65257
        self.i = (i + 1) % 31

    def gen(self, n):
        out = bytearray()
        for _ in range(n):
            u = self.u
            self.clock()
            out.append((self.u + u // 255) & 0xFF)
        return bytes(out)


def _chunks(rng, total):
    """split total into chunk lengths (zero-length requests included)"""
    out, left = [], total
    while left:
        c = min(left, rng.choice([0, 1, 1, 2, 3, 4, 5, 7, 8, 9, 16, 17, 31, 64, left]))
        out.append(c)
        left -= c
    if rng.random() < 0.3:
        out.append(0)
    return out


def unit_prng(ctx):
    lib, rng, P = ctx.lib, ctx.rng, ctx.params
    rep = Rep(ctx)
    if StbModel().gen(128) != STB_VECTOR:
        raise Harness("STB model does not reproduce the repository's test vector")
    keeps = {"COMBO": lib.prngCOMBO_keep(), "Echo": lib.prngEcho_keep(), "STB": lib.prngSTB_keep()}

    def start(kind, par):
        st = lib.alloc(keeps[kind])
        if kind == "COMBO":
            lib.prngCOMBOStart(st, par)
        elif kind == "Echo":
            lib.prngEchoStart(st, lib.mk(par), len(par))
        else:
            lib.prngSTBStart(st, lib.mk(b"".join(x.to_bytes(2, "little") for x in par)) if par else 0)
        return st

    def run(kind, st, chunks):
        step = getattr(lib, "prng%sStepR" % kind)
        out = b""
        for c in chunks:
            b = lib.alloc(c)
            step(b, c, st)
            out += lib.rd(b, c)
        return out

    for it in range(P.get("cases", 60)):
        kind = ["COMBO", "Echo", "STB"][it % 3]
        total = rng.choice(LENS[:60])
        if kind == "COMBO":
            par = rng.choice([0, 1, 0xFFFFFFFF, (0 - 0x1F6B7FBD) & M32, (M32 - 0x1F6B7FBD) & M32, rng.getrandbits(32)])
        elif kind == "Echo":
            par = rb(rng, rng.choice([1, 1, 2, 3, 7, 8, 9, 16, 33]))
        else:
            par = None if rng.random() < 0.3 else [rng.choice([1, 65256, rng.randrange(1, 65257)]) for _ in range(31)]
        chunks = _chunks(rng, total)
        if not ctx.case(["prng", kind, par, total, chunks], "prng:" + kind):
            continue
        one = run(kind, start(kind, par), [total])
        many = run(kind, start(kind, par), chunks)
        ctx.digest(one, many)
        rep.eq("prng%sStepR" % kind, "chunking", many, one, {"param": par, "chunks": chunks})
        if kind == "Echo":
            exp = bytes(par[i % len(par)] for i in range(total))
            rep.eq("prngEchoStepR", "echo", one, exp, {"seed": par})
        elif kind == "STB":
            rep.eq("prngSTBStepR", "stream", one, StbModel(par).gen(total), {"z": par})
        elif total >= 8:
            other = run(kind, start(kind, (par + 1) & M32), [total])
            if other == one and ((par + 0x1F6B7FBD) & M32) not in (0, M32):
                rep("prngCOMBOStepR", "seed-ignored", "two seeds give the same stream", {"seed": par})
        lib.release()


# =====================================================================================================================
# pri: priBaseMod, priExtendPrime, priExtendPrime2 (generators: the library's prng*StepR through gen_i)
# =====================================================================================================================

_MR_BASES = (2, 3, 5, 7, 11, 13, 17, 19, 23, 29, 31, 37, 41, 43, 47, 53, 59, 61, 67, 71, 73, 79, 83, 89)


def is_prime(n):
    if n < 2:
        return False
    for b in _MR_BASES:
        if n % b == 0:
            return n == b
    d, s = n - 1, 0
    while d % 2 == 0:
        d, s = d // 2, s + 1
    for b in _MR_BASES:
        x = pow(b, d, n)
        if x in (1, n - 1):
            continue
        for _ in range(s - 1):
            x = x * x % n
            if x == n - 1:
                break
        else:
            return False
    return True


def odd_primes(count):
    out, c = [], 3
    while len(out) < count:
        if all(c % q for q in out if q * q <= c):
            out.append(c)
        c += 2
    return out


def rand_prime(rng, bits):
    if bits == 2:
        return 3
    while True:
        c = rng.getrandbits(bits) | (1 << (bits - 1)) | 1
        if is_prime(c):
            return c


def unit_pri(ctx):
    lib, rng, P = ctx.lib, ctx.rng, ctx.params
    rep = Rep(ctx)
    W, B = lib.W, lib.B
    nbase = lib.priBaseSize()
    base = odd_primes(nbase)
    for it in range(P.get("basemod", 40)):
        nbits = rng.choice([0, 1, 8, 31, 32, 33, 63, 64, 65, 127, 128, 129, 255, 256, 300, 521])
        a = rng.getrandbits(nbits) if nbits else 0
        if rng.random() < 0.2 and nbits > 16:
            a -= a % base[rng.randrange(nbase)]          # some zero residues
        count = rng.choice([0, 1, 2, 3, 9, 10, 11, 15, 16, 17, 100, nbase - 1, nbase, rng.randrange(nbase + 1)])
        pad = rng.choice([0, 0, 1])                       # leading zero words are part of the domain
        if not ctx.case(["priBaseMod", a, count, pad], "priBaseMod"):
            continue
        n = (a.bit_length() + B - 1) // B + pad
        mods = lib.outw(count)
        lib.priBaseMod(mods, lib.mkw(a, n), n, count)
        got = [int.from_bytes(lib.rd(mods + i * W, W), "little") for i in range(count)]
        ctx.digest(got)
        rep.eq("priBaseMod", "residues", got, [a % q for q in base[:count]], {"a": a, "count": count})
        if count:
            k = rng.randrange(count)
            rep.eq("priBasePrime", "prime", lib.priBasePrime(k), base[k], {"i": k})
        lib.release()
    for it in range(P.get("basemod", 40)):
        nbits = rng.choice([1, 2, 8, 16, 31, 32, 33, 63, 64, 65, 128, 200])
        mode = rng.choice(["random", "smooth", "base", "product"])
        bc = rng.choice([0, 1, 2, 10, 100, nbase, rng.randrange(nbase + 1)])
        if mode == "random":
            a = rng.getrandbits(nbits) | 1
        elif mode == "base":
            a = base[rng.randrange(nbase)]
        else:
            a = 1 << rng.randrange(0, 5) if mode == "smooth" else 1
            while a.bit_length() < nbits:
                a *= base[rng.randrange(max(1, min(nbase, bc + (3 if rng.random() < 0.3 else 0))))]
            if mode == "product":
                a |= 1
        pad = rng.choice([0, 0, 1])
        if not ctx.case(["priIsSieved/Smooth", a, bc, pad], "priIsSieved/Smooth"):
            continue
        n = (a.bit_length() + B - 1) // B + pad
        r1 = lib.priIsSieved(lib.mkw(a, n), n, bc, lib.alloc(lib.priIsSieved_deep(bc)))
        r2 = lib.priIsSmooth(lib.mkw(a, n), n, bc, lib.alloc(lib.priIsSmooth_deep(n)))
        ctx.digest(r1, r2)
        t = a
        while t % 2 == 0:
            t //= 2
        for q in base[:bc]:
            while t % q == 0:
                t //= q
        rep.eq("priIsSieved", "flag", bool(r1), a % 2 == 1 and all(a % q for q in base[:bc]), {"a": a, "base_count": bc})
        rep.eq("priIsSmooth", "flag", bool(r2), t == 1, {"a": a, "base_count": bc})
        lib.release()
    gens = ("COMBO", "STB", "Echo")
    for it in range(P.get("extend", 30)):
        k = rng.choice(P.get("qbits", [2, 3, 4, 5, 8, 16, 31, 32, 33, 63, 64, 65, 100, 128]))
        composite = rng.random() < 0.1 and k >= 4
        if composite:
            while True:
                q = rng.getrandbits(k) | (1 << (k - 1)) | 1
                if not is_prime(q):
                    break
        else:
            q = rand_prime(rng, k)
        two = rng.random() < 0.5
        if two and k >= 3:
            abits = rng.randrange(1, k)                  # bits(q*a) + 1 <= l <= 2k must stay satisfiable
            a = rng.getrandbits(abits) | (1 << (abits - 1))
            if rng.random() < 0.3:
                a = 1
        else:
            two, a = (two and k >= 3), 1
        lo, hi = (q * a).bit_length() + 1, 2 * k
        if lo > hi:
            a = 1
            lo = k + 1
        cand = sorted({lo, hi, rng.randrange(lo, hi + 1)} | {x for x in (32, 33, 64, 65, 128, 129) if lo <= x <= hi})
        l = rng.choice(cand)
        gen = rng.choice(gens)
        big = l >= 24 and gen != "Echo" and not composite and l - (q * a).bit_length() >= 12   # SIZE_MAX trials must terminate
        trials = rng.choice([SIZE_MAX, SIZE_MAX, 2000] if big else [0, 1, 7, 300, 300, 3000])
        bc = rng.choice([0, 1, 10, 100, nbase, rng.randrange(nbase + 1)])
        gpar = rng.getrandbits(32) if gen == "COMBO" else rb(rng, rng.choice([1, 5, 16, 37])) if gen == "Echo" else None
        fn = "priExtendPrime2" if two else "priExtendPrime"
        if not ctx.case([fn, l, q, a, trials, bc, gen, gpar, composite], "%s:%s" % (fn, "composite-q" if composite else gen)):
            continue
        n = (k + B - 1) // B
        m = (a.bit_length() + B - 1) // B
        np_ = (l + B - 1) // B
        st = lib.alloc(getattr(lib, "prng%s_keep" % gen)())
        if gen == "COMBO":
            lib.prngCOMBOStart(st, gpar)
        elif gen == "Echo":
            lib.prngEchoStart(st, lib.mk(gpar), len(gpar))
        else:
            lib.prngSTBStart(st, 0)
        g = lib.addr("prng%sStepR" % gen)
        p = lib.outw(np_)
        if two:
            stack = lib.alloc(lib.priExtendPrime2_deep(l, n, m, bc))
            r = lib.priExtendPrime2(p, l, lib.mkw(q, n), n, lib.mkw(a, m), m, trials, bc, g, st, stack)
        else:
            stack = lib.alloc(lib.priExtendPrime_deep(l, n, bc))
            r = lib.priExtendPrime(p, l, lib.mkw(q, n), n, trials, bc, g, st, stack)
        ctx.classes["%s:%s" % (fn, "found" if r else "not-found")] += 1
        if r:
            pv = lib.rdw(p, np_)
            ctx.digest(1, pv)
            d = {"l": l, "q": q, "a": a, "p": pv, "trials": trials, "base_count": bc}
            rep.eq(fn, "bit-length", pv.bit_length(), l, d)
            rep.eq(fn, "not-1-mod-2qa", (pv - 1) % (2 * q * a), 0, d)
            if not composite:
                rep.eq(fn, "not-prime", is_prime(pv), True, d)
        else:
            ctx.digest(0)                      # p is not an output then
            if trials == SIZE_MAX:
                rep(fn, "gives-up", "FALSE although all candidates were to be tried", {"l": l, "q": q, "a": a})
        lib.release()


# =====================================================================================================================
# rngTestFIPS1..4 (FIPS 140-2 statistical tests as rng.h states them) on crafted 20000-bit sequences
# =====================================================================================================================

def _bits(buf):
    """bit i of the sequence = bit i%8 of octet i/8 (rng.h: wwTestBit((const word*)buf, i), little-endian words)"""
    return "".join(format(x, "08b")[::-1] for x in buf)


def fips_oracle(buf):
    from itertools import groupby
    bs = _bits(buf)
    s = bs.count("1")
    t1 = 9725 < s < 10275
    cnt = [0] * 16
    for x in buf:
        cnt[x & 15] += 1
        cnt[x >> 4] += 1
    s2 = 16 * sum(c * c for c in cnt) - 5000 * 5000
    t2 = 10800 < s2 < 230850
    runs = [[0] * 7, [0] * 7]
    longest = 0
    for k, g in groupby(bs):
        l = len(list(g))
        longest = max(longest, l)
        runs[int(k)][min(l, 6)] += 1
    lim = {1: (2315, 2685), 2: (1114, 1386), 3: (527, 723), 4: (240, 384), 5: (103, 209), 6: (103, 209)}
    t3 = all(lim[i][0] <= runs[b][i] <= lim[i][1] for b in (0, 1) for i in range(1, 7))
    t4 = longest < 26
    return [t1, t2, t3, t4], {"ones": s, "poker": s2, "runs0": runs[0][1:], "runs1": runs[1][1:], "longest": longest}


def _frombits(bl):
    out = bytearray(2500)
    for i, b in enumerate(bl):
        if b:
            out[i >> 3] |= 1 << (i & 7)
    return bytes(out)


def fips_sequence(rng, kind):
    if kind == "zeros":
        return bytes(2500)
    if kind == "ones":
        return b"\xff" * 2500
    if kind == "const":
        return bytes([rng.choice([0x55, 0xAA, 0x0F, 0xF0, 0x33, 0x01, 0x80, 0x69])]) * 2500
    if kind == "random":
        return rb(rng, 2500)
    if kind == "weight":
        bl = [rng.getrandbits(1) for _ in range(20000)]
        w = rng.choice([9724, 9725, 9726, 9727, 10273, 10274, 10275, 10276])
        idx = list(range(20000))
        rng.shuffle(idx)
        cur = sum(bl)
        for i in idx:
            if cur == w:
                break
            if cur < w and not bl[i]:
                bl[i], cur = 1, cur + 1
            elif cur > w and bl[i]:
                bl[i], cur = 0, cur - 1
        return _frombits(bl)
    if kind == "longrun":
        bl = [rng.getrandbits(1) for _ in range(20000)]
        lr = rng.choice([24, 25, 26, 27, 33, 64, 65])
        pos = rng.choice([0, 20000 - lr, rng.randrange(0, 20000 - lr), 8 * rng.randrange(0, 2490), 64 * rng.randrange(1, 300) - lr // 2])
        v = rng.getrandbits(1)
        for i in range(pos, pos + lr):
            bl[i] = v
        if pos > 0:
            bl[pos - 1] = 1 - v
        if pos + lr < 20000:
            bl[pos + lr] = 1 - v
        return _frombits(bl)
    if kind == "poker-flat":
        # nibble counts 312/313 each, then d occurrences moved from one value to another (statistic crosses 2.16)
        cnt = [313] * 8 + [312] * 8
        d = rng.choice([0, 10, 17, 18, 19, 20, 25])
        cnt[0] += d
        cnt[15] -= d
        nib = [v for v, c in enumerate(cnt) for _ in range(c)]
        rng.shuffle(nib)
        return bytes(nib[2 * i] | nib[2 * i + 1] << 4 for i in range(2500))
    if kind == "poker-skew":
        t = rng.uniform(0.012, 0.03)
        fav = rng.randrange(16)
        nib = [fav if rng.random() < t else rng.randrange(16) for _ in range(5000)]
        return bytes(nib[2 * i] | nib[2 * i + 1] << 4 for i in range(2500))
    if kind == "markov":
        stay = rng.uniform(0.44, 0.56)
        bl, b = [], rng.getrandbits(1)
        for _ in range(20000):
            if rng.random() >= stay:
                b ^= 1
            bl.append(b)
        return _frombits(bl)
    raise Harness(kind)


FIPS_KINDS = ["zeros", "ones", "const", "random", "random", "weight", "weight", "longrun", "longrun", "poker-flat", "poker-skew", "markov", "markov"]


def unit_fips(ctx):
    lib, rng, P = ctx.lib, ctx.rng, ctx.params
    rep = Rep(ctx)
    for it in range(P.get("cases", 26)):
        kind = FIPS_KINDS[it % len(FIPS_KINDS)]
        seq = fips_sequence(rng, kind)
        if not ctx.case(["fips", kind, seq], "fips:" + kind):
            continue
        exp, stat = fips_oracle(seq)
        got = []
        for i in range(4):
            got.append(getattr(lib, "rngTestFIPS%d" % (i + 1))(lib.mk(seq)))
            lib.release()
        ctx.digest(got)
        for i in range(4):
            ctx.classes["FIPS%d:%s" % (i + 1, "pass" if exp[i] else "fail")] += 1
            rep.eq("rngTestFIPS%d" % (i + 1), "verdict", bool(got[i]), exp[i], {"kind": kind, "statistics": stat})


# =====================================================================================================================
# entropy sources and the (single) random number generator, single-threaded
# =====================================================================================================================

READ_I = CFUNCTYPE(ctypes.c_uint32, c_void_p, c_void_p, c_size_t, c_void_p)


def unit_rng(ctx):
    """nothing that depends on true entropy is digested or compared; the calls are made with exact buffers"""
    lib, P = ctx.lib, ctx.params
    rep = Rep(ctx)
    E = bee2.errcode
    OK = 0
    if ctx.case(["rngIsValid", "before-create"], "rng:valid"):
        v = lib.rngIsValid()
        ctx.digest(v)
        rep.eq("rngIsValid", "before-create", bool(v), False)
    srcs = ["trng", "trng2", "sys", "sys2", "bogus", ""] + (["timer"] if P.get("timer") else [])
    for s in srcs:
        if not ctx.case(["rngESTest", s], "rngESTest"):
            continue
        r = lib.rngESTest(lib.cstr(s))
        ctx.classes["rngESTest:%s:%s" % (s, bee2.errname(r))] += 1
        if s in ("bogus", ""):
            ctx.digest(r)
            rep.eq("rngESTest", "unknown-source-accepted", r != OK, True, {"source": s})
        lib.release()
    if ctx.case(["rngESHealth"], "rngESHealth"):
        r = lib.rngESHealth()
        ctx.classes["rngESHealth:" + bee2.errname(r)] += 1
        if r not in (OK, E("ERR_NOT_ENOUGH_ENTROPY"), E("ERR_BAD_ENTROPY")):
            rep("rngESHealth", "undocumented-code", "return code outside the documented set", {"got": bee2.errname(r)})
    if ctx.case(["rngESHealth2"], "rngESHealth2"):
        r = lib.rngESHealth2()
        ctx.classes["rngESHealth2:" + bee2.errname(r)] += 1
        if r not in (OK, E("ERR_BAD_ENTROPY")):
            rep("rngESHealth2", "undocumented-code", "rng.h: ERR_OK or ERR_BAD_ENTROPY", {"got": bee2.errname(r)})

    calls = ctypes.c_int(0)           # (no Python allocation that outlives the callback: memcheck attributes it to the bee2 frame)

    def make_source(mode):
        def src(read, buf, count, state):
            calls.value = calls.value + 1
            n = {"full": count, "partial": min(count, 7), "fail": 0, "none": 0}[mode]
            if n:
                ctypes.memmove(buf, bytes((37 * i + 11) & 0xFF for i in range(n)), n)
            ctypes.memmove(read, n.to_bytes(8, "little"), 8)
            return E("ERR_BAD_ENTROPY") if mode == "fail" else OK
        return READ_I(src)

    counts = [0, 1, 3, 4, 5, 15, 16, 17, 31, 32, 33, 100, 257]
    for rnd, mode in enumerate(P.get("modes", [None, "full", "partial", "fail", "none"])):
        if not ctx.case(["rng-session", mode], "rng:session"):
            continue
        cb = make_source(mode) if mode else None
        sst = lib.alloc(4)
        r = lib.rngCreate(ctypes.cast(cb, c_void_p).value if cb else 0, sst if cb else 0)
        if r != OK:
            ctx.classes["rngCreate:" + bee2.errname(r)] += 1
            if r not in (E("ERR_NOT_ENOUGH_ENTROPY"), E("ERR_FILE_CREATE"), E("ERR_OUTOFMEMORY")):
                rep("rngCreate", "undocumented-code", "unexpected return code", {"got": bee2.errname(r)})
            lib.release()
            continue
        flags = [lib.rngIsValid()]
        # a second reference (the branch of rngCreate that keeps the accumulated state), with the extra source
        r2 = lib.rngCreate(ctypes.cast(cb, c_void_p).value if cb else 0, sst if cb else 0)
        outs = []
        # rngStepR / rngStepR2 hand the previous content of the output buffer to brngCTRStepR as additional input (brng.h
        # documents that buffer as in/out; the result is a random value by definition), so the buffer is presented
        # initialised: what an uninitialised one "influences" is not a defined result
        for fn in ("rngStepR", "rngStepR2"):
            for c in counts:
                b = lib.alloc(c, 0)
                getattr(lib, fn)(b, c, 0)
                outs.append(lib.rd(b, c))
            if fn == "rngStepR":
                lib.rngRekey()
                b = lib.alloc(32, 0)
                lib.rngStepR(b, 32, 0)
                outs.append(lib.rd(b, 32))
        big = [o for o in outs if len(o) >= 16]
        if len(set(big)) != len(big) or len({o[:16] for o in big}) != len(big):
            rep("rngStepR", "repeats", "two requests returned the same octets", {"mode": mode})
        flags.append(lib.rngIsValid())
        lib.rngClose()
        if r2 == OK:
            flags.append(lib.rngIsValid())
            lib.rngClose()
        flags.append(lib.rngIsValid())
        ctx.digest(r, r2, flags, [len(o) for o in outs])
        rep.eq("rngIsValid", "session", [bool(x) for x in flags], [True, True] + ([True] if r2 == OK else []) + [False], {"mode": mode})
        if cb and not calls.value:
            rep("rngCreate", "source-not-used", "the additional source was never read", {"mode": mode})
        lib.release()


# =====================================================================================================================
# tm / util / err / mt (single-threaded)
# =====================================================================================================================

VOIDFN = CFUNCTYPE(None)
MTX_SIZE = 40          # sizeof(pthread_mutex_t) on x86-64 Linux (mt_mtx_t = pthread_mutex_t)


def unit_sys(ctx):
    lib, rng, P = ctx.lib, ctx.rng, ctx.params
    rep = Rep(ctx)
    # ---- checksums -----------------------------------------------------------------------------------------------
    for L in pick_lens(P, rng, extra=3):
        data = rb(rng, L)
        ch = _chunks(rng, L)
        if not ctx.case(["checksums", data, ch], "utilCRC32/FNV32"):
            continue
        c1 = lib.utilCRC32(lib.mk(data), L, 0)
        f1 = lib.utilFNV32(lib.mk(data), L, 0x811C9DC5)
        c2, f2, o = 0, 0x811C9DC5, 0
        for c in ch:
            c2 = lib.utilCRC32(lib.mk(data[o:o + c]), c, c2)
            f2 = lib.utilFNV32(lib.mk(data[o:o + c]), c, f2)
            o += c
        ctx.digest(c1, f1, c2, f2)
        h = 0x811C9DC5
        for x in data:
            h = ((h ^ x) * 16777619) & M32
        rep.eq("utilCRC32", "crc", [c1, c2], [zlib.crc32(data)] * 2, {"data": data})
        rep.eq("utilFNV32", "fnv1a", [f1, f2], [h, h], {"data": data})
        lib.release()
    # ---- min / max -----------------------------------------------------------------------------------------------
    for _ in range(P.get("minmax", 40)):
        n = rng.choice([1, 1, 2, 3, 5, 6, 7, 8, 12])
        vals = [rng.choice([0, 1, SIZE_MAX, SIZE_MAX - 1, 2 ** 32, 2 ** 32 - 1, rng.getrandbits(64), rng.getrandbits(16)]) for _ in range(n)]
        if not ctx.case(["utilMin/Max", vals], "utilMin/Max"):
            continue
        args = [c_size_t(n)] + [c_size_t(v) for v in vals]
        mn, mx = lib.utilMin(*args), lib.utilMax(*args)
        ctx.digest(mn, mx)
        rep.eq("utilMin", "min", mn, min(vals), {"values": vals})
        rep.eq("utilMax", "max", mx, max(vals), {"values": vals})
    # ---- version / messages ----------------------------------------------------------------------------------------
    if ctx.case(["utilVersion"], "utilVersion"):
        from .. import build
        import os
        p = lib.utilVersion()
        v = ctypes.string_at(p) if p else None
        ctx.digest(v)
        txt = open(os.path.join(build.REPO, "include/bee2/info.h"), encoding="utf-8", errors="replace").read()
        m = [re.search(r'#define\s+BEE2_VERSION_%s\s+"(\d+)"' % k, txt) for k in ("MAJOR", "MINOR", "PATCH")]
        if not all(m):
            raise Harness("info.h: version macros not found")
        rep.eq("utilVersion", "string", v, ".".join(x.group(1) for x in m).encode())
    if ctx.case(["errMsg"], "errMsg"):
        bee2.errcode("ERR_OK")
        table = {k: v for k, v in bee2.errcode.__defaults__[0].items() if k != "ERR_MAX"}     # ERR_MAX is not an err.h code
        known = set(table.values())
        msgs = []
        for name, code in sorted(table.items()):
            p = lib.errMsg(code)
            s = ctypes.string_at(p) if p else None
            msgs.append(s)
            if s is None or not s or not all(32 <= c < 127 for c in s):
                rep("errMsg", "no-message", "a code defined in err.h has no printable message", {"code": name, "got": s})
        unknown = [c for c in [1000, 0x7FFFFFFF, 0xFFFFFFFE, 12345678] + [rng.getrandbits(32) for _ in range(20)] if c not in known]
        for c in unknown:
            p = lib.errMsg(c)
            if p:
                rep("errMsg", "message-for-unknown-code", "err.h: 0 for an unrecognised code", {"code": c, "got": ctypes.string_at(p)})
        ctx.digest(msgs)
    # ---- time ----------------------------------------------------------------------------------------------------------
    if ctx.case(["tmTicks/Freq/Speed"], "tm:timer"):
        t1 = lib.tmTicks()
        t2 = lib.tmTicks()
        fr, fr2 = lib.tmFreq(), lib.tmFreq()
        if t1 == 0 or t2 < t1:
            rep("tmTicks", "not-monotone", "timer readings decrease or are 0", {"t1": t1, "t2": t2})
        if fr == 0 or fr != fr2:
            rep("tmFreq", "unstable", "frequency 0 or changing", {"f1": fr, "f2": fr2})
        mx = lib.tmSpeed(12345, 0)
        ctx.digest(mx)
        rep.eq("tmSpeed", "zero-ticks", mx, SIZE_MAX)
        for _ in range(10):
            reps, ticks = rng.randrange(0, 1 << 20), rng.choice([1, 2, 1000, rng.randrange(1, 1 << 40)])
            rep.eq("tmSpeed", "quotient", lib.tmSpeed(reps, ticks), reps * fr // ticks, {"reps": reps, "ticks": ticks, "freq": fr})
    if ctx.case(["tmTime/tmTimeRound"], "tm:time"):
        a = int(time.time())
        t = lib.tmTime()
        b = int(time.time())
        if not a <= t <= b:
            rep("tmTime", "off", "not the UNIX time", {"got": t, "python": [a, b]})
        e1, e2 = lib.tmTimeRound(0, 0), lib.tmTimeRound(b + 100000, 30)
        ctx.digest(e1, e2)
        rep.eq("tmTimeRound", "error-cases", [e1, e2], [-1, -1])
        for _ in range(12):
            t0 = rng.choice([0, 1, a, a - 1, rng.randrange(0, a)])
            ts = rng.choice([1, 30, 60, 3600, rng.randrange(1, 10 ** 6)])
            a = int(time.time())
            r = lib.tmTimeRound(t0, ts)
            b = int(time.time())
            if not (a - t0) // ts <= r <= (b - t0) // ts:
                rep("tmTimeRound", "quotient", "not (tmTime() - t0) / ts", {"t0": t0, "ts": ts, "got": r, "now": [a, b]})
    if ctx.case(["tmDate/tmDate2"], "tm:date"):
        flags = []
        for mask in range(8):
            a = time.localtime()
            ptr = [lib.alloc(8) if mask >> i & 1 else 0 for i in range(3)]
            r = lib.tmDate(*ptr)
            b = time.localtime()
            flags.append(r)
            got = [lib.rd_size(p) if p else None for p in ptr]
            ok = any(got == [x if p else None for x, p in zip((t.tm_year, t.tm_mon, t.tm_mday), ptr)] for t in (a, b))
            if not r or not ok:
                rep("tmDate", "date", "not the local date", {"ret": r, "got": got, "python": [a.tm_year, a.tm_mon, a.tm_mday]})
            lib.release()
        a = time.localtime()
        d = lib.alloc(6)
        r = lib.tmDate2(d)
        b = time.localtime()
        got = list(lib.rd(d, 6))
        flags.append(r)
        exp = [[t.tm_year % 100 // 10, t.tm_year % 10, t.tm_mon // 10, t.tm_mon % 10, t.tm_mday // 10, t.tm_mday % 10] for t in (a, b)]
        if 2000 <= a.tm_year <= 2099:
            if not r or got not in exp:
                rep("tmDate2", "date", "not the local date as YYMMDD", {"ret": r, "got": got, "expected": exp[0]})
            elif not lib.tmDateIsValid2(d):
                rep("tmDate2", "invalid", "tmDateIsValid2 rejects the current date", {"got": got})
        ctx.digest(flags)
        lib.release()
    import datetime
    for _ in range(P.get("minmax", 40)):
        y = rng.choice([0, 1582, 1583, 1600, 1700, 1900, 2000, 2023, 2024, 2100, 2400, 9999, rng.randrange(1583, 10000)])
        m = rng.choice([0, 1, 2, 2, 4, 6, 9, 11, 12, 13, rng.randrange(1, 13)])
        d = rng.choice([0, 1, 28, 29, 30, 31, 32, rng.randrange(1, 32)])
        if not ctx.case(["tmDateIsValid", y, m, d], "tmDateIsValid"):
            continue
        r = lib.tmDateIsValid(y, m, d)
        ctx.digest(r)
        try:
            datetime.date(y, m, d)
            ok = y >= 1583
        except ValueError:
            ok = False
        rep.eq("tmDateIsValid", "flag", bool(r), ok, {"date": [y, m, d]})
    if ctx.case(["utilNonce32"], "utilNonce32"):
        n = [lib.utilNonce32() for _ in range(4)]
        if not all(0 <= x <= M32 for x in n):
            rep("utilNonce32", "range", "not a 32-bit value", {"got": n})
    # ---- mt -----------------------------------------------------------------------------------------------------------
    for _ in range(P.get("atomic", 30)):
        v = rng.choice([0, 1, 2, SIZE_MAX, SIZE_MAX - 1, 2 ** 32 - 1, 2 ** 32, rng.getrandbits(64)])
        cmp_ = rng.choice([v, v, v ^ 1, 0, SIZE_MAX, rng.getrandbits(64)])
        sw = rng.choice([0, 1, SIZE_MAX, rng.getrandbits(64)])
        if not ctx.case(["mtAtomic", v, cmp_, sw], "mtAtomic*"):
            continue
        c = lib.mk_size(v)
        r1, v1 = lib.mtAtomicIncr(c), lib.rd_size(c)
        r2, v2 = lib.mtAtomicDecr(c), lib.rd_size(c)
        r3, v3 = lib.mtAtomicDecr(c), lib.rd_size(c)
        lib.wr(c, v.to_bytes(8, "little"))
        r4, v4 = lib.mtAtomicCmpSwap(c, cmp_, sw), lib.rd_size(c)
        ctx.digest(r1, v1, r2, v2, r3, v3, r4, v4)
        m = 2 ** 64
        rep.eq("mtAtomicIncr", "value", [r1, v1], [(v + 1) % m] * 2, {"ctr": v})
        rep.eq("mtAtomicDecr", "value", [r2, v2, r3, v3], [v, v, (v - 1) % m, (v - 1) % m], {"ctr": v})
        rep.eq("mtAtomicCmpSwap", "value", [r4, v4], [v, sw if v == cmp_ else v], {"ctr": v, "cmp": cmp_, "swap": sw})
        lib.release()
    if ctx.case(["mtMtx"], "mtMtx*"):
        flags = []
        for _ in range(3):
            mtx = lib.alloc(MTX_SIZE)
            flags.append(lib.mtMtxCreate(mtx))
            flags.append(lib.mtMtxIsValid(mtx))
            for _ in range(3):
                lib.mtMtxLock(mtx)
                lib.mtMtxUnlock(mtx)
            lib.mtMtxClose(mtx)
            lib.release()
        ctx.digest(flags)
        rep.eq("mtMtxCreate", "flags", [bool(x) for x in flags], [True] * 6)
    if ctx.case(["mtCallOnce"], "mtCallOnce"):
        hits = ctypes.c_int(0)

        def hit():
            hits.value = hits.value + 1
        cb = VOIDFN(hit)
        fp = ctypes.cast(cb, c_void_p).value
        once = lib.mk_size(0)
        rs = [lib.mtCallOnce(once, fp) for _ in range(3)]
        tr = lib.rd_size(once)
        once2 = lib.mk_size(0)
        rs.append(lib.mtCallOnce(once2, fp))
        ctx.digest(rs, hits.value, tr)
        rep.eq("mtCallOnce", "calls", [[bool(x) for x in rs], hits.value], [[True] * 4, 2])
        lib.release()
    if ctx.case(["mtSleep"], "mtSleep"):
        for ms in (0, 1, 2, 20):
            t = time.monotonic()
            lib.mtSleep(ms)
            el = (time.monotonic() - t) * 1000
            if el < ms - 0.5:
                rep("mtSleep", "too-short", "returned before the requested time", {"ms": ms, "elapsed_ms": el})
        ctx.digest(0)


# =====================================================================================================================
# jobs / main
# =====================================================================================================================

def unit_words(ctx):
    """u16/u32/u64 From and To on every count 0..40: [count] octets <-> [(count + k - 1) / k] little-endian words, exact-size
    buffers on both sides (a ragged count fills the last word with zeros on From and stops inside it on To); in place too"""
    lib, rng = ctx.lib, ctx.rng
    rep = Rep(ctx)
    for k, pfx in ((2, "u16"), (4, "u32"), (8, "u64")):
        if not (lib.has(pfx + "From") and lib.has(pfx + "To")):
            continue
        for count in range(0, 41):
            src = rb(rng, count)
            nw = (count + k - 1) // k
            if ctx.case([pfx + "From", count, src], "words:%s:%s" % (pfx, "ragged" if count % k else "whole")):
                d = lib.alloc(nw * k)
                getattr(lib, pfx + "From")(d, lib.mk(src), count)
                got = lib.rd(d, nw * k)
                ctx.digest(got)
                rep.eq(pfx + "From", "value", got, src + bytes(nw * k - count), {"count": count})
                # the words back into exactly count octets
                o = lib.alloc(count)
                getattr(lib, pfx + "To")(o, count, d)
                back = lib.rd(o, count)
                ctx.digest(back)
                rep.eq(pfx + "To", "value", back, src, {"count": count})
                # in place: the octet buffer is the word array (sized for the words)
                b = lib.alloc(nw * k)
                lib.wr(b, src)
                getattr(lib, pfx + "From")(b, b, count)
                rep.eq(pfx + "From", "in-place", lib.rd(b, nw * k), src + bytes(nw * k - count), {"count": count})
                lib.release()


def jobs(tier, scale=1.0):
    """about a minute of CPU at scale 1.0, a few seconds at 0.05 (one small job per unit)"""
    s = max(0.02, min(float(scale), 4.0))
    if tier == "thorough":
        s *= 3
    js = []

    def add(unit, k, **params):
        for c in range(k):
            js.append({"unit": "c07_misc:" + unit, "params": dict(params, chunk=c, nchunks=k)})

    k = max(1, round(3 * s))
    thin = 4 if s < 0.2 else 1
    add("unit_mem", k, thin=thin, pred=max(20, int(400 * s)))
    add("unit_str", k, thin=thin)
    js.append({"unit": "c07_misc:unit_words", "params": {}, "always": True})
    add("unit_sys", max(1, round(2 * s)), thin=thin, minmax=max(8, int(100 * s)), atomic=max(8, int(100 * s)))
    add("unit_blob", k, seqs=max(6, int(500 * s)))
    add("unit_obj", k, cases=max(18, int(900 * s)))
    add("unit_ec", max(1, round(2 * s)), cases=max(4, int(120 * s)))
    add("unit_prng", max(1, round(2 * s)), cases=max(9, int(700 * s)))
    add("unit_pri", max(1, round(4 * s)), basemod=max(6, int(300 * s)), extend=max(5, int(320 * s)),
        **({"qbits": [2, 3, 4, 5, 8, 16, 31, 32, 33, 64, 65]} if s < 0.2 else {}))
    add("unit_fips", max(1, round(4 * s)), cases=max(13, int(120 * s)))
    js.append({"unit": "c07_misc:unit_rng", "params": {"timer": s >= 0.5, "modes": [None, "full", "partial", "fail", "none"] if s >= 0.2 else [None, "partial"]}})
    return js


REQUIRED = ("memCopy", "memCmp-family", "priIsSieved/Smooth", "tmDateIsValid", "memXor:dest=src1", "memAlloc", "memIsDisjoint*", "str:edge", "blob-seq", "obj:tree-copy", "obj:self-append",
            "ec:nested-f", "prng:COMBO", "prng:Echo", "prng:STB", "priBaseMod", "FIPS4:fail", "FIPS1:pass", "rng:session",
            "utilCRC32/FNV32", "mtAtomic*", "mtCallOnce", "tm:date")


def main(run, scale=None):
    """stand-alone run of this module (C07 replays jobs() itself): asan64 with two fills + asan32"""
    sc = scale if scale is not None else (0.05 if run.tier == "quick" else 1.0)
    js = []
    for j in jobs("quick", sc):
        js += [dict(j, cfg="asan64", fill=0xA5), dict(j, cfg="asan64", fill=0x00), dict(j, cfg="asan32", fill=0xA5)]
    run.run_jobs(js, timeout=1800)
    run.coverage_extra["two_fill_cases_compared"] = run.compare_digests("fill-diff", "scratch fill pattern influences the results",
                                                                         ref="asan64", same_cfg=True)
    return run.finish(rule="cases = one call group per (function family, length / shape, seed); exact-size buffers; value oracles "
                           "from the header text; distinct = distinct case descriptions",
                      assumptions=["entropy sources, clocks and the generator output are exercised but not compared",
                                   "sizeof(mt_mtx_t) = 40 (pthread_mutex_t, x86-64 Linux)"],
                      required_classes=REQUIRED)


def _standalone(tier, scale):
    """development run without an evidence file: prints violations / harness errors, exit code like ./check"""
    import json, shutil
    from .. import core
    run = core.Run("C07MISC", tier, core.seed_from_env(), LEVEL)
    js = []
    for j in jobs("quick", scale):
        js += [dict(j, cfg="asan64", fill=0xA5), dict(j, cfg="asan64", fill=0x00), dict(j, cfg="asan32", fill=0xA5)]
    run.run_jobs(js, timeout=1800)
    cmpd = run.compare_digests("fill-diff", "scratch fill pattern influences the results", ref="asan64", same_cfg=True)
    for k, v in sorted(run.viol.items()):
        print("VIOLATION key=%s count=%d: %s\n   %s" % (k, v["count"], v["what"], json.dumps(v["info"], default=core._jd)[:1200]))
    for h in run.harness_errors:
        print("HARNESS: " + h[-3000:])
    missing = [c for c in REQUIRED if not run.classes.get(c)]
    print("jobs=%d evaluations=%d two-fill-compared=%d missing-classes=%s wall=%.1fs cpu(sum of job walls)=%.1fs" % (
        len(js), run.evaluations, cmpd, missing, time.time() - run.t0, sum(u["cpu_wall_s"] for u in run.unit_stats.values())))
    for u, st in sorted(run.unit_stats.items()):
        print("   %-32s jobs=%d cases=%d %.1fs" % (u, st["jobs"], st["evaluations"], st["cpu_wall_s"]))
    shutil.rmtree(run.work, ignore_errors=True)
    return 1 if run.viol else 2 if (run.harness_errors or missing) else 0


if __name__ == "__main__":
    import sys
    tier = sys.argv[1] if len(sys.argv) > 1 else "quick"
    sys.exit(_standalone(tier, float(sys.argv[2]) if len(sys.argv) > 2 else (0.05 if tier == "quick" else 1.0)))
